"""Shared machinery of every check: regenerate + build the Lean development from the
repository's current working tree, audit axioms, collect obligations, write evidence,
known-findings protocol, verdict lines."""
import fcntl, hashlib, json, os, re, subprocess, sys, time
from env import VERIF, REPO, HERE

LEAN = os.path.join(VERIF, "lean")
GEN = os.path.join(LEAN, "TartModel", "Generated")
ALLOWED_AXIOMS = {"propext", "Classical.choice", "Quot.sound"}
FORBIDDEN = re.compile(r"\b(sorry|admit|native_decide|bv_decide|implemented_by|unsafe)\b|^axiom\s|maxHeartbeats\s+0")
TRUSTED_BASE = [
    "Lean 4.33 kernel (leanchecker re-check in the thorough tier)",
    "axioms of every property theorem ⊆ {propext, Classical.choice, Quot.sound} (audited per run by `#print axioms`)",
    "harness/py2lean.py translator for T-tier functions (validated per run against the real functions)",
    "correspondence check real engine vs compiled model for hand-written (H-tier) model parts",
    "harness/gqlshim.py: substitute for the absent native libgraphqlparser (text -> JSON AST)",
    "CPython 3.12 float()/int()/str(), asyncio, functools.lru_cache, json, lark (modelled, not verified)",
]

def sh(cmd, cwd=None, timeout=3600, env=None):
    p = subprocess.run(cmd, cwd=cwd, shell=isinstance(cmd, str), capture_output=True, text=True, timeout=timeout, env=env)
    return p.returncode, p.stdout + p.stderr

class Lock:
    def __init__(self, path): self.path = path
    def __enter__(self):
        self.f = open(self.path, "w"); fcntl.flock(self.f, fcntl.LOCK_EX); return self
    def __exit__(self, *a):
        fcntl.flock(self.f, fcntl.LOCK_UN); self.f.close()

def property_theorems(pid):
    """theorem names declared in Properties/<pid>.lean with their line spans"""
    path = os.path.join(LEAN, "TartModel", "Properties", f"{pid}.lean")
    if not os.path.exists(path): return []
    out = []
    lines = open(path).read().split("\n")
    ns = "Tart." + pid
    for i, ln in enumerate(lines, 1):
        m = re.match(r"^(?:private\s+)?theorem\s+([A-Za-z0-9_.']+)", ln)
        if m: out.append({"name": f"{ns}.{m.group(1)}", "line": i})
    for k, t in enumerate(out):
        t["end"] = out[k + 1]["line"] - 1 if k + 1 < len(out) else len(lines)
    return out

def grep_forbidden():
    hits = []
    for root, _, files in os.walk(os.path.join(LEAN, "TartModel")):
        for f in files:
            if not f.endswith(".lean"): continue
            p = os.path.join(root, f)
            in_block = False
            for i, ln in enumerate(open(p), 1):
                s = ln
                if in_block:
                    if "-/" in s: in_block = False; s = s.split("-/", 1)[1]
                    else: continue
                if "/-" in s and "-/" not in s.split("/-", 1)[1]:
                    in_block = True; s = s.split("/-", 1)[0]
                s = re.sub(r"/-.*?-/", "", s)
                s = s.split("--", 1)[0]
                if FORBIDDEN.search(s): hits.append(f"{os.path.relpath(p, LEAN)}:{i}: {ln.strip()}")
    return hits

def regenerate():
    rc, out = sh([sys.executable, os.path.join(HERE, "py2lean.py"), REPO, GEN])
    try:
        rep = json.loads(out.strip().split("\n")[-1])
    except Exception:
        rep = {"functions": {}, "untranslatable": [["py2lean", out[-400:]]], "changed": True}
    golden = os.path.join(LEAN, "Generated.golden")
    drift = []
    if os.path.isdir(golden):
        for f in os.listdir(golden):
            a = os.path.join(golden, f); b = os.path.join(GEN, f)
            if not os.path.exists(b) or open(a).read() != open(b).read(): drift.append(f)
    rep["drift_vs_golden"] = drift
    return rep

BOOST = 1     # exploration multiplier: raised when an anchored source of the property changed since the model was written

def scale(n):
    return int(n * BOOST)

def build(pid, thorough=False):
    """Returns dict: gen report, which targets built, failing theorems of Properties/<pid>, axioms."""
    global BOOST
    res = {"pid": pid}
    try:
        import anchors
        res["anchors_changed"] = anchors.changed(REPO, pid)
    except Exception as e:
        res["anchors_changed"] = [f"<anchors: {e}>"]
    BOOST = 3 if res["anchors_changed"] else 1
    with Lock(os.path.join(LEAN, ".build.lock")):
        res["gen"] = regenerate()
        t0 = time.time()
        rc_exe, out_exe = sh(["lake", "build", "tartmodel"], cwd=LEAN)
        res["driver_ok"] = rc_exe == 0
        res["driver_log"] = out_exe[-3000:] if rc_exe else ""
        mod = f"TartModel.Properties.{pid}"
        rc, out = sh(["lake", "build", mod], cwd=LEAN)
        res["golden_fallback"] = False
        golden = os.path.join(LEAN, "Generated.golden", "Scalars.lean")
        if (rc_exe != 0 or rc != 0) and os.path.exists(golden) and (res["gen"].get("drift_vs_golden") or res["gen"].get("untranslatable")):
            # The scalar code regenerated from the working tree differs from the text the proofs were written against and
            # does not carry them (or cannot be translated).  That alone says nothing about behaviour (a harmless rewrite does
            # it too): fall back to the kept copy of the last good translation as a HAND-KEPT model; on this run the tie to the
            # source is the correspondence check (model functions vs the real functions on the same inputs), which every
            # check that depends on the scalar model performs (C10: the whole boundary table + random values, enlarged).
            first_log = (out_exe if rc_exe else out)[-3000:]
            import shutil
            shutil.copy(golden, os.path.join(GEN, "Scalars.lean"))
            rc_exe, out_exe = sh(["lake", "build", "tartmodel"], cwd=LEAN)
            rc, out = sh(["lake", "build", mod], cwd=LEAN)
            res["driver_ok"] = rc_exe == 0
            res["driver_log"] = out_exe[-3000:] if rc_exe else ""
            res["golden_fallback"] = True
            res["regenerated_build_log"] = first_log
        res["proofs_ok"] = rc == 0
        res["build_log"] = out[-6000:] if rc else ""
        res["build_s"] = round(time.time() - t0, 1)
        thms = property_theorems(pid)
        failing = []
        if rc != 0:
            errs = [int(m.group(1)) for m in re.finditer(rf"Properties/{pid}\.lean:(\d+):\d+: error", out)]
            for t in thms:
                if any(t["line"] <= e <= t["end"] for e in errs): failing.append(t["name"])
            if not errs:   # a dependency failed: every theorem of this property is undischarged
                failing = [t["name"] for t in thms]
                dep = re.findall(r"error: (TartModel/\S+\.lean):(\d+)", out)
                res["failed_dependency"] = sorted(set(d[0] for d in dep))
        res["theorems"] = [t["name"] for t in thms]
        res["failing"] = failing
        # axiom audit
        axioms = {}
        bad_axioms = {}
        if rc == 0 and thms:
            audit = os.path.join(LEAN, f".audit_{pid}.lean")
            open(audit, "w").write(f"import {mod}\n" + "".join(f"#print axioms {t['name']}\n" for t in thms))
            rc2, out2 = sh(["lake", "env", "lean", audit], cwd=LEAN)
            os.remove(audit)
            for m in re.finditer(r"'([^']+)' depends on axioms: \[([^\]]*)\]", out2.replace("\n ", " ")):
                axs = [a.strip() for a in m.group(2).replace("\n", " ").split(",") if a.strip()]
                axioms[m.group(1)] = axs
                extra = [a for a in axs if a not in ALLOWED_AXIOMS]
                if extra: bad_axioms[m.group(1)] = extra
            for m in re.finditer(r"'([^']+)' does not depend on any axioms", out2):
                axioms[m.group(1)] = []
            missing = [t["name"] for t in thms if t["name"] not in axioms]
            if missing: bad_axioms["<not audited>"] = missing
        res["axioms"] = axioms
        res["bad_axioms"] = bad_axioms
        res["forbidden_tokens"] = grep_forbidden()
        if thorough and rc == 0:
            rc3, out3 = sh(["lake", "env", "leanchecker", mod], cwd=LEAN, timeout=1800)
            res["leanchecker"] = "ok" if rc3 == 0 else out3[-800:]
            if rc3 != 0: res["bad_axioms"]["<leanchecker>"] = [out3[-300:]]
    res["discharged"] = [t for t in res["theorems"] if t not in failing] if not res["bad_axioms"] and not res["forbidden_tokens"] else []
    res["sound"] = res["proofs_ok"] and not res["bad_axioms"] and not res["forbidden_tokens"] and (not res["gen"].get("untranslatable") or res["golden_fallback"])
    limit_memory()
    return res

def limit_memory():
    """From here on (the Lean build is over) the harness and the engine under test live in a bounded address space: a change
    that makes the engine allocate without end (a list extended with itself ...) then fails with MemoryError inside the
    request at hand - a reportable failure - instead of taking the machine down.  VERIF_MEM_LIMIT_GB overrides (0 = off)."""
    try:
        import resource
        gb = float(os.environ.get("VERIF_MEM_LIMIT_GB", "10"))
        if gb > 0:
            lim = int(gb * (1 << 30))
            soft, hard = resource.getrlimit(resource.RLIMIT_AS)
            if hard != resource.RLIM_INFINITY: lim = min(lim, hard)
            resource.setrlimit(resource.RLIMIT_AS, (lim, hard))
    except Exception:
        pass

# ---------------------------------------------------------------------------------------------
def load_known():
    p = os.path.join(VERIF, "known_findings.json")
    if not os.path.exists(p): return []
    return json.load(open(p)).get("findings", [])

def write_replay(pid, payload):
    os.makedirs(os.path.join(VERIF, "replays"), exist_ok=True)
    h = hashlib.sha256(json.dumps(payload, sort_keys=True, default=str).encode()).hexdigest()[:12]
    rel = f"replays/{pid}-{h}.json"
    json.dump(payload, open(os.path.join(VERIF, rel), "w"), indent=1, default=str)
    return rel

def write_evidence(pid, tier, seed, level, coverage, wall_s, violations, assumptions):
    os.makedirs(os.path.join(VERIF, "evidence"), exist_ok=True)
    ev = {"property_id": pid, "tier": tier, "seed": seed, "level": level, "coverage": coverage,
          "assumptions": assumptions, "wall_s": round(wall_s, 2), "violations": violations}
    json.dump(ev, open(os.path.join(VERIF, "evidence", f"{pid}.json"), "w"), indent=1, default=str)

class Verdict:
    """collects the outcome of one check run and prints the interface lines"""
    def __init__(self, pid, tier, seed):
        self.pid, self.tier, self.seed = pid, tier, seed
        self.t0 = time.time()
        try:
            import engine_runner
            engine_runner.WATCH.update(pid=pid, seed=seed, tier=tier if tier in ("quick", "thorough") else "quick")
        except Exception:
            pass
        self.violations = []      # replay paths
        self.known_lines = []
        self.notes = []
    def violation(self, payload, no_input=False):
        rel = write_replay(self.pid, payload)
        self.violations.append(rel)
        print(f"VIOLATION property={self.pid} replay={rel}" + (" no-failing-input-found" if no_input else ""), flush=True)
    def known(self, text):
        line = f"KNOWN-FINDING: property={self.pid} {text}"
        if line not in self.known_lines:
            self.known_lines.append(line); print(line, flush=True)
    def finish(self, level, coverage, assumptions):
        write_evidence(self.pid, self.tier, self.seed, level, coverage, time.time() - self.t0, len(self.violations), assumptions)
        # leave at once: interpreter finalisation of the engine's object graph (caches a changed tree may have added,
        # cyclic AST / context references, pending asyncio objects) has been seen to spin for minutes after the verdict
        sys.stdout.flush(); sys.stderr.flush()
        os._exit(1 if self.violations else 0)

def proof_coverage(b, extra):
    cov = {"obligations": len(b["theorems"]), "discharged": len(b["discharged"]),
           "checker_cmd": f"lake build TartModel.Properties.{b['pid']} && lake env lean <#print axioms audit>" + (" && lake env leanchecker" if "leanchecker" in b else ""),
           "trusted_base": TRUSTED_BASE,
           "theorems": b["theorems"], "undischarged": b["failing"], "axioms_used": sorted({a for v in b["axioms"].values() for a in v}),
           "generated_from_repo": b["gen"].get("functions", {}), "untranslatable": b["gen"].get("untranslatable", []),
           "drift_vs_golden": b["gen"].get("drift_vs_golden", []), "build_s": b.get("build_s"),
           "anchored_sources_changed_since_model": b.get("anchors_changed", []), "exploration_multiplier": BOOST,
           "scalar_model": ("kept copy of the last good translation (the regenerated code differs and does not carry the proofs): tied to the source by the correspondence run only"
                            if b.get("golden_fallback") else "regenerated from the working tree on this run")}
    if "leanchecker" in b: cov["leanchecker"] = b["leanchecker"]
    cov.update(extra)
    return cov
