import env, sys, json, random, traceback
from gen import SchemaGen, DocGen, print_sdl
import engine_runner as er
from model import Model
from pyval import same

def cmp_resp(real, mod):
    """returns list of difference descriptions"""
    diffs = []
    if not same(mod["data"], real["data"]): diffs.append("data")
    re_ = sorted(json.dumps([e["path"], e["locations"]]) for e in real["errors"])
    me = sorted(json.dumps([e["path"], sorted([l["line"], l["column"]] for l in e["locations"])]) for e in mod["errors"])
    if set(re_) != set(me): diffs.append("errors")
    rc = sorted(json.dumps([c["coord"], c["path"], c["parent"], c["args"]], sort_keys=True) for c in real["calls"])
    mc = sorted(json.dumps([c["coord"], c["path"], c["parent"], c["args"]], sort_keys=True) for c in mod["calls"])
    if rc != mc: diffs.append("calls")
    return diffs

import os
STATS = {"errs":0,"with_errors":0,"data_null":0,"calls":0}
BRIEF = os.environ.get("BRIEF")
async def main(seed, nschemas, ndocs, adv, fail, inv):
    rng = random.Random(seed)
    m = Model()
    nd = 0; tot = 0
    for si in range(nschemas):
        sg = SchemaGen(rng)
        renv = sg.gen_env(adv=adv, fail=fail)
        try:
            b = await er.build_engine(sg.model(), renv)
        except Exception as e:
            print("ENGINE BUILD FAILED", type(e).__name__, str(e)[:300]); print(print_sdl(sg.model())); continue
        for di in range(ndocs):
            dg = DocGen(sg, rng, op_kinds=("query", "mutation") if sg.mutation else ("query",))
            q, ops, opvars = dg.document(n_ops=rng.choice([1, 1, 1, 2]))
            k = rng.randrange(len(ops))
            opn = ops[k][1]
            variables, bad = dg.variables_for(opvars[k], invalid=inv)
            try:
                real = await er.run_request(b, q, opn, variables)
            except Exception as e:
                print("ENGINE RAISED", type(e).__name__, e); print(q); continue
            req = er.model_request(b, q, opn, variables, None, renv)
            mod = m.ask(req)
            tot += 1
            STATS["errs"] += len(real["errors"]); STATS["with_errors"] += bool(real["errors"]); STATS["data_null"] += real["data"] is None; STATS["calls"] += len(real["calls"])
            if "fail" in mod:
                print("MODEL FAIL", mod["fail"]); print(q); nd += 1; continue
            d = cmp_resp(real, mod)
            if d:
                nd += 1
                if nd <= int(sys.argv[7] if len(sys.argv) > 7 else 3):
                    print("=" * 80); print("DIFF", d, "seed", seed, "schema", si, "doc", di)
                    if not BRIEF:
                        print(print_sdl(sg.model())); print("env", json.dumps(renv)[:3000])
                    print(q); print("op", opn, "vars", json.dumps(variables))
                    print("REAL", json.dumps({k: real[k] for k in ("data", "errors")})[:3000])
                    print("MODEL", json.dumps({k: mod[k] for k in ("data", "errors")})[:3000])
                    if "calls" in d:
                        rc = set(json.dumps([c["coord"], c["path"], c["parent"], c["args"]], sort_keys=True) for c in real["calls"])
                        mc = set(json.dumps([c["coord"], c["path"], c["parent"], c["args"]], sort_keys=True) for c in mod["calls"])
                        print("ONLY REAL", [x[:400] for x in sorted(rc - mc)]); print("ONLY MODEL", [x[:400] for x in sorted(mc - rc)])
    print("total", tot, "diffs", nd, STATS)
    m.close()

if __name__ == "__main__":
    a = sys.argv
    er.run(main(int(a[1]), int(a[2]), int(a[3]), float(a[4]), float(a[5]), float(a[6])))
