"""C13 — directive hooks wrap their target exactly once, nested in declaration order."""
import env, sys, json, random, time, hashlib, itertools, collections, asyncio
import framework as fw
import engine_runner as er
from gen import N, L, NN, base, is_nn, unwrap_nn, tstr, vstr, venum, vlist, vobj, vvar, vnull, print_value
from model import Model

KINDS = {"in": "on_post_input_coercion", "arg": "on_argument_execution", "fld": "on_field_execution", "out": "on_pre_output_coercion"}
LOCATIONS = "SCALAR | ENUM | ENUM_VALUE | INPUT_OBJECT | INPUT_FIELD_DEFINITION | ARGUMENT_DEFINITION | FIELD_DEFINITION | OBJECT | INTERFACE | UNION | FIELD"

# ---- the tag universe (mirrors TartModel/Impl/Directives.lean) ---------------------------------
def render(v):
    if v is None: return "null"
    if isinstance(v, str): return '"' + v + '"'
    if isinstance(v, list): return "[" + "".join(render(x) + "," for x in v) + "]"
    if isinstance(v, dict): return "{" + "".join(k + ":" + render(x) + "," for k, x in v.items()) + "}"
    return "?" + repr(v)

def mark(v, m):
    if isinstance(v, str): return v + m
    if isinstance(v, dict):
        v = dict(v)
        if "marks" in v: v["marks"] = v["marks"] + m if isinstance(v["marks"], str) else v["marks"]
        else: v["marks"] = m
        return v
    return v

def to_dv(v):
    if isinstance(v, dict): return {"d": [[k, to_dv(x)] for k, x in v.items()]}
    if isinstance(v, list): return [to_dv(x) for x in v]
    return v
def from_dv(v):
    if isinstance(v, dict): return {k: from_dv(x) for k, x in v["d"]}
    if isinstance(v, list): return [from_dv(x) for x in v]
    return v

BAD_DARGS = []     # directive argument dictionaries in which the defaulted enum / input-object arguments are not their defaults
def _chk(name, da):
    if da.get("e") != "P" or da.get("o") != {"k": "Q", "j": "P"}: BAD_DARGS.append([name, repr(dict(da))[:200]])
    return da["t"]

def make_directive(name, hooks, marks):
    """a tagging directive: logs enter / exit with the rendering of what it received / got back, marks both
    directions when `marks`, calls the next stage exactly once"""
    def pre(k, t): return "(" + k + "." + name + "." + t
    def post(k, t): return ")" + k + "." + name + "." + t
    ns = {}
    if "in" in hooks:
        async def on_post_input_coercion(self, directive_args, next_directive, parent_node, value, ctx):
            t = _chk(name, directive_args); ctx["log"].append(["in", name, t, "enter", render(value)])
            r = await next_directive(parent_node, mark(value, pre("in", t)) if marks else value, ctx)
            ctx["log"].append(["in", name, t, "exit", render(r)])
            return mark(r, post("in", t)) if marks else r
        ns["on_post_input_coercion"] = on_post_input_coercion
    if "arg" in hooks:
        async def on_argument_execution(self, directive_args, next_directive, parent_node, argument_definition_node, argument_node, value, ctx):
            t = _chk(name, directive_args); ctx["log"].append(["arg", name, t, "enter", render(value)])
            r = await next_directive(parent_node, argument_definition_node, argument_node, mark(value, pre("arg", t)) if marks else value, ctx)
            ctx["log"].append(["arg", name, t, "exit", render(r)])
            return mark(r, post("arg", t)) if marks else r
        ns["on_argument_execution"] = on_argument_execution
    if "fld" in hooks:
        async def on_field_execution(self, directive_args, next_resolver, parent, args, ctx, info):
            t = _chk(name, directive_args); ctx["log"].append(["fld", name, t, "enter", render(args)])
            r = await next_resolver(parent, mark(args, pre("fld", t)) if marks else args, ctx, info)
            ctx["log"].append(["fld", name, t, "exit", render(r)])
            return mark(r, post("fld", t)) if marks else r
        ns["on_field_execution"] = on_field_execution
    if "out" in hooks:
        async def on_pre_output_coercion(self, directive_args, next_directive, value, ctx, info):
            t = _chk(name, directive_args); ctx["log"].append(["out", name, t, "enter", render(value)])
            r = await next_directive(mark(value, pre("out", t)) if marks else value, ctx, info)
            ctx["log"].append(["out", name, t, "exit", render(r)])
            return mark(r, post("out", t)) if marks else r
        ns["on_pre_output_coercion"] = on_pre_output_coercion
    # every other implementation INHERITS its hooks (from a base class, or half of them from a mixin): a hook is a hook
    # wherever in the class hierarchy it is defined
    import zlib
    style = zlib.crc32(name.encode()) % 3
    if style == 1:
        return type("Tagger_" + name, (type("TaggingHooks_" + name, (), ns),), {})()
    if style == 2 and len(ns) >= 2:
        ks = sorted(ns)
        mixin = type("HooksMixin_" + name, (), {k: ns[k] for k in ks[: len(ks) // 2]})
        return type("Tagger_" + name, (mixin,), {k: ns[k] for k in ks[len(ks) // 2:]})()
    return type("Tagger_" + name, (), ns)()

class IdScalar:
    def coerce_output(self, v): return v if isinstance(v, str) else str(v)
    def coerce_input(self, v):
        if not isinstance(v, str): raise TypeError("string expected")
        return v
    def parse_literal(self, ast):
        from tartiflette.constants import UNDEFINED_VALUE
        from tartiflette.language.ast import StringValueNode
        return ast.value if isinstance(ast, StringValueNode) else UNDEFINED_VALUE

# ---- decorated schema generator -------------------------------------------------------------
class DirGen:
    def __init__(self, rng):
        self.r = r = rng
        allk = ["in", "arg", "fld", "out"]
        self.impls = [{"name": "a", "hooks": allk, "marks": True}, {"name": "b", "hooks": allk, "marks": True},
                      {"name": "c", "hooks": sorted(r.sample(allk, r.randint(1, 3))), "marks": True},
                      {"name": "l", "hooks": allk, "marks": False}, {"name": "m", "hooks": sorted(r.sample(allk, r.randint(2, 4))), "marks": False}]
        marking, logonly = ["a", "b", "c", "l", "m"], ["l", "m"]
        def uses(names=marking, p=0.55, kmax=3):
            if r.random() > p: return []
            return [{"name": n, "tag": r.choice(["x", "y", "1", None])} for n in r.sample(names, r.randint(1, min(kmax, len(names))))]
        self.uses = uses
        def usesr(**kw):
            """uses in which one directive may be REPEATED with another tag (a use is a use: each instance runs with its own
            arguments, in its own place) - on fields, arguments, input fields and enum values (a type extension may not
            repeat a directive of its type, so type-level lists stay repetition-free)"""
            us = uses(**kw)
            if us and r.random() < 0.25:
                us = us + [{"name": us[0]["name"], "tag": r.choice([t for t in ["x", "y", "1", "r"] if t != us[0]["tag"]])}]
            return us
        self.ins = [{"kind": "scalar", "name": "String", "dirs": []},
                    {"kind": "scalar", "name": "S1", "dirs": uses(p=0.8)}, {"kind": "scalar", "name": "S2", "dirs": uses()},
                    {"kind": "enum", "name": "E1", "dirs": uses(logonly, p=0.7), "values": [{"name": v, "dirs": usesr(p=0.5)} for v in ("A", "B", "C")]}]
        leaf = ["String", "S1", "S2", "E1"]
        def in_type(names):
            t = N(r.choice(names))
            k = r.random()
            if k < 0.25: t = L(t)
            elif k < 0.35: t = L(NN(t))
            elif k < 0.4: t = L(L(t))
            if r.random() < 0.15: t = NN(t)
            return t
        self.in_type = in_type
        def in_fields(names, n):
            fs = []
            for fn in r.sample(["p", "q", "s", "u", "v", "w"], n):
                ty = in_type(names)
                d = None
                if r.random() < 0.35 and not is_nn(ty): d = self.const_literal(ty, in2=None)
                fs.append({"name": fn, "type": ty, "default": d, "dirs": usesr(p=0.5)})
            return fs
        self.in2 = {"kind": "input", "name": "In2", "dirs": uses(p=0.7), "fields": in_fields(leaf, r.randint(1, 3))}
        self.ins.append(self.in2)
        self.in1 = {"kind": "input", "name": "In1", "dirs": uses(p=0.7), "fields": in_fields(leaf + ["In2", "In2"], r.randint(2, 4))}
        self.ins.append(self.in1)
        def args(n):
            out = []
            for an in r.sample(["x", "y", "z", "k"], n):
                ty = in_type(leaf + ["In1", "In2"])
                d = None
                if r.random() < 0.3 and not is_nn(ty): d = self.const_literal(ty)
                out.append({"name": an, "type": ty, "default": d, "dirs": usesr(p=0.6)})
            return out
        o2 = {"name": "O2", "dirs": uses(p=0.6), "fields": [
            {"name": "marks", "args": [], "type": N("String"), "dirs": [], "res": {"k": "parentKey"}},
            {"name": "label", "args": [], "type": N(r.choice(["String", "S1"])), "dirs": usesr(p=0.5), "res": {"k": "parentKey"}},
            {"name": "kind", "args": [], "type": N("E1"), "dirs": uses(logonly, p=0.4), "res": {"k": "parentKey"}}]}
        o2v = lambda: {"d": [["label", r.choice(["l1", "l2"])], ["kind", r.choice(["A", "B", "C", None])]]}
        # an interface implemented by O2 and O3: abstract-type hooks run before the runtime type's hooks
        o3 = {"name": "O3", "dirs": uses(p=0.6), "interfaces": ["I1"], "fields": [
            {"name": "marks", "args": [], "type": N("String"), "dirs": [], "res": {"k": "parentKey"}},
            {"name": "label", "args": [], "type": N("S1"), "dirs": usesr(p=0.5), "res": {"k": "parentKey"}}]}
        o2["interfaces"] = ["I1"]
        o2["fields"][1]["type"] = N("S1")
        self.abstracts = [{"name": "I1", "dirs": uses(p=0.8), "fields": [("marks", "String"), ("label", "S1")]},
                          # a union of the same two objects: its own hooks run before the runtime type's, as for the interface
                          {"name": "U1", "dirs": uses(p=0.8), "fields": [("marks", "String"), ("label", "S1")], "members": ["O2", "O3"]}]
        i1v = lambda: r.choice([None, {"d": [["_typename", "O2"], ["label", "il"], ["kind", "A"]]}, {"d": [["_typename", "O3"], ["label", "jl"]]}])
        o1 = {"name": "O1", "dirs": uses(p=0.6), "fields": [
            {"name": "argsSeen", "args": [], "type": N("String"), "dirs": [], "res": {"k": "parentKey"}},
            {"name": "marks", "args": [], "type": N("String"), "dirs": [], "res": {"k": "parentKey"}},
            {"name": "name", "args": [], "type": N("S1"), "dirs": usesr(p=0.5), "res": {"k": "parentKey"}},
            {"name": "kinds", "args": [], "type": L(N("E1")), "dirs": uses(logonly, p=0.4), "res": {"k": "parentKey"}},
            {"name": "child", "args": [], "type": N("O2"), "dirs": usesr(p=0.5), "res": {"k": "parentKey"}},
            {"name": "children", "args": [], "type": L(N("O2")), "dirs": uses(p=0.3), "res": {"k": "parentKey"}},
            {"name": "iface", "args": [], "type": N("I1"), "dirs": uses(p=0.4), "res": {"k": "parentKey"}},
            {"name": "uni", "args": [], "type": N("U1"), "dirs": uses(p=0.4), "res": {"k": "parentKey"}},
            {"name": "echo", "args": args(r.randint(1, 2)), "type": N(r.choice(["String", "S2"])), "dirs": usesr(p=0.5), "res": {"k": "renderArgs"}}]}
        def o1v():
            return {"d": [["name", r.choice(["n1", "n2", None])], ["kinds", r.choice([["A", "B"], [], None, ["C", None]])],
                          ["child", r.choice([o2v(), None])], ["children", [o2v() for _ in range(r.randint(0, 2))]], ["iface", i1v()], ["uni", i1v()]]}
        qf = []
        for k in range(r.randint(2, 4)):
            qf.append({"name": f"f{k}", "args": args(r.randint(1, 3)), "type": N(r.choice(["String", "S1", "S2"])), "dirs": uses(p=0.6), "res": {"k": "renderArgs"}})
        qf.append({"name": "obj", "args": args(r.randint(0, 2)), "type": N("O1"), "dirs": uses(p=0.6), "res": {"k": "objWithArgs", "v": o1v()}})
        qf.append({"name": "objs", "args": [], "type": L(N("O1")), "dirs": usesr(p=0.5), "res": {"k": "const", "v": [o1v() for _ in range(r.randint(1, 3))] + ([None] if r.random() < 0.3 else [])}})
        qf.append({"name": "e", "args": [], "type": N("E1"), "dirs": uses(logonly, p=0.5), "res": {"k": "const", "v": r.choice(["A", "B", "C", None])}})
        qf.append({"name": "es", "args": [], "type": L(N("E1")), "dirs": uses(logonly, p=0.5), "res": {"k": "const", "v": [r.choice(["A", "B", "C"]) for _ in range(r.randint(0, 3))]}})
        qf.append({"name": "s", "args": [], "type": N("S1"), "dirs": usesr(p=0.5), "res": {"k": "const", "v": r.choice(["plain", None])}})
        qf.append({"name": "ifaces", "args": [], "type": L(N("I1")), "dirs": usesr(p=0.5), "res": {"k": "const", "v": [i1v() for _ in range(r.randint(1, 3))]}})
        qf.append({"name": "unis", "args": [], "type": L(N("U1")), "dirs": usesr(p=0.5), "res": {"k": "const", "v": [i1v() for _ in range(r.randint(1, 3))]}})
        self.objs = [{"name": "Query", "dirs": [], "fields": qf}, o1, o2, o3]

    def tdef(self, n):
        for t in self.ins:
            if t["name"] == n: return t

    def const_literal(self, ty, in2=True, depth=0):
        r = self.r
        if is_nn(ty):
            v = self.const_literal(ty["nn"], in2, depth)
            while v["kind"] == "NullValue": v = self.const_literal(ty["nn"], in2, depth)
            return v
        if r.random() < 0.08: return vnull()
        if "l" in ty:
            if r.random() < 0.15: return self.const_literal(ty["l"], in2, depth)     # single value coerced to a list
            return vlist([self.const_literal(ty["l"], in2, depth + 1) for _ in range(r.randint(0, 2))])
        b = ty["n"]
        if b in ("String", "S1", "S2"): return vstr(r.choice(["v", "w", "é"]))
        if b == "E1": return venum(r.choice(["A", "B", "C"]))
        td = self.tdef(b)
        kvs = []
        for f in td["fields"]:
            if is_nn(f["type"]) or r.random() < 0.6:
                kvs.append((f["name"], self.const_literal(f["type"], in2, depth + 1)))
        return vobj(kvs)

    def model(self):
        def U(us): return [{"name": u["name"], "tag": u["tag"] if u["tag"] is not None else "d"} for u in us]
        def F(f): return {"name": f["name"], "type": f["type"], "default": f["default"], "dirs": U(f["dirs"])}
        ins = []
        for t in self.ins:
            if t["kind"] == "scalar": ins.append({"kind": "scalar", "name": t["name"], "dirs": U(t["dirs"])})
            elif t["kind"] == "enum": ins.append({"kind": "enum", "name": t["name"], "dirs": U(t["dirs"]), "values": [{"name": v["name"], "dirs": U(v["dirs"])} for v in t["values"]]})
            else: ins.append({"kind": "input", "name": t["name"], "dirs": U(t["dirs"]), "fields": [F(f) for f in t["fields"]]})
        objs = [{"name": o["name"], "dirs": U(o["dirs"]), "fields": [{"name": f["name"], "args": [F(a) for a in f["args"]], "type": f["type"], "dirs": U(f["dirs"]), "res": f["res"]} for f in o["fields"]]} for o in self.objs]
        return {"ins": ins, "objs": objs, "impls": self.impls, "query": "Query", "abstracts": [{"name": a["name"], "dirs": U(a["dirs"])} for a in self.abstracts]}

    def sdl(self):
        def D(us): return "".join(" @" + u["name"] + (f'(t: "{u["tag"]}")' if u["tag"] is not None else "") for u in us)
        # arguments of enum / input-object type with schema defaults, never supplied by a use: every hook must see the defaults
        out = ["enum DE { P Q }", "input DIn { k: DE = Q, j: DE! }"]
        out += [f'directive @{i["name"]}(t: String = "d", e: DE = P, o: DIn = {{j: P}}) on {LOCATIONS}' for i in self.impls]
        ext = []
        def DX(kw, name, us):
            """directives of a type: all on the definition, or (deterministically) the last ones through `extend` - same order"""
            import zlib
            if len(us) >= 2 and zlib.crc32((name + str(len(us))).encode()) % 2 == 0:
                k = 1 + zlib.crc32(name.encode()) % (len(us) - 1)
                if len(us) - k >= 2 and zlib.crc32(("x" + name).encode()) % 2 == 0:
                    ext.append(f"extend {kw} {name}{D(us[k:k+1])}"); ext.append(f"extend {kw} {name}{D(us[k+1:])}")
                else: ext.append(f"extend {kw} {name}{D(us[k:])}")
                return D(us[:k])
            return D(us)
        for t in self.ins:
            if t["name"] == "String": continue
            if t["kind"] == "scalar": out.append(f"scalar {t['name']}{DX('scalar', t['name'], t['dirs'])}")
            elif t["kind"] == "enum": out.append(f"enum {t['name']}{DX('enum', t['name'], t['dirs'])} {{ " + " ".join(v["name"] + D(v["dirs"]) for v in t["values"]) + " }")
            else:
                out.append(f"input {t['name']}{DX('input', t['name'], t['dirs'])} {{\n" + "\n".join(f"  {f['name']}: {tstr(f['type'])}" + (" = " + print_value(f["default"]) if f["default"] else "") + D(f["dirs"]) for f in t["fields"]) + "\n}")
        for o in self.objs:
            lines = []
            for f in o["fields"]:
                a = ""
                if f["args"]:
                    a = "(" + ", ".join(f"{x['name']}: {tstr(x['type'])}" + (" = " + print_value(x["default"]) if x["default"] else "") + D(x["dirs"]) for x in f["args"]) + ")"
                lines.append(f"  {f['name']}{a}: {tstr(f['type'])}{D(f['dirs'])}")
            impl = (" implements " + " & ".join(o["interfaces"])) if o.get("interfaces") else ""
            out.append(f"type {o['name']}{impl}{DX('type', o['name'], o['dirs'])} {{\n" + "\n".join(lines) + "\n}")
        for a in self.abstracts:
            if a.get("members"):
                out.append(f"union {a['name']}{DX('union', a['name'], a['dirs'])} = " + " | ".join(a["members"])); continue
            out.append(f"interface {a['name']}{DX('interface', a['name'], a['dirs'])} {{\n" + "\n".join(f"  {fn}: {ft}" for fn, ft in a["fields"]) + "\n}")
        return "\n".join(out + ext)

# ---- requests ---------------------------------------------------------------------------------
class ReqGen:
    def __init__(self, g, rng):
        self.g, self.r = g, rng
        self.vardefs = []       # {"name","type","default"}
        self.values = {}
        self.nvar = 0

    def json_value(self, ty, depth=0):
        """a valid JSON value for input type ty"""
        r = self.r
        if is_nn(ty):
            v = None
            while v is None: v = self.json_value(ty["nn"], depth)
            return v
        if r.random() < 0.1: return None
        if "l" in ty:
            if r.random() < 0.12:
                return self.json_value(ty["l"], depth) if "l" not in unwrap_nn(ty["l"]) or True else None
            return [self.json_value(ty["l"], depth + 1) for _ in range(r.randint(0, 2))]
        b = ty["n"]
        if b in ("String", "S1", "S2"): return r.choice(["jv", "jw", "jv", ""])       # (the empty string is a value like any other)
        if b == "E1": return r.choice(["A", "B", "C"])
        td = self.g.tdef(b)
        return {f["name"]: self.json_value(f["type"], depth + 1) for f in td["fields"] if is_nn(f["type"]) or r.random() < 0.6}

    def new_var(self, ty, provide=True):
        self.nvar += 1
        name = f"v{self.nvar}"
        d = None
        if not is_nn(ty) and self.r.random() < 0.15: d = self.g.const_literal(ty)
        self.vardefs.append({"name": name, "type": ty, "default": d})
        if is_nn(ty) or (provide and self.r.random() < (0.5 if d else 0.93)): self.values[name] = self.json_value(ty)
        return name

    def literal(self, ty, depth=0, novar=False):
        """literal for position type ty, possibly with variables inside"""
        r = self.r
        if novar is False and r.random() < (0.3 if depth == 0 else 0.2): return vvar(self.new_var(ty))
        if is_nn(ty):
            v = self.literal(ty["nn"], depth, novar=True)
            return v if v["kind"] != "NullValue" else self.literal(ty, depth, novar=True)
        if r.random() < 0.07: return vnull()
        if "l" in ty:
            if r.random() < 0.12:
                return self.literal(ty["l"], depth + 1, novar=True)
            return vlist([self.literal(ty["l"], depth + 1) for _ in range(r.randint(0, 3))])
        b = ty["n"]
        if b in ("String", "S1", "S2"): return vstr(r.choice(["lit", "lot"]))
        if b == "E1": return venum(r.choice(["A", "B", "C"]))
        td = self.g.tdef(b)
        return vobj([(f["name"], self.literal(f["type"], depth + 1)) for f in td["fields"] if is_nn(f["type"]) or r.random() < 0.6])

    def quses(self, names=("a", "b", "c", "l", "m"), avoid=()):
        r = self.r
        if r.random() > 0.5: return []
        out = []
        names = [n for n in names if n not in avoid]
        if not names: return []
        for n in r.sample(names, r.randint(1, min(3, len(names)))):
            k = r.random()
            if k < 0.3: tag = None
            elif k < 0.7: tag = vstr(r.choice(["q", "r"]))
            else:
                self.nvar += 1; vn = f"t{self.nvar}"
                self.vardefs.append({"name": vn, "type": N("String"), "default": None})
                self.values[vn] = r.choice(["tv", "tw"])
                tag = vvar(vn)
            out.append({"name": n, "tag": tag})
        return out

    def field(self, od, f, depth):
        r = self.r
        args = []
        for a in f["args"]:
            if is_nn(a["type"]) and not a["default"] or r.random() < 0.7:
                args.append([a["name"], self.literal(a["type"])])
        return {"key": f["name"], "name": f["name"], "args": args, "dirs": self.quses(self.qnames(f)), "sub": self.sub_for(f, depth), **self.uni(f)}

    def uni(self, f):
        ab = next((a for a in self.g.abstracts if a["name"] == base(f["type"])), None)
        return {"members": ab["members"]} if ab and ab.get("members") else {}

    def sub_for(self, f, depth):
        b = base(f["type"])
        tgt = next((o for o in self.g.objs if o["name"] == b), None)
        if tgt: return self.selections(tgt, depth + 1)
        ab = next((a for a in self.g.abstracts if a["name"] == b), None)
        if ab:
            o3 = next(o for o in self.g.objs if o["name"] == "O3")
            return self.selections({"fields": [x for x in o3["fields"] if x["name"] in [n for n, _ in ab["fields"]]]}, depth + 1)
        return []

    def qnames(self, f):
        # a marked enum name is no enum value any more: enum-typed fields only get log-only field directives
        return ("l", "m") if base(f["type"]) == "E1" else ("a", "b", "c", "l", "m")

    def selections(self, od, depth=0):
        r = self.r
        fs = r.sample(od["fields"], r.randint(1, min(4, len(od["fields"]))))
        out = [self.field(od, f, depth) for f in fs]
        # the same response key again, with other directives and another sub-selection (merged field nodes)
        if r.random() < 0.3:
            s = r.choice(out)
            f = next(x for x in od["fields"] if x["name"] == s["name"])
            share = bool(s["sub"]) and not s.get("frag") and not s.get("members") and r.random() < 0.5
            again = {"key": s["key"], "name": s["name"], "args": s["args"], "dirs": self.quses(self.qnames(f), avoid=[u["name"] for u in s["dirs"]]),
                     "sub": [] if share else self.sub_for(f, depth), **self.uni(f)}
            if share:
                # both occurrences spread the SAME named fragment: it is collected once for the merged field, so the fields
                # inside it (and their query-side directives) count once
                self.nfrag = getattr(self, "nfrag", 0) + 1
                fname = f"Fz{self.nfrag}"
                self.frag_defs = getattr(self, "frag_defs", [])
                self.frag_defs.append((fname, base(f["type"]), s["sub"]))
                s["frag"] = fname; again["frag"] = fname; again["sub"] = []
            out.append(again)
        return out

    def text(self, sels):
        def D(us): return "".join(" @" + u["name"] + (f"(t: {print_value(u['tag'])})" if u["tag"] is not None else "") for u in us)
        def S(sel):
            a = ("(" + ", ".join(f"{k}: {print_value(v)}" for k, v in sel["args"]) + ")") if sel["args"] else ""
            sub = (" { " + " ".join(S(x) for x in sel["sub"]) + " }") if sel["sub"] else ""
            # a union has no fields of its own: the same selection once per member type (one of them applies at run time)
            if sel["sub"] and sel.get("members"): sub = " { " + " ".join(f"... on {mt}{sub}" for mt in sel["members"]) + " }"
            if sel.get("frag"): sub = " { ..." + sel["frag"] + " }"
            return f"{sel['name']}{a}{D(sel['dirs'])}{sub}"
        vd = ""
        if self.vardefs:
            vd = "(" + ", ".join(f"${v['name']}: {tstr(v['type'])}" + (" = " + print_value(v["default"]) if v["default"] else "") for v in self.vardefs) + ")"
        body = f"query Q{vd} {{ " + " ".join(S(x) for x in sels) + " }"
        for fname, ftype, fsub in getattr(self, "frag_defs", []):
            body += f"\nfragment {fname} on {ftype} {{ " + " ".join(S(x) for x in fsub) + " }"
        return body

_uid = itertools.count()
async def build(g, seed):
    from tartiflette import create_engine, Resolver, Scalar, Directive
    name = f"c13_{seed}_{next(_uid)}"
    for s in ("S1", "S2"): Scalar(s, schema_name=name)(IdScalar())
    for i in g.impls: Directive(i["name"], schema_name=name)(make_directive(i["name"], i["hooks"], i["marks"]))
    for o in g.objs:
        for f in o["fields"]:
            k = f["res"]["k"]
            if k == "parentKey": continue
            def mk(f=f, k=k):
                async def resolver(parent, args, ctx, info):
                    ctx["calls"].append([f["name"], render(args)])
                    if k == "renderArgs": return render(args)
                    if k == "const": return from_dv(f["res"]["v"])
                    d = {"argsSeen": render(args)}; d.update(from_dv(f["res"]["v"])); return d
                return resolver
            Resolver(f"{o['name']}.{f['name']}", schema_name=name)(mk())
    return await create_engine(g.sdl(), schema_name=name)

_fp = itertools.count() if "itertools" in globals() else None
async def falsy_hook_probe(seed):
    """engine-only scenario (outside the model's tagging universe): output hooks whose result is FALSY ("" / 0 / False / []):
    the next stage - here the scalar's own coercion - must see that result, as it sees any other"""
    import itertools as _it
    from tartiflette import create_engine, Resolver, Scalar, Directive
    global _fp
    if _fp is None: _fp = _it.count()
    name = f"c13fp_{seed}_{next(_fp)}"
    seen = []
    def D(dname, result):
        class Impl:
            async def on_pre_output_coercion(self, directive_args, next_directive, value, ctx, info):
                r = await next_directive(value, ctx, info)
                seen.append([dname, repr(r)])
                return result if result != "same" else r
        return Impl()
    for dn, res in (("blank", ""), ("zero", 0), ("off", False), ("keep", "same")):
        Directive(dn, schema_name=name)(D(dn, res))
    for sn in ("Sb", "Sz", "Sf"):
        Scalar(sn, schema_name=name)(er.CustomScalar())
    sdl = """directive @blank on SCALAR
directive @zero on SCALAR
directive @off on SCALAR
directive @keep on SCALAR
scalar Sb @keep @blank
scalar Sz @zero @keep
scalar Sf @off
type Query { s: Sb sl: [Sb!] z: Sz f: Sf! }"""
    for fn, val in (("s", "secret"), ("sl", ["one", "two"]), ("z", 41), ("f", True)):
        def mk(val=val):
            async def r(parent, args, ctx, info): return val
            return r
        Resolver(f"Query.{fn}", schema_name=name)(mk())
    # ... and hooks that REPLACE a null: the type-level output hooks govern every value completed for their type, a null
    # under a non-null wrapper included (`Impl/Directives.lean` `complete`: the non-null check comes after the inner
    # completion, theorem `nonNull_check_after_type_hooks`); each such hook runs exactly once per value
    nulls_seen = []
    class Fill:
        async def on_pre_output_coercion(self, directive_args, next_directive, value, ctx, info):
            nulls_seen.append(repr(value))
            r = await next_directive(value, ctx, info)
            return "filled" if r is None else r
    Directive("fill", schema_name=name)(Fill())
    for sn in ("Sn",):
        Scalar(sn, schema_name=name)(er.CustomScalar())
    sdl += """
directive @fill on SCALAR | ENUM | OBJECT
scalar Sn @fill
enum En @fill { filled other }
type On @fill { v: Sn! }
extend type Query { n: Sn! nl: [Sn!] nn: Sn en: En! o: On! ol: [On!]! }"""
    for fn, val in (("n", None), ("nl", ["a", None]), ("nn", None), ("en", None), ("o", {"v": None}), ("ol", [{"v": "x"}, {"v": None}])):
        def mk(val=val):
            async def r(parent, args, ctx, info): return val
            return r
        Resolver(f"Query.{fn}", schema_name=name)(mk())
    eng = await create_engine(sdl, schema_name=name)
    resp = await eng.execute("{ s sl z f }")
    exp = {"s": "", "sl": ["", ""], "z": 0, "f": False}
    if resp.get("errors") or resp.get("data") != exp:
        return {"what": [f"output hooks returning a falsy result: the scalar's coercion did not receive the hook's result (answer {json.dumps(resp, default=str)[:300]}, expected data {json.dumps(exp)})"],
                "query": "{ s sl z f }", "sdl": sdl, "hook_results_seen": seen[:12]}
    q2 = "{ n nl nn en o { v } ol { v } }"
    resp = await eng.execute(q2)
    exp = {"n": "filled", "nl": ["a", "filled"], "nn": "filled", "en": "filled", "o": {"v": "filled"}, "ol": [{"v": "x"}, {"v": "filled"}]}
    # invocations: n, nl x2, nn, en, o (object) + o.v, ol x2 (objects) + 2 x v  = 11, of which 6 see null
    if resp.get("errors") or resp.get("data") != exp or len(nulls_seen) != 11 or nulls_seen.count("None") != 6:
        return {"what": [f"type-level output hooks and null results: every value completed for a hooked type - a null below a non-null wrapper included - goes through the type's output hooks exactly once, and the next stage sees what they return (answer {json.dumps(resp, default=str)[:400]}, expected data {json.dumps(exp)}; the hooks saw {len(nulls_seen)} values, {nulls_seen.count('None')} of them null, expected 11 and 6)"],
                "query": q2, "sdl": sdl, "hook_values_seen": nulls_seen[:20]}
    return None

async def explore(tier, seed, m):
    rng = random.Random(seed * 131 + 13)
    st = {"evaluations": 0, "nontrivial": set(), "problems": [], "disagreements": [], "unsupported": 0, "hook_calls": collections.Counter(), "max_nesting": 0,
          "samples": [], "with_variables": 0, "merged_nodes": 0, "engine_errors": 0}
    nschemas, nreq = (fw.scale(30), 80) if tier == "quick" else (fw.scale(300), 150)
    t0 = time.time()
    for si in range(nschemas):
        if time.time() - t0 > (100 if tier == "quick" else 1500): break
        g = DirGen(rng)
        try:
            engine = await build(g, seed)
        except Exception as ex:
            st["problems"].append({"what": [f"decorated schema refused: {type(ex).__name__}: {ex}"[:300]], "sdl": g.sdl()}); continue
        model = g.model()
        if si == 0:
            fp = await falsy_hook_probe(seed)
            if fp: st["problems"].append(fp)
            st["evaluations"] += 1
        again = None
        for ri in range(nreq):
            if again is not None:
                # the same document once more with other values for the directives' tag variables and the
                # other variables: every hook must get THIS request's coerced directive arguments
                rg, sels, q = again; again = None
                rg.values = {k: ((v + "2") if k.startswith("t") else rg.json_value(next(d["type"] for d in rg.vardefs if d["name"] == k)) if rng.random() < 0.5 else v) for k, v in rg.values.items()}
                st["repeated_documents"] = st.get("repeated_documents", 0) + 1
            else:
                rg = ReqGen(g, rng)
                sels = rg.selections(g.objs[0])
                q = rg.text(sels)
                if rg.values and rng.random() < 0.35: again = (rg, sels, q)
            ctx = {"log": [], "calls": []}
            try:
                with er.guard(query=q, variables=rg.values, sdl=g.sdl()):
                    resp = await engine.execute(q, variables=dict(rg.values), context=ctx)
            except Exception as ex:
                st["problems"].append({"what": [f"execute raised {type(ex).__name__}: {ex}"[:300]], "query": q, "variables": rg.values, "sdl": g.sdl()}); continue
            if BAD_DARGS:
                st["problems"].append({"what": [f"a hook of @{BAD_DARGS[0][0]} received directive arguments whose defaulted enum / input-object arguments are not the declared defaults: {BAD_DARGS[0][1]}"], "query": q, "variables": rg.values, "sdl": g.sdl()})
                BAD_DARGS.clear(); continue
            mod = m.ask({"op": "directives", "schema": model, "vardefs": rg.vardefs, "variables": to_dv(rg.values), "selections": sels})
            st["evaluations"] += 1
            if "fail" in mod:
                st["disagreements"].append({"what": ["model failed: " + str(mod["fail"])[:300]], "query": q}); continue
            if mod.get("unsupported"):
                st["unsupported"] += 1
                st.setdefault("unsupported_msgs", collections.Counter())[(resp.get("errors") or [{}])[0].get("message", "?")[:60]] += 1
                if not resp.get("errors"):
                    st["disagreements"].append({"what": ["model: outside the universe (a coercion error expected); engine answered without errors"], "query": q, "variables": rg.values, "sdl": g.sdl(), "response": resp})
                continue
            if resp.get("errors"): st["engine_errors"] += 1
            real_events = [list(e) for e in ctx["log"]]
            for e in real_events: st["hook_calls"][e[0]] += e[3] == "enter"
            pr = []
            # 1. values: data carries the marks of every hook in nesting order (non-commuting tags)
            if resp.get("errors") or to_dv(resp.get("data")) != mod["data"]:
                pr.append("data differs from the composition the property prescribes")
            # 2. exactly once: the multiset of hook invocations (kind, directive, coerced tag, phase, value seen)
            ca, cb = collections.Counter(map(tuple, real_events)), collections.Counter(map(tuple, mod["events"]))
            if ca != cb:
                extra = list((ca - cb).items())[:3]; missing = list((cb - ca).items())[:3]
                pr.append(f"hook invocations differ: unexpected {extra}, missing {missing}")
            h = hashlib.sha256((q + json.dumps(rg.values, sort_keys=True) + str(si)).encode()).hexdigest()[:16]
            nest = 0; cur = 0
            for e in real_events:
                cur += 1 if e[3] == "enter" else -1; nest = max(nest, cur)
            st["max_nesting"] = max(st["max_nesting"], nest)
            if len(real_events) >= 4: st["nontrivial"].add(h)
            if rg.values: st["with_variables"] += 1
            if pr:
                st["problems"].append({"what": pr, "query": q, "variables": rg.values, "sdl": g.sdl(), "impls": g.impls,
                                       "engine": {"data": resp.get("data"), "errors": resp.get("errors"), "events": real_events[:80]},
                                       "model": {"data": from_dv(mod["data"]), "events": mod["events"][:80]}})
            if len(st["samples"]) < 3 and nest >= 3 and ri % 5 == 0:
                st["samples"].append({"query": q, "variables": rg.values, "data": resp.get("data"), "hook_events": len(real_events), "deepest_nesting": nest})
    return st

if __name__ == "__main__":
    tier = sys.argv[1] if len(sys.argv) > 1 else "quick"
    seed = int(sys.argv[2]) if len(sys.argv) > 2 else 0
    v = fw.Verdict("C13", tier, seed)
    b = fw.build("C13", thorough=(tier == "thorough"))
    if not b["driver_ok"]:
        v.violation({"property": "C13", "what": "model driver does not build", "log": b["driver_log"][-1500:]}, no_input=True)
        sys.exit(v.finish("proof", fw.proof_coverage(b, {"evaluations": 0, "distinct_nontrivial": 0, "samples": [{"note": "driver failed"}]}), []))
    m = Model()
    st = er.run(explore(tier, seed, m))
    m.close()
    for p in st["problems"][:3]:
        v.violation({"property": "C13", "seed": seed, **p, "undischarged_theorems": b["failing"]})
    if not st["problems"] and (not b["sound"] or st["disagreements"]):
        v.violation({"property": "C13", "seed": seed, "what": "proof obligation or model/implementation correspondence broken; no mis-composed hook chain found",
                     "undischarged_theorems": b["failing"], "failed_dependency": b.get("failed_dependency"), "build_log_tail": b["build_log"][-1500:],
                     "first_disagreement": st["disagreements"][:1], "requests_checked": st["evaluations"]}, no_input=True)
    cov = fw.proof_coverage(b, {
        "evaluations": st["evaluations"], "distinct_nontrivial": len(st["nontrivial"]),
        "rule": "generated schemas decorated with 0-3 tagging directives (two marking all hooks, one marking a random subset of hooks, two log-only; tag argument literal or defaulted) on scalars, enums (log-only at type level), enum values, input objects, input fields, arguments, fields, object types, interfaces and unions (abstract-type hooks before the runtime type's hooks; union selections through one inline fragment per member); requests with arguments as literals, whole variables, variables nested in lists / input objects, omitted (SDL defaults), nulls, single values for lists; query-side field directives with literal / variable / defaulted tags; repeated response keys with different directives; compared with the Lean model: `data` (tags are non-commuting: nesting and stage order are visible) and the multiset of hook invocations (kind, directive, coerced tag, phase, value seen); non-trivial = at least two hook invocations",
        "hook_invocations_by_kind": dict(st["hook_calls"]), "deepest_hook_nesting": st["max_nesting"], "requests_with_variables": st["with_variables"],
        "outside_model_universe": st["unsupported"], "documents_repeated_with_other_variables": st.get("repeated_documents", 0), "requests_with_engine_errors": st["engine_errors"],
        "correspondence": {"disagreements": len(st["disagreements"])}, "problems": len(st["problems"]), "samples": st["samples"] or [{"note": "none"}]})
    sys.exit(v.finish("proof", cov, ["hooks are tagging hooks that call the next stage exactly once and never raise; union types (same coercer as the modelled interfaces), introspection, schema-level and collection hooks (on_schema_execution, on_field_collection, …) are not modelled: partial",
                                     "requests with coercion errors are outside the model (skipped)"]))
