"""Client for the compiled Lean model driver (line protocol)."""
import json, os, subprocess
from env import VERIF
EXE = os.path.join(VERIF, "lean", ".lake", "build", "bin", "tartmodel")

class Model:
    def __init__(self):
        self.p = subprocess.Popen([EXE], stdin=subprocess.PIPE, stdout=subprocess.PIPE, text=True, bufsize=1)
    def ask(self, req):
        self.p.stdin.write(json.dumps(req) + "\n"); self.p.stdin.flush()
        line = self.p.stdout.readline()
        if not line:
            raise RuntimeError("model driver died")
        return json.loads(line)
    def ask_many(self, reqs):
        # pipeline: write all then read all (driver flushes per line; avoid deadlock with a thread-free chunking)
        out = []
        CH = 200
        for i in range(0, len(reqs), CH):
            chunk = reqs[i:i+CH]
            self.p.stdin.write("".join(json.dumps(r) + "\n" for r in chunk)); self.p.stdin.flush()
            for _ in chunk:
                line = self.p.stdout.readline()
                if not line: raise RuntimeError("model driver died")
                out.append(json.loads(line))
        return out
    def close(self):
        try:
            self.p.stdin.close(); self.p.wait(timeout=5)
        except Exception:
            self.p.kill()
