"""markdown table of the seeded changes and the checks that report them (from seeded/*/meta.json)"""
import json, glob, os, re
rows = []
for f in sorted(glob.glob(os.path.join(os.path.dirname(__file__), "..", "seeded", "*", "meta.json"))):
    m = json.load(open(f)); sid = os.path.basename(os.path.dirname(f))
    kind = m.get("kind", "breaking")
    summ = re.sub(r"\s+", " ", m.get("summary", ""))
    summ = summ[:230] + ("…" if len(summ) > 230 else "")
    if "checks" in m: det = "; ".join(f"{c}: {v}" for c, v in m["checks"].items())
    else: det = f"{m.get('checks_run', '')}: {m.get('verdict', '')}" + (f" — {m['verdict_update']}" if m.get("verdict_update") else "")
    files = ", ".join(os.path.basename(x) for x in m.get("files", []))
    rows.append(f"| {sid} | {kind} | {files} | {summ} | {det} |")
print("| seeded change | kind | file(s) | what it changes | reported by |\n|---|---|---|---|---|\n" + "\n".join(rows))
