"""C11 — introspection describes exactly the schema that was supplied."""
import env, sys, json, random, time, hashlib, os, tempfile, shutil, copy, itertools
import framework as fw
import engine_runner as er
from gen import SchemaGen, print_args, print_value, tstr, value_to_json, BUILTIN_SCALARS, base
from model import Model

TYPE_FRAG = "kind name ofType { kind name ofType { kind name ofType { kind name ofType { kind name ofType { kind name } } } } }"
QUERY = """{ __schema { queryType { name } mutationType { name } subscriptionType { name }
  types { kind name
    all: fields(includeDeprecated: true) { name isDeprecated deprecationReason args { name defaultValue type { %(T)s } } type { %(T)s } }
    cur: fields { name }
    cur2: fields(includeDeprecated: false) { name }
    interfaces { name } possibleTypes { name }
    allv: enumValues(includeDeprecated: true) { name isDeprecated deprecationReason }
    curv: enumValues { name }
    inputFields { name defaultValue type { %(T)s } } }
  directives { name locations args { name defaultValue type { %(T)s } } } } }""" % {"T": TYPE_FRAG}

def conv_type(t):
    if t["kind"] == "NON_NULL": return {"nn": conv_type(t["ofType"])}
    if t["kind"] == "LIST": return {"l": conv_type(t["ofType"])}
    return {"n": t["name"]}

def parse_default(text):
    """GraphQL value text -> JSON value (via the parser substitute)"""
    if text is None: return ("absent",)
    try:
        doc = er.parse_doc("{ f(a: %s) }" % text)
        node = doc["definitions"][0]["selectionSet"]["selections"][0]["arguments"][0]["value"]
        return ("value", value_to_json(node))
    except Exception:
        return ("unparsable", text)

def has_tricky_string(v):
    if isinstance(v, str): return '"' in v or "\\" in v
    if isinstance(v, list): return any(has_tricky_string(x) for x in v)
    if isinstance(v, dict): return any(has_tricky_string(x) for x in v.values())
    return False

# ---- SDL-level model ---------------------------------------------------------------------------
def make_model(rng):
    sg = SchemaGen(rng, with_mutation=rng.random() < 0.5, with_subscription=rng.random() < 0.3, custom_scalar=rng.random() < 0.5)
    full = sg.model()
    defs, exts = [], []
    for t in full["types"]:
        k = t["kind"]
        if k == "scalar":
            if t["name"] not in BUILTIN_SCALARS: defs.append({"kind": "scalar", "name": t["name"]})
            continue
        if k == "enum":
            vals = [{"name": v, "deprecated": (rng.choice(["No longer supported", "use other", "", "see C:\\notes\\told you", "say \"no\" \\\"twice\\\""]) if rng.random() < 0.2 else None)} for v in t["values"]]
            cut = rng.randint(1, len(vals)) if rng.random() < 0.4 else len(vals)
            defs.append({"kind": "enum", "name": t["name"], "values": vals[:cut]})
            if cut < len(vals): exts.append({"kind": "enum", "name": t["name"], "values": vals[cut:]})
        elif k in ("object", "interface"):
            fields = []
            for f in t["fields"]:
                fields.append({"name": f["name"], "args": f["args"], "type": f["type"],
                               "deprecated": (rng.choice(["No longer supported", "old field", "", "moved to \\\\server\\new\\file", "tab\\there"]) if rng.random() < 0.15 else None),
                               "hidden": rng.random() < (0.5 if fields and fields[-1]["hidden"] else 0.08)})      # (runs of adjacent hidden fields)
            cut = rng.randint(1, len(fields)) if rng.random() < 0.4 else len(fields)
            d = {"kind": k, "name": t["name"], "fields": fields[:cut]}
            e = {"kind": k, "name": t["name"], "fields": fields[cut:]}
            if k == "object":
                ifs = list(t.get("interfaces") or [])
                # interface conformance must hold for the base definition alone only if the interface is declared there
                icut = rng.randint(0, len(ifs)) if (rng.random() < 0.3 and cut == len(fields)) else len(ifs)
                d["interfaces"] = ifs[:icut]; e["interfaces"] = ifs[icut:]
            defs.append(d)
            if e["fields"] or e.get("interfaces"):
                # split the extension itself in two sometimes
                if len(e["fields"]) >= 2 and rng.random() < 0.3:
                    h = len(e["fields"]) // 2
                    e2 = dict(e, fields=e["fields"][h:], interfaces=[]) if k == "object" else dict(e, fields=e["fields"][h:])
                    e["fields"] = e["fields"][:h]
                    exts += [e, e2]
                else: exts.append(e)
        elif k == "union":
            ms = t["members"]
            cut = rng.randint(1, len(ms)) if rng.random() < 0.4 else len(ms)
            defs.append({"kind": "union", "name": t["name"], "members": ms[:cut]})
            if cut < len(ms): exts.append({"kind": "union", "name": t["name"], "members": ms[cut:]})
        elif k == "input":
            fs = t["fields"]
            cut = rng.randint(1, len(fs)) if rng.random() < 0.4 else len(fs)
            defs.append({"kind": "input", "name": t["name"], "fields": fs[:cut]})
            if cut < len(fs): exts.append({"kind": "input", "name": t["name"], "fields": fs[cut:]})
    # explicit `= null` defaults (reported as the text "null", unlike "no default")
    for d_ in defs + exts:
        for f_ in d_.get("fields") or []:
            targets = (f_.get("args") or []) if d_["kind"] in ("object", "interface") else [f_]
            for a_ in targets:
                if not a_.get("default") and "nn" not in a_["type"] and rng.random() < 0.08: a_["default"] = {"kind": "NullValue"}
    directives = []
    if rng.random() < 0.6:
        directives.append({"name": "mark", "args": [{"name": "tag", "type": {"n": "String"}, "default": {"kind": "StringValue", "value": "d"}}], "locations": ["FIELD_DEFINITION", "OBJECT"]})
    # the same member NAME added by extension to two DIFFERENT types (each type keeps its own set of members)
    if rng.random() < 0.5:
        us = [d for d in defs if d["kind"] == "union"]
        objs_ = [d for d in defs if d["kind"] == "object"]
        if len(us) >= 2 and objs_:
            x = rng.choice(objs_)["name"]
            for u in us:
                have = u["members"] + [m_ for e in exts if e["kind"] == "union" and e["name"] == u["name"] for m_ in e["members"]]
                if x in u["members"] and len(u["members"]) >= 2:
                    u["members"].remove(x); exts.append({"kind": "union", "name": u["name"], "members": [x]})
                elif x not in have:
                    exts.append({"kind": "union", "name": u["name"], "members": [x]})
        if len(objs_) >= 2:
            for o in rng.sample(objs_, 2):
                exts.append({"kind": "object", "name": o["name"], "interfaces": [], "fields": [{"name": "sharedExt", "args": [], "type": {"n": "Int"}, "deprecated": None, "hidden": False}]})
        ins_ = [d for d in defs if d["kind"] == "input"]
        if len(ins_) >= 2:
            for o in rng.sample(ins_, 2):
                exts.append({"kind": "input", "name": o["name"], "fields": [{"name": "sharedExt", "type": {"n": "Int"}, "default": None}]})
    # extensions that ADD A DIRECTIVE to an object type (at most one per type; alone or together with new fields)
    if directives and rng.random() < 0.7:
        for o in rng.sample([d for d in defs if d["kind"] == "object"], min(2, len([d for d in defs if d["kind"] == "object"]))):
            mine = [e for e in exts if e["kind"] == "object" and e["name"] == o["name"]]
            if mine and rng.random() < 0.5: mine[0]["dir"] = ' @mark(tag: "e")'
            else: exts.append({"kind": "object", "name": o["name"], "interfaces": [], "fields": [], "dir": " @mark"})
    schema_ext = None
    if rng.random() < 0.4:
        # a directive-only `extend schema @stag` somewhere among the other definitions: nothing after it may be lost
        directives.append({"name": "stag", "args": [], "locations": ["SCHEMA"]}); schema_ext = "stag"
    rng.shuffle(exts)
    M = {"defs": defs, "exts": exts, "directives": directives, "schema_ext_directive": schema_ext, "query": full["query"], "mutation": full.get("mutation"), "subscription": full.get("subscription")}
    # names with ONE leading underscore are ordinary names (only `__` is reserved)
    if rng.random() < 0.3:
        cand_ = [d["name"] for d in M["defs"] if d["kind"] in ("object", "input", "enum", "union") and d["name"] not in (M["query"], M["mutation"], M["subscription"])]
        if cand_:
            old_ = rng.choice(cand_)
            js = json.dumps(M).replace(f'"{old_}"', f'"_{old_}"')
            M = json.loads(js)
    # renamed roots
    if rng.random() < 0.3:
        ren = {"Query": "RootQ"}
        if M["mutation"]: ren["Mutation"] = "RootM"
        js = json.dumps(M)
        for a, b in ren.items(): js = js.replace(f'"{a}"', f'"{b}"')
        M = json.loads(js)
    return M

def print_field(f):
    dep = ""
    if f.get("deprecated") is not None:
        dep = " @deprecated" if f["deprecated"] == "No longer supported" else f' @deprecated(reason: {json.dumps(f["deprecated"])})'
    hid = " @nonIntrospectable" if f.get("hidden") else ""
    return f"  {f['name']}{print_args(f['args'])}: {tstr(f['type'])}{dep}{hid}"

def print_def(d, ext=False):
    pre = "extend " if ext else ""
    k = d["kind"]
    if k == "scalar": return f"scalar {d['name']}"
    if k == "enum":
        vals = " ".join(v["name"] + ("" if v.get("deprecated") is None else (" @deprecated" if v["deprecated"] == "No longer supported" else f' @deprecated(reason: {json.dumps(v["deprecated"])})')) for v in d["values"])
        return f"{pre}enum {d['name']} {{ {vals} }}"
    if k in ("object", "interface"):
        kw = "type" if k == "object" else "interface"
        impl = (" implements " + " & ".join(d["interfaces"])) if d.get("interfaces") else ""
        body = (" {\n" + "\n".join(print_field(f) for f in d["fields"]) + "\n}") if d["fields"] else ""
        return f"{pre}{kw} {d['name']}{impl}{d.get('dir', '')}{body}"
    if k == "union": return f"{pre}union {d['name']} = " + " | ".join(d["members"])
    if k == "input":
        return f"{pre}input {d['name']} {{\n" + "\n".join(f"  {f['name']}: {tstr(f['type'])}" + (" = " + print_value(f["default"]) if f.get("default") else "") for f in d["fields"]) + "\n}"

def sdl_chunks(M):
    chunks = [print_def(d) for d in M["defs"]] + [print_def(e, True) for e in M["exts"]]
    for dd in M["directives"]:
        chunks.append(f"directive @{dd['name']}{print_args(dd['args'])} on " + " | ".join(dd["locations"]))
    if M.get("schema_ext_directive"): chunks.append(f"extend schema @{M['schema_ext_directive']}")
    if M["query"] != "Query" or (M["mutation"] and M["mutation"] != "Mutation"):
        chunks.append("schema { query: " + M["query"] + (f" mutation: {M['mutation']}" if M["mutation"] else "") + (f" subscription: {M['subscription']}" if M["subscription"] else "") + " }")
    return chunks

def supply(rng, chunks, tmp):
    """the four ways of supplying the SDL"""
    mode = rng.choice(["string", "file", "files", "directory"])
    rng.shuffle(chunks)
    if mode == "string": return mode, "\n".join(chunks)
    if mode == "file":
        p = os.path.join(tmp, "schema.sdl"); open(p, "w").write("\n".join(chunks)); return mode, p
    n = rng.randint(2, 4)
    parts = [[] for _ in range(n)]
    for c in chunks: parts[rng.randrange(n)].append(c)
    parts = [p for p in parts if p]
    if mode == "files":
        paths = []
        for i, p in enumerate(parts):
            fp = os.path.join(tmp, f"part{i}.sdl"); open(fp, "w").write("\n".join(p) + ("\n# end of part" if rng.random() < 0.5 else "")); paths.append(fp)
        return mode, paths
    d = os.path.join(tmp, "dir"); os.makedirs(os.path.join(d, "sub"), exist_ok=True)
    for i, p in enumerate(parts):
        # files end without a final newline, some of them with a comment line: concatenation must keep them apart
        fp = os.path.join(d, "sub" if i % 2 else "", f"part{i}." + ("sdl" if i % 2 == 0 else "graphql")); open(fp, "w").write("\n".join(p) + ("\n# end of part" if rng.random() < 0.5 else ""))
    return mode, d

_uid = itertools.count()
async def build(M, sdl, tag):
    from tartiflette import create_engine, Scalar, Directive
    name = f"c11_{tag}_{next(_uid)}"
    for d in M["defs"]:
        if d["kind"] == "scalar": Scalar(d["name"], schema_name=name)(er.CustomScalar())
    class Mark:
        async def on_field_execution(self, da, nxt, parent, args, ctx, info): return await nxt(parent, args, ctx, info)
    # a directive that is only DECLARED (no implementation registered) is described like any other, arguments included
    for dd in M["directives"]:
        if next(_uid) % 3 == 0 and dd["name"] == "mark": continue
        Directive(dd["name"], schema_name=name)(Mark())
    # the description may not depend on the engine's concurrency settings: every other engine is built with non-default ones
    k = next(_uid) % 4
    kw = [{}, {"coerce_parent_concurrently": False}, {"coerce_list_concurrently": False}, {"coerce_parent_concurrently": False, "coerce_list_concurrently": False}][k]
    return await create_engine(sdl, schema_name=name, **kw)

def compare(M, spec, named_spec, data):
    """problems between the engine's introspection `data` and the specification's description"""
    pr, known = [], []
    s = data["__schema"]
    def root(x): return x["name"] if x else None
    if root(s["queryType"]) != spec["query"] or root(s["mutationType"]) != spec["mutation"] or root(s["subscriptionType"]) != spec["subscription"]:
        pr.append(f"root operation types {root(s['queryType'])}/{root(s['mutationType'])}/{root(s['subscriptionType'])} != declared {spec['query']}/{spec['mutation']}/{spec['subscription']}")
    et = {t["name"]: t for t in s["types"]}
    st = {t["name"]: t for t in spec["types"]}
    if len(et) != len(s["types"]): pr.append("a type is listed twice")
    for n in st:
        if n not in et: pr.append(f"declared type {n} missing from __schema.types")
    for n in et:
        if n not in st: pr.append(f"type {n} listed but not declared")
    def cmp_default(where, spec_default, text):
        exp = ("absent",) if spec_default is None else ("value", value_to_json(spec_default))
        got = parse_default(text)
        if exp != got:
            if exp[0] == "value" and has_tricky_string(exp[1]): known.append("KF-C11-2")
            else: pr.append(f"{where}: defaultValue {text!r} does not denote the declared default {exp}")
    def cmp_args(where, sargs, eargs):
        sa = {a["name"]: a for a in sargs}; ea = {a["name"]: a for a in eargs}
        if set(sa) != set(ea): pr.append(f"{where}: arguments {sorted(ea)} != declared {sorted(sa)}"); return
        for n, a in sa.items():
            if conv_type(ea[n]["type"]) != a["type"]: pr.append(f"{where}.{n}: type {conv_type(ea[n]['type'])} != declared {a['type']}")
            cmp_default(f"{where}.{n}", a.get("default"), ea[n]["defaultValue"])
    for n, t in st.items():
        e = et.get(n)
        if not e: continue
        if e["kind"] != t["kind"]: pr.append(f"{n}: kind {e['kind']} != {t['kind']}")
        if (t["fields"] is None) != (e["all"] is None): pr.append(f"{n}: fields nullness"); continue
        if t["fields"] is not None:
            sf = {f["name"]: f for f in t["fields"]}; ef = {f["name"]: f for f in e["all"]}
            if set(sf) != set(ef): pr.append(f"{n}: fields {sorted(ef)} != declared visible fields {sorted(sf)}")
            for fn, f in sf.items():
                g = ef.get(fn)
                if not g: continue
                if conv_type(g["type"]) != f["type"]: pr.append(f"{n}.{fn}: type {conv_type(g['type'])} != declared {f['type']}")
                if g["isDeprecated"] != f["isDeprecated"] or (f["isDeprecated"] and g["deprecationReason"] != f["reason"]):
                    pr.append(f"{n}.{fn}: deprecation {g['isDeprecated']}/{g['deprecationReason']!r} != declared {f['isDeprecated']}/{f['reason']!r}")
                cmp_args(f"{n}.{fn}", f["args"], g["args"])
            nondep = sorted(fn for fn, f in sf.items() if not f["isDeprecated"])
            for variant in ("cur", "cur2"):
                if sorted(x["name"] for x in e[variant]) != nondep: pr.append(f"{n}: fields(includeDeprecated false/default) = {sorted(x['name'] for x in e[variant])} != non-deprecated {nondep}")
        for key, ek in (("interfaces", "interfaces"), ("possibleTypes", "possibleTypes")):
            sv = t[key]; ev = e[ek]
            if key == "interfaces" and t["kind"] == "OBJECT" and ev is None: ev = []
            if (sv is None) != (ev is None): pr.append(f"{n}: {key} nullness ({ev!r} vs {sv!r})")
            elif sv is not None and sorted(sv) != sorted(x["name"] for x in ev): pr.append(f"{n}: {key} {sorted(x['name'] for x in ev)} != declared {sorted(sv)}")
        if t["enumValues"] is not None:
            svv = {v["name"]: v for v in t["enumValues"]}; evv = {v["name"]: v for v in (e["allv"] or [])}
            if set(svv) != set(evv): pr.append(f"{n}: enum values {sorted(evv)} != declared {sorted(svv)}")
            for vn, v in svv.items():
                g = evv.get(vn)
                if g and (g["isDeprecated"] != (v["deprecated"] is not None) or (v["deprecated"] is not None and g["deprecationReason"] != v["deprecated"])): pr.append(f"{n}.{vn}: deprecation {g['isDeprecated']}/{g['deprecationReason']!r} != declared reason {v['deprecated']!r}")
            if sorted(x["name"] for x in (e["curv"] or [])) != sorted(vn for vn, v in svv.items() if v["deprecated"] is None): pr.append(f"{n}: enumValues default filter wrong")
        if t["inputFields"] is not None:
            cmp_args(n, t["inputFields"], e["inputFields"] or [])
    sd = {d["name"]: d for d in spec["directives"]}; ed = {d["name"]: d for d in s["directives"]}
    if set(sd) != set(ed): pr.append(f"directives {sorted(ed)} != declared + built-in {sorted(sd)}")
    for n, d in sd.items():
        if n in ed:
            if sorted(ed[n]["locations"]) != sorted(d["locations"]): pr.append(f"@{n}: locations differ")
            cmp_args("@" + n, d["args"], ed[n]["args"])
    return pr, known

async def explore(tier, seed, m):
    rng = random.Random(seed * 53 + 11)
    st = {"evaluations": 0, "nontrivial": set(), "problems": [], "known": {}, "samples": [], "modes": {}, "with_extensions": 0}
    n = 150 if tier == "quick" else 1500
    t0 = time.time()
    tmproot = tempfile.mkdtemp(prefix="c11_")
    try:
        for i in range(n):
            if time.time() - t0 > (100 if tier == "quick" else 1500): break
            M = make_model(rng)
            tmp = os.path.join(tmproot, str(i)); os.makedirs(tmp)
            mode, sdl = supply(rng, sdl_chunks(M), tmp)
            st["modes"][mode] = st["modes"].get(mode, 0) + 1
            st["evaluations"] += 1
            if M["exts"]: st["with_extensions"] += 1
            names = [d["name"] for d in M["defs"]] + ["Int", "NopeType", "__Nope"]
            spec = m.ask({"op": "describe", "model": M, "names": names})
            if "fail" in spec: st["problems"].append({"what": ["model failed: " + spec["fail"]], "model": M}); continue
            try:
                e = await build(M, sdl, seed)
            except Exception as ex:
                st["problems"].append({"what": [f"valid SDL does not build: {type(ex).__name__}: {ex}"[:400]], "supplied_as": mode, "sdl": "\n".join(sdl_chunks(M)), "model": M}); continue
            r = await e.execute(QUERY)
            if r.get("errors") or not r.get("data"):
                st["problems"].append({"what": ["introspection query answered with errors: " + json.dumps(r.get("errors"))[:300]], "sdl": "\n".join(sdl_chunks(M))}); continue
            pr, known = compare(M, spec["schema"], spec["named"], r["data"])
            # __type(name:) agrees with the entry in __schema.types, null for unknown names
            q2 = "{ " + " ".join(f't{j}: __type(name: "{nm}") {{ kind name fields(includeDeprecated: true) {{ name }} }}' for j, nm in enumerate(names)) + " }"
            r2 = await e.execute(q2)
            for j, nm in enumerate(names):
                got = (r2.get("data") or {}).get(f"t{j}")
                exp = spec["named"][nm]
                if nm.startswith("__"): continue
                if (got is None) != (exp is None): pr.append(f"__type(name: {nm!r}) is {'null' if got is None else 'non-null'}, expected {'null' if exp is None else 'an entry'}")
                elif got is not None and (got["kind"] != exp["kind"] or sorted(f["name"] for f in got["fields"] or []) != sorted(f["name"] for f in exp["fields"] or [])):
                    pr.append(f"__type(name: {nm!r}) disagrees with __schema.types")
            # the very same SDL supplied again (another schema name, same process): the description may not depend on what
            # was parsed or baked before
            if i % 3 == 0 and not pr:
                try:
                    e2 = await build(M, sdl, seed)
                    rr = await e2.execute(QUERY)
                    if rr.get("errors") or not rr.get("data"): pr.append("second build of the same SDL: introspection answered with errors")
                    else:
                        pr2, _ = compare(M, spec["schema"], spec["named"], rr["data"])
                        pr += ["second build of the same SDL: " + x for x in pr2]
                    st["rebuilt"] = st.get("rebuilt", 0) + 1
                except Exception as ex:
                    pr.append(f"the same valid SDL does not build a second time: {type(ex).__name__}: {ex}"[:400])
            for k in known: st["known"][k] = st["known"].get(k, 0) + 1
            st["nontrivial"].add(hashlib.sha256(json.dumps(M, sort_keys=True).encode()).hexdigest()[:16])
            if pr:
                st["problems"].append({"what": pr[:6], "supplied_as": mode, "sdl": "\n".join(sdl_chunks(M)), "model": M})
            if len(st["samples"]) < 2: st["samples"].append({"supplied_as": mode, "definitions": len(M["defs"]), "extensions": len(M["exts"]), "sdl_head": "\n".join(sdl_chunks(M))[:500]})
    finally:
        shutil.rmtree(tmproot, ignore_errors=True)
    return st

if __name__ == "__main__":
    tier = sys.argv[1] if len(sys.argv) > 1 else "quick"
    seed = int(sys.argv[2]) if len(sys.argv) > 2 else 0
    v = fw.Verdict("C11", tier, seed)
    b = fw.build("C11", thorough=(tier == "thorough"))
    if not b["driver_ok"]:
        v.violation({"property": "C11", "what": "model driver does not build", "log": b["driver_log"][-1500:]}, no_input=True)
        sys.exit(v.finish("proof", fw.proof_coverage(b, {"evaluations": 0, "distinct_nontrivial": 0, "samples": [{"note": "driver failed"}]}), []))
    m = Model()
    st = er.run(explore(tier, seed, m))
    m.close()
    known = {k["id"]: k for k in fw.load_known()}
    for kid in st["known"]:
        k = known.get(kid)
        if k and k["status"] == "known": v.known(k["line"].split(" ", 2)[2])
        else: st["problems"].append({"what": [f"a defect of class {kid} (recorded as FIXED) is back: {st['known'][kid]} occurrence(s)"]})
    for p in st["problems"][:3]:
        v.violation({"property": "C11", "seed": seed, **p, "undischarged_theorems": b["failing"]})
    if not st["problems"] and not b["sound"]:
        v.violation({"property": "C11", "seed": seed, "what": "proof obligation broken; no mis-described schema found", "undischarged_theorems": b["failing"],
                     "failed_dependency": b.get("failed_dependency"), "build_log_tail": b["build_log"][-1500:], "schemas_checked": st["evaluations"]}, no_input=True)
    cov = fw.proof_coverage(b, {
        "evaluations": st["evaluations"], "distinct_nontrivial": len(st["nontrivial"]),
        "rule": "generated SDL-level models (objects, interfaces with several implementers, unions, enums, recursive input objects with defaults, custom scalars, custom directive definitions, @deprecated with, without and with an empty reason on fields and enum values, @nonIntrospectable fields, renamed root types) whose definitions are randomly split into base definitions and one or two `extend` definitions per type (fields, values, members, interfaces), shuffled, and supplied as string / file / list of files / directory with .sdl and .graphql files; the engine's answer to the full introspection query (+ includeDeprecated variants, + __type(name:) for every name and unknown names) is compared with Spec.I.describe computed by the Lean driver; non-trivial = distinct model",
        "supplied_as": st["modes"], "models_with_extensions": st["with_extensions"], "known_finding_hits": st["known"], "problems": len(st["problems"]), "samples": st["samples"] or [{"note": "none"}]})
    sys.exit(v.finish("proof", cov, ["SDL text -> definitions (lark grammar, node/schema transformers) is not modelled: covered by this correspondence only",
                                     "interface implementations are generated invariant (covariant ones are rejected by the engine: KF-C11-1)"]))
