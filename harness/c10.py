"""C10 — built-in scalars obey their coercion laws.
T-tier: theorems (lean/TartModel/Properties/C10.lean) are about definitions regenerated from
the repository's scalar sources on every run; the translator is validated against the real
functions on a boundary table + random values; the laws are also evaluated directly on the
real scalar objects (oracle pass / failing-input search)."""
import env, json, math, random, sys, time
from datetime import datetime
import framework as fw
from pyval import enc, dec, strings_in, stf_table, same
from model import Model

SCALARS = ["Int", "Float", "String", "Boolean", "ID"]
MIN_INT, MAX_INT = -2**31, 2**31 - 1

def real_scalars():
    from tartiflette.scalar.builtins.int import ScalarInt
    from tartiflette.scalar.builtins.float import ScalarFloat
    from tartiflette.scalar.builtins.string import ScalarString
    from tartiflette.scalar.builtins.boolean import ScalarBoolean
    from tartiflette.scalar.builtins.id import ScalarID
    from tartiflette.scalar.builtins.date import ScalarDate
    from tartiflette.scalar.builtins.time import ScalarTime
    from tartiflette.scalar.builtins.datetime import ScalarDateTime
    return {"Int": ScalarInt(), "Float": ScalarFloat(), "String": ScalarString(), "Boolean": ScalarBoolean(),
            "ID": ScalarID(), "Date": ScalarDate(), "Time": ScalarTime(), "DateTime": ScalarDateTime()}

def boundary_values():
    ints = [0, 1, -1, 2, 7, MAX_INT, MAX_INT + 1, MAX_INT - 1, MIN_INT, MIN_INT - 1, MIN_INT + 1, 2**32, -2**32,
            2**53, 2**53 + 1, -(2**53) - 1, 2**63, 2**64 + 1, 10**400, -10**400, 2**1023, 2**1024, 2**1024 - 2**970, 2**1024 - 2**969]
    floats = [0.0, -0.0, 1.0, -1.0, 1.5, -1.5, 0.1, 2.5, float(MAX_INT), float(MAX_INT + 1), float(MIN_INT), float(MIN_INT - 1),
              MAX_INT + 0.5, MIN_INT - 0.5, 1e300, -1e300, 1.7976931348623157e308, 5e-324, 2.0**53, 2.0**53 + 2, 1e22, 123456.0,
              float("nan"), float("inf"), float("-inf")]
    strs = ["", "0", "12", "-12", "+12", "1.5", "12.0", "abc", " 12 ", "1e3", "1E3", "1e400", "-1e400", "nan", "inf", "-inf", "Infinity",
            "true", "false", "True", "2147483647", "2147483648", "-2147483648", "-2147483649", "2147483647.0000001", "1_0", "0x10",
            "١٢", "1e-400", ".5", "5.", "é", "a\"b", "2019-12-31", "12:30:01", "2019-12-31T12:30:01", "0.0", "-0"]
    others = [None, True, False, [], [1], ["a", 2], (1,), (), {}, {"a": 1}, {"_typename": "X"}, [[1.5]], [None]]
    vals = [enc(v) for v in ints + floats + strs + others]
    vals += [{"o": "Thing", "a": []}, {"o": "Thing", "a": [["value", {"i": "3"}]]}, {"x": False, "m": "boom", "e": []},
             {"x": True, "m": "terr", "e": [["code", {"i": "7"}]]}]
    return vals

def literal_nodes():
    ints = ["0", "-0", "1", "12", "-12", "2147483647", "2147483648", "-2147483648", "-2147483649", "99999999999999999999",
            "9007199254740993", "1" + "0" * 400]
    floats = ["1.5", "-1.5", "0.0", "-0.0", "12.0", "1e3", "1E3", "1.5e+3", "1e400", "-1e400", "1e-400", "0.1", "2147483648.0", "123e-2"]
    strs = ["", "abc", "12", "1.5", "true", "é\n", "2019-12-31", "12:30:01", "2019-12-31T12:30:01", "2019-13-45"]
    nodes = [{"n": "IntValueNode", "v": s} for s in ints] + [{"n": "FloatValueNode", "v": s} for s in floats]
    nodes += [{"n": "StringValueNode", "v": s} for s in strs]
    nodes += [{"n": "BooleanValueNode", "v": True}, {"n": "BooleanValueNode", "v": False}, {"n": "EnumValueNode", "v": "A"},
              {"n": "EnumValueNode", "v": "true"}]
    # nodes as the SDL parser builds them for default values: the number itself, not its lexeme
    nodes += [{"n": "IntValueNode", "v": enc(i)} for i in (0, 1, 12, -12, 2147483647, 2147483648, -2147483649, 9007199254740993, 10**400)]
    nodes += [{"n": "FloatValueNode", "v": enc(f)} for f in (1.5, -0.0, 12.0, 1e3, 0.1, 2147483648.0)]
    return nodes

def random_values(rng, n):
    import struct
    out = []
    for _ in range(n):
        k = rng.randrange(9)
        if k == 0: v = rng.randint(-2**33, 2**33)
        elif k == 1: v = rng.choice([MAX_INT, MIN_INT]) + rng.randint(-3, 3)
        elif k == 2: v = rng.randint(-10**rng.randint(1, 330), 10**rng.randint(1, 330))
        elif k == 3: v = struct.unpack("<d", struct.pack("<Q", rng.getrandbits(64)))[0]
        elif k == 4: v = float(rng.randint(-2**33, 2**33)) + rng.choice([0.0, 0.5, 0.25])
        elif k == 5: v = str(rng.randint(-2**33, 2**33)) + rng.choice(["", "", ".0", ".5", "e1", " "])
        elif k == 6: v = repr(struct.unpack("<d", struct.pack("<Q", rng.getrandbits(64)))[0])
        elif k == 7: v = rng.choice([True, False, None, [], {}])
        else: v = "".join(rng.choice("0123456789.-+eE _xnaif") for _ in range(rng.randint(0, 6)))
        out.append(enc(v))
    return out

def random_literals(rng, n):
    out = []
    for _ in range(n):
        k = rng.randrange(3)
        if k == 0:
            i = rng.choice([rng.randint(-2**33, 2**33), rng.choice([MAX_INT, MIN_INT]) + rng.randint(-2, 2), rng.randint(-10**40, 10**40)])
            out.append({"n": "IntValueNode", "v": str(i)})
        elif k == 1:
            ip = str(rng.randint(-10**rng.randint(1, 20), 10**rng.randint(1, 20)))
            lex = ip + rng.choice(["." + str(rng.randint(0, 10**6)).rjust(rng.randint(1, 7), "0"), ""]) + rng.choice(["", "e" + str(rng.randint(-400, 400)), "E+" + str(rng.randint(0, 30))])
            if "." not in lex and "e" not in lex and "E" not in lex: lex += ".0"
            out.append({"n": "FloatValueNode", "v": lex})
        else:
            out.append({"n": "StringValueNode", "v": "".join(rng.choice("abc 019-:T.é") for _ in range(rng.randint(0, 12)))})
    return out

def call_real(fn, v, undef):
    try:
        r = fn(v)
    except Exception as e:          # noqa
        return {"err": type(e).__name__}
    return {"ok": enc(r, undef)}

# ---- law oracles on the real scalar objects (spec written here independently of the Lean files) ----
def is_json_num(v): return isinstance(v, (int, float)) and not isinstance(v, bool)
def spec_accepts(scalar, v):
    if scalar == "Int":
        return is_json_num(v) and (isinstance(v, int) or (math.isfinite(v) and v == math.floor(v))) and MIN_INT <= v <= MAX_INT
    if scalar == "Float":
        if not is_json_num(v): return False
        try: return math.isfinite(float(v))
        except OverflowError: return False
    if scalar == "String": return isinstance(v, str)
    if scalar == "Boolean": return isinstance(v, bool)
    if scalar == "ID": return isinstance(v, str) or (is_json_num(v) and (isinstance(v, int) or (math.isfinite(v) and v == math.floor(v))))
    raise KeyError(scalar)

def law_out(scalar, v, res):
    if "err" in res: return None
    r = res["_raw"]
    if scalar == "Int":
        if isinstance(r, bool) or not isinstance(r, (int, float)): return f"Int result of type {type(r).__name__}"
        if isinstance(r, float) and (not math.isfinite(r) or r != math.floor(r)): return "Int result not integral"
        if not MIN_INT <= r <= MAX_INT: return "Int result outside 32 bits"
        if isinstance(v, bool): exp = int(v)
        elif isinstance(v, (int, float)): exp = v
        elif isinstance(v, str):
            try: exp = float(v)
            except Exception: return "Int result from a non-numeric string"
        else: return f"Int result from {type(v).__name__}"
        if r != exp: return f"Int result {r!r} does not denote the value {exp!r} (truncated or wrapped)"
    elif scalar == "Float":
        if not isinstance(r, float) or not math.isfinite(r): return f"Float result {r!r} not a finite float"
        if isinstance(v, float) and r != v: return "Float result changed value"
    elif scalar in ("String", "ID"):
        if not isinstance(r, str): return f"{scalar} result not a string"
        if isinstance(v, str) and r != v: return f"{scalar} result changed text"
    elif scalar == "Boolean":
        if not isinstance(r, bool): return "Boolean result not a bool"
        if isinstance(v, bool) and r is not v: return "Boolean result changed"
    return None

def law_in(scalar, v, res):
    acc = spec_accepts(scalar, v)
    if acc and "err" in res: return f"{scalar} input coercion refuses the valid value {v!r}"
    if not acc and "ok" in res: return f"{scalar} input coercion accepts {v!r} ({type(v).__name__})"
    if acc:
        r = res["_raw"]
        if scalar == "Int" and (type(r) is not int or r != v): return "Int input changed value"
        if scalar == "Float" and (type(r) is not float or (isinstance(v, float) and r != v)): return "Float input changed value"
        if scalar in ("String", "Boolean") and r != v: return "input changed value"
        if scalar == "ID" and not isinstance(r, str): return "ID input not a string"
    return None

def law_idem(scalar, sc, v, res):
    if "err" in res: return None
    r = res["_raw"]
    try:
        r2 = sc.coerce_input(r)
    except Exception as e:
        return f"{scalar}: produced result {r!r} is refused as input ({type(e).__name__})"
    if r2 != r: return f"{scalar}: result {r!r} fed back yields {r2!r}"
    return None

def law_literal(scalar, sc, node_w, undef):
    """literal of the natural kind vs variable carrying the same JSON value"""
    kind, lex = node_w["n"], node_w["v"]
    natural = {"Int": ["IntValueNode"], "Float": ["FloatValueNode", "IntValueNode"], "String": ["StringValueNode"],
               "Boolean": ["BooleanValueNode"], "ID": ["StringValueNode", "IntValueNode"]}[scalar]
    node = dec(node_w)
    lit = sc.parse_literal(node)
    if kind not in natural:
        return None if lit is undef else f"{scalar} accepts a literal of kind {kind}"
    if kind in ("IntValueNode", "FloatValueNode"):
        if not isinstance(lex, str):            # SDL-style node: carries the number itself
            jv = dec(lex); lex = repr(jv)
            if scalar == "Float" and isinstance(jv, int) and abs(jv) > 2**53: return None      # float(int) rounds / overflows: not a JSON-equal pair
        else:
            jv = json.loads(lex)
    else:
        jv = lex
    if scalar == "ID" and kind == "IntValueNode" and str(jv) != lex: return None      # non-canonical lexeme (-0)
    try:
        var = sc.coerce_input(jv); var_ok = True
    except Exception:
        var_ok = False
    if lit is undef and var_ok: return f"{scalar}: literal {lex} refused but variable {jv!r} accepted"
    if lit is not undef and not var_ok: return f"{scalar}: literal {lex} accepted ({lit!r}) but variable {jv!r} refused"
    if var_ok and (lit != var or type(lit) is not type(var)): return f"{scalar}: literal {lex} -> {lit!r}, variable -> {var!r}"
    return None

def law_datetime(real):
    """Date/Time/DateTime for well-formed values: correspondence only (DESIGN §8 C10, partial)."""
    bad = []
    n = 0
    samples = [datetime(2019, 12, 31, 12, 30, 1), datetime(2000, 2, 29, 0, 0, 0), datetime(1999, 1, 1, 23, 59, 59), datetime(2024, 7, 4, 6, 5, 4),
               datetime(999, 12, 31, 1, 2, 3), datetime(1, 1, 1, 0, 0, 0), datetime(9999, 12, 31, 23, 59, 59)]      # years that need zero padding / the extremes
    for name, fmt in (("Date", "%Y-%m-%d"), ("Time", "%H:%M:%S"), ("DateTime", "%Y-%m-%dT%H:%M:%S")):
        sc = real[name]
        for dt in samples:
            n += 1
            try:
                out = sc.coerce_output(dt)
                if not isinstance(out, str): bad.append(f"{name} result not text"); continue
                back = sc.coerce_input(out)
                if sc.coerce_output(back) != out: bad.append(f"{name} not idempotent on {out}")
                from tartiflette.language.ast import StringValueNode
                lit = sc.parse_literal(StringValueNode(value=out))
                if lit != back: bad.append(f"{name} literal/variable differ on {out}")
            except Exception as e:
                bad.append(f"{name} raised {type(e).__name__} on well-formed {dt}")
        for junk in (12, 1.5, True, None, [], "junk"):
            n += 1
            try:
                sc.coerce_input(junk); bad.append(f"{name} input accepts {junk!r}")
            except Exception:
                pass
    return n, bad

def run(tier, seed):
    from tartiflette.constants import UNDEFINED_VALUE as UNDEF
    v = fw.Verdict("C10", tier, seed)
    rng = random.Random(seed)
    b = fw.build("C10", thorough=(tier == "thorough"))
    real = real_scalars()
    nrand = 4000 if tier == "quick" else 120000
    if b.get("golden_fallback"): nrand *= 5      # the tie is the differential run alone: look harder
    values = boundary_values() + random_values(rng, nrand)
    lits = literal_nodes() + random_literals(rng, nrand // 4)
    # ---- requests
    reqs = []
    for w in values:
        tbl = stf_table(strings_in(w, set()))
        for s in SCALARS:
            for d in ("out", "in"):
                reqs.append({"op": "scalar", "scalar": s, "dir": d, "value": w, "stf": tbl})
        reqs.append({"op": "scalar", "scalar": "is_integer", "dir": "-", "value": w, "stf": tbl})
    for w in lits:
        tbl = stf_table(strings_in(w, set()))
        for s in SCALARS:
            reqs.append({"op": "scalar", "scalar": s, "dir": "lit", "value": w, "stf": tbl})
    # ---- real side + laws
    try:
        from tartiflette.utils.values import is_integer       # an internal helper: may be renamed or moved by a refactoring
    except Exception:
        is_integer = None
    law_failures = []
    real_res = []
    kinds = {}
    for r in reqs:
        s, d = r["scalar"], r["dir"]
        pv = dec(r["value"], UNDEF)
        if s == "is_integer":
            res = call_real(is_integer, pv, UNDEF) if is_integer is not None else {"skipped": "helper not found under its old name"}
        else:
            sc = real[s]
            fn = {"out": sc.coerce_output, "in": sc.coerce_input, "lit": sc.parse_literal}[d]
            try:
                raw = fn(pv); res = {"ok": enc(raw, UNDEF), "_raw": raw}
            except Exception as e:
                res = {"err": type(e).__name__}
            msg = None
            if d == "out": msg = law_out(s, pv, res) or law_idem(s, sc, pv, res)
            elif d == "in" and not isinstance(pv, (list, dict, tuple)) and pv is not None and not hasattr(pv, "__dict__") and not isinstance(pv, BaseException):
                msg = law_in(s, pv, res)
            elif d == "in" and "ok" in res and pv is not None: msg = f"{s} input coercion accepts a {type(pv).__name__}"
            elif d == "lit": msg = law_literal(s, sc, r["value"], UNDEF)
            if msg: law_failures.append({"scalar": s, "dir": d, "value": r["value"], "what": msg})
            res.pop("_raw", None)
        real_res.append(res)
        key = f"{s}.{d}:" + ("ok" if "ok" in res else "err")
        kinds[key] = kinds.get(key, 0) + 1
    ndt, dt_bad = law_datetime(real)
    for m in dt_bad: law_failures.append({"scalar": "Date/Time/DateTime", "what": m})
    # ---- model side (translation validation)
    disagreements = []
    model_ran = False
    if b["driver_ok"]:
        m = Model()
        try:
            mres = m.ask_many(reqs); model_ran = True
        finally:
            m.close()
        for r, a, e in zip(reqs, mres, real_res):
            if "skipped" in e: continue
            if "fail" in a:
                disagreements.append({"req": r, "model": a, "real": e}); continue
            if ("ok" in a) != ("ok" in e) or ("ok" in a and not same(a["ok"], e["ok"])):
                disagreements.append({"req": {k: r[k] for k in ("scalar", "dir", "value")}, "model": a, "real": e})
    # ---- decide
    for f in law_failures[:5]:
        v.violation({"property": "C10", "seed": seed, "kind": "law violated on the real scalar", **f})
    if not law_failures and (not b["sound"] or disagreements or not model_ran):
        v.violation({"property": "C10", "seed": seed, "kind": "proof obligation or translation validation broken; no input violating a law found",
                     "undischarged_theorems": b["failing"], "untranslatable": b["gen"].get("untranslatable"),
                     "bad_axioms": b["bad_axioms"], "forbidden_tokens": b["forbidden_tokens"],
                     "build_log_tail": b["build_log"][-1500:], "driver_log_tail": b["driver_log"][-800:],
                     "first_disagreements": disagreements[:5], "laws_evaluated_on_real_code": len(reqs)}, no_input=True)
    distinct = len({json.dumps([r["scalar"], r["dir"], r["value"]], sort_keys=True) for r, e in zip(reqs, real_res) if "ok" in e})
    cov = fw.proof_coverage(b, {
        "evaluations": len(reqs) + ndt, "distinct_nontrivial": distinct,
        "rule": "boundary table x {5 scalars x out/in, is_integer} + literal nodes x 5 scalars + seeded random values; non-trivial = distinct (scalar, direction, value) on which the real function succeeds (the failing ones only exercise the error branch)",
        "translation_validation": {"compared": len(reqs) if model_ran else 0, "disagreements": len(disagreements)},
        "law_oracle_failures": len(law_failures), "outcome_distribution": kinds,
        "datetime_checks": ndt,
        "samples": [{k: r[k] for k in ("scalar", "dir", "value")} | {"real": e} for r, e in list(zip(reqs, real_res))[:: max(1, len(reqs) // 12)]][:12],
    })
    return v.finish("proof", cov, [
        "CPython float(<str>) is supplied to the model as an oracle table computed by the harness (modelled, not verified)",
        "Date/Time/DateTime laws are checked by evaluation on well-formed values only (strptime/strftime not modelled): partial",
        "values outside the modelled universe (Decimal, Fraction, numpy scalars, objects with dunder methods) are not covered"])

if __name__ == "__main__":
    tier = sys.argv[1] if len(sys.argv) > 1 else "quick"
    seed = int(sys.argv[2]) if len(sys.argv) > 2 else 0
    sys.exit(run(tier, seed))
