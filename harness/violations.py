"""Catalogue of violation-injecting rewrites (C07) and of legal-but-unusual constructions (C06).
Each rewrite edits the TEXT of a valid generated document at a randomly chosen applicable site;
what the rewritten document actually violates is decided by the Lean specification
(Spec/Validation.lean), never by the rewrite's intent."""
import re, random, json
from gen import tstr, base, print_value, is_nn

def _sites(q, pattern):
    return [m for m in re.finditer(pattern, q)]

def _insert(q, pos, text): return q[:pos] + text + q[pos:]

def balanced_end(q, start):
    """index just after the brace block starting at q[start] == '{'"""
    depth = 0
    i = start
    in_str = False
    while i < len(q):
        c = q[i]
        if in_str:
            if c == "\\": i += 1
            elif c == '"': in_str = False
        elif c == '"': in_str = True
        elif c == "{": depth += 1
        elif c == "}":
            depth -= 1
            if depth == 0: return i + 1
        i += 1
    return None

def selection_braces(q):
    """positions of '{' that open a SELECTION set (not an object literal): preceded by ')' / name / '}' context; heuristic"""
    out = []
    depth_paren = 0
    in_str = False
    for i, c in enumerate(q):
        if in_str:
            if c == '"' and q[i - 1] != "\\": in_str = False
            continue
        if c == '"': in_str = True
        elif c == "(": depth_paren += 1
        elif c == ")": depth_paren -= 1
        elif c == "{" and depth_paren == 0: out.append(i)
    return out

class Catalogue:
    def __init__(self, sg, rng):
        self.sg, self.r = sg, rng

    def all(self, q):
        """list of (intent, mutated text)"""
        out = []
        for name in [n for n in dir(self) if n.startswith("m_")]:
            try:
                for res in (getattr(self, name)(q) or []):
                    if res and res != q: out.append((name[2:], res))
            except Exception:
                pass
        return out

    # --- operations -------------------------------------------------------------------------
    def m_operation_name_uniqueness(self, q):
        m = re.search(r"^(query|mutation) (Op\d+)[^\n]*$", q, re.M)
        if m: return [q + "\nquery " + m.group(2) + " { __typename }"]
    def m_lone_anonymous(self, q):
        return [q + "\n{ __typename }"] if re.search(r"^(query|mutation) Op\d+", q, re.M) else [q + "\nquery Extra { __typename }"] if q.lstrip().startswith("{") else None
    # --- fields ------------------------------------------------------------------------------
    def m_field_unknown(self, q):
        br = selection_braces(q)
        if not br: return None
        res = []
        for i in self.r.sample(br, min(3, len(br))):
            res.append(_insert(q, i + 1, " nope_field "))
        res.append(_insert(q, self.r.choice(br) + 1, " __nope_meta "))
        return res
    def m_leaf_with_selection(self, q):
        res = []
        for m in self.r.sample(_sites(q, r"\b(__typename)\b"), min(2, len(_sites(q, r"\b(__typename)\b")))):
            res.append(_insert(q, m.end(), " { __typename }"))
        return res
    def m_composite_without_selection(self, q):
        # delete the sub-selection of some field: find `name {` preceded by a field name (not `on X`, not `...`)
        cands = []
        for i in selection_braces(q):
            pre = q[:i].rstrip()
            if re.search(r"(\.\.\.|on \w+|\b(query|mutation|subscription)\b[^{]*|^)$", pre): continue
            if pre.endswith("}") or pre.endswith("{"): continue
            end = balanced_end(q, i)
            if end: cands.append((i, end))
        res = []
        for i, end in self.r.sample(cands, min(2, len(cands))):
            res.append(q[:i] + q[end:])
        return res
    # --- arguments ---------------------------------------------------------------------------
    def m_argument_unknown(self, q):
        res = []
        ms = _sites(q, r"\b(echo\d+|__typename)\b(?!\()")
        for m in self.r.sample(ms, min(2, len(ms))): res.append(_insert(q, m.end(), "(zzz: 1)"))
        ms = _sites(q, r"\w+\(")
        for m in self.r.sample(ms, min(2, len(ms))): res.append(_insert(q, m.end(), "zzz: 1, "))
        ms = _sites(q, r"@(skip|include)\(")
        for m in self.r.sample(ms, min(1, len(ms))): res.append(_insert(q, m.end(), "zzz: 1, "))
        return res
    def m_argument_duplicate(self, q):
        res = []
        ms = _sites(q, r"\((\w+): ([^,()\[\]{}]+)[,)]")
        for m in self.r.sample(ms, min(3, len(ms))):
            res.append(_insert(q, m.start() + 1, f"{m.group(1)}: {m.group(2)}, "))
        return res
    def m_required_argument_missing(self, q):
        res = []
        ms = _sites(q, r"@(skip|include)\(if: [^)]*\)")
        for m in self.r.sample(ms, min(2, len(ms))): res.append(q[:m.start()] + "@" + m.group(1) + q[m.end():])
        # a field with a required argument, selected without it
        for t in self.sg.types:
            if t["kind"] == "object":
                for f in t["fields"]:
                    for a in f["args"]:
                        if "nn" in a["type"] and not a.get("default"):
                            ms = _sites(q, r"\b" + f["name"] + r"\(" )
                            for m in ms[:1]:
                                end = q.index(")", m.end()) if ")" in q[m.end():] else None
                                if end and "(" not in q[m.end():end]: res.append(q[:m.end() - 1] + q[end + 1:])
        return res
    def m_value_wrong_type(self, q):
        res = []
        repl = {"Int": ['"str"', "1.5", "true", "[1, \"x\"]", "2147483648", "{a: 1}"], "Float": ['"1.5"', "true", "A"], "String": ["1", "true", "A", "[1]"],
                "Boolean": ["1", '"true"', "A"], "ID": ["1.5", "true", "[true]"], "E": ['"A"', "Z", "1", "true", "a"]}
        for fn in self.sg.echo:
            ty = self.sg.sigs[fn]["args"][0]["type"]
            b = base(ty)
            for m in _sites(q, r"\b" + fn + r"\(v: ")[:1]:
                end = m.end()
                # replace the whole argument value up to the matching ')'
                depth = 0; j = end
                while j < len(q) and not (q[j] == ")" and depth == 0):
                    if q[j] in "([{": depth += 1
                    if q[j] in ")]}": depth -= 1
                    j += 1
                if b in repl:
                    res.append(q[:end] + self.r.choice(repl[b]) + q[j:])
                elif b == "Any" and "l" not in json.dumps(ty):
                    # the custom scalar refuses a literal by answering "undefined" ("BAD") or by RAISING ("BADRAISE")
                    res.append(q[:end] + self.r.choice(['"BAD"', '"BADRAISE"', '"BADRAISE"', "[1]", "{a: 1}", "1.5"]) + q[j:])
                elif self.sg.tdef(b)["kind"] == "input":
                    res.append(q[:end] + self.r.choice(['{zzz_unknown: 1}', '"notobject"', '[{zzz: 1}]', '{x: {a: 1}}', "{x: 1, x: 2}"]) + q[j:])
        ms = _sites(q, r"@(skip|include)\(if: (true|false)\)")
        for m in ms[:1]: res.append(q[:m.start(2)] + self.r.choice(["1", '"yes"', "null", "[true]"]) + q[m.end(2):])
        # null for a non-null position
        ms = _sites(q, r"@(skip|include)\(if: ")
        for m in ms[:1]:
            end = q.index(")", m.end()); res.append(q[:m.end()] + "null" + q[end:])
        return res
    def m_input_field_duplicate(self, q):
        res = []
        ms = _sites(q, r"\{(\w+): ([^,{}\[\]()]+)")
        for m in ms:
            if q[:m.start()].count("(") > q[:m.start()].count(")"):      # inside an argument list: object literal
                res.append(_insert(q, m.start() + 1, f"{m.group(1)}: {m.group(2)}, "))
        return self.r.sample(res, min(2, len(res)))
    # --- fragments -----------------------------------------------------------------------------
    def m_fragment_name_duplicate(self, q):
        m = re.search(r"^fragment (F\d+) on (\w+) ", q, re.M)
        if m: return [q + f"\nfragment {m.group(1)} on {m.group(2)} {{ __typename }}"]
    def m_fragment_unknown_type(self, q):
        br = selection_braces(q)
        res = [_insert(q, self.r.choice(br) + 1, " ... on NopeType { __typename } ")] if br else []
        m = re.search(r"\.\.\.(F\d+)", q)
        if m: res.append(re.sub(r"^fragment " + m.group(1) + r" on \w+", "fragment " + m.group(1) + " on NopeType", q, flags=re.M))
        return res
    def m_fragment_on_non_composite(self, q):
        br = selection_braces(q)
        return [_insert(q, self.r.choice(br) + 1, " ... on Int { __typename } "), _insert(q, self.r.choice(br) + 1, " ... on E { __typename } ")] if br else None
    def m_fragment_unused(self, q):
        return [q + "\nfragment Unused on Query { __typename }"]
    def m_spread_undefined(self, q):
        br = selection_braces(q)
        return [_insert(q, self.r.choice(br) + 1, " ...UndefinedFragment ")] if br else None
    def m_fragment_cycle(self, q):
        res = []
        for m in _sites(q, r"^fragment (F\d+) on (\w+) \{", re.M)[:3] if False else re.finditer(r"^fragment (F\d+) on (\w+) \{", q, re.M):
            name = m.group(1)
            res.append(_insert(q, m.end(), f" ...{name} "))                       # direct
            res.append(_insert(q, m.end(), f" ... on {m.group(2)} {{ ...{name} }} "))   # through an inline fragment
            # through a nested field of the fragment, if it has a composite field selection
            body_start = m.end() - 1
            inner = [i for i in selection_braces(q) if i > body_start and i < (balanced_end(q, body_start) or 0)]
            if inner: res.append(_insert(q, self.r.choice(inner) + 1, f" ...{name} "))
        # a cycle through TWO fragments (A -> B -> A), same type condition preferred
        fr = list(re.finditer(r"^fragment (F\d+) on (\w+) \{", q, re.M))
        for a in fr:
            for b in fr:
                if a.group(1) < b.group(1) and (a.group(2) == b.group(2) or self.r.random() < 0.3):
                    q2 = _insert(q, b.end(), f" ...{a.group(1)} ")          # later definition first: offsets of the earlier stay valid
                    q2 = _insert(q2, a.end(), f" ...{b.group(1)} ")
                    res.append(q2)
        res = self.r.sample(res, min(5, len(res)))
        # cycles among fragments NO operation reaches (only the cycle rule can refuse these: the fragments spread each other),
        # closed directly, through an inline fragment (with / without condition, with a directive) or below a field
        comp = [(t["name"], f["name"], base(f["type"])) for t in self.sg.types if t["kind"] == "object"
                for f in t["fields"] if base(f["type"]) in self.sg.obj_names and not any(is_nn(a["type"]) and not a.get("default") for a in f["args"])]
        tn = self.r.choice(self.sg.obj_names + ["Query"])
        lone = [f"fragment Zc on {tn} {{ __typename ...Zc }}",
                f"fragment Zc on {tn} {{ __typename ... on {tn} {{ ...Zc }} }}",
                f"fragment Zc on {tn} {{ __typename ... {{ ...Zc }} }}",
                f"fragment Zc on {tn} {{ __typename ... @include(if: true) {{ ... on {tn} {{ ...Zc }} }} }}",
                f"fragment Za on {tn} {{ __typename ... on {tn} {{ ...Zb }} }} fragment Zb on {tn} {{ ...Za }}",
                f"fragment Za on {tn} {{ ...Zb }} fragment Zb on {tn} {{ __typename ... {{ ...Zc }} }} fragment Zc on {tn} {{ ... on {tn} {{ ...Za }} }}"]
        rec = [c for c in comp if c[0] == c[2]]
        if rec:
            a, fld, _ = self.r.choice(rec)
            lone.append(f"fragment Zc on {a} {{ {fld} {{ __typename ... on {a} {{ ...Zc }} }} }}")
            lone.append(f"fragment Zc on {a} {{ {fld} {{ {fld} {{ ... {{ ...Zd }} }} }} }} fragment Zd on {a} {{ {fld} {{ ...Zc }} }}")
        for fr_ in self.r.sample(lone, 3): res.append(q.rstrip() + "\n" + fr_ + "\n")
        return res
    def m_spread_impossible(self, q):
        res = []
        objs = self.sg.obj_names
        # inside the selection of a field returning object type T, condition on an unrelated object type
        for t in self.sg.types:
            if t["kind"] != "object": continue
            for f in t["fields"]:
                b = base(f["type"])
                td = self.sg.tdef(b)
                if td and td["kind"] == "object":
                    others = [o for o in objs if o != b]
                    for m in _sites(q, r"\b" + f["name"] + r"\b[^{}]*\{")[:1]:
                        if others:
                            o = self.r.choice(others)
                            res.append(_insert(q, m.end(), f" ... on {o} {{ __typename }} "))
                            res.append(_insert(q, m.end(), " ...ImpossibleZ ") + f"\nfragment ImpossibleZ on {o} {{ __typename }}")
        res.append(re.sub(r"\{", "{ ... on " + objs[0] + " { __typename } ", q, count=1) if not q.lstrip().startswith("fragment") else None)
        return [x for x in res if x][:4]
    # --- directives ------------------------------------------------------------------------------
    def m_directive_unknown(self, q):
        ms = _sites(q, r"\b(__typename|echo\d+)\b")
        return [_insert(q, m.end(), " @nope") for m in self.r.sample(ms, min(2, len(ms)))] + [re.sub(r"^(query|mutation) (Op\d+)", r"\1 \2 @nope", q, count=1, flags=re.M)]
    def m_directive_wrong_location(self, q):
        res = [re.sub(r"^(query|mutation) (Op\d+)([^{]*)\{", lambda m: f"{m.group(1)} {m.group(2)}{m.group(3)}@skip(if: true) {{", q, count=1, flags=re.M)]
        ms = _sites(q, r"\b(__typename)\b")
        for m in ms[:1]: res.append(_insert(q, m.end(), ' @deprecated(reason: "x")'))
        res.append(re.sub(r"^fragment (F\d+) on (\w+) \{", r"fragment \1 on \2 @include(if: true) {", q, count=1, flags=re.M))
        # a FIELD_DEFINITION-only directive on inline fragments (with and without type condition, at any depth) and on spreads
        br = selection_braces(q)
        for b in self.r.sample(br, min(2, len(br))):
            res.append(_insert(q, b + 1, ' ... @deprecated(reason: "x") { __typename } '))
        ms = _sites(q, r"\.\.\. on (\w+) ")
        for m in self.r.sample(ms, min(2, len(ms))): res.append(_insert(q, m.end(), '@deprecated(reason: "x") '))
        ms = _sites(q, r"\.\.\.(F\d+)")
        for m in self.r.sample(ms, min(2, len(ms))): res.append(_insert(q, m.end(), ' @deprecated(reason: "x")'))
        return res
    def m_directive_duplicate(self, q):
        ms = _sites(q, r"@(skip|include)\(if: [^)]*\)")
        res = [_insert(q, m.end(), " " + m.group(0)) for m in self.r.sample(ms, min(2, len(ms)))]
        ms = _sites(q, r"\b(__typename)\b")
        for m in ms[:1]: res.append(_insert(q, m.end(), " @skip(if: false) @skip(if: false)"))
        return res
    # --- variables --------------------------------------------------------------------------------
    def _op_header(self, q):
        return re.search(r"^(query|mutation)( Op\d+)?\(([^)]*)\)", q, re.M)
    def m_variable_duplicate(self, q):
        m = self._op_header(q)
        if m:
            first = m.group(3).split(",")[0]
            return [q[:m.start(3)] + first + ", " + q[m.start(3):]]
    def m_variable_non_input_type(self, q):
        m = self._op_header(q)
        t = self.r.choice(self.sg.obj_names)
        if m: return [q[:m.start(3)] + f"$zz: {t}, " + q[m.start(3):], q[:m.start(3)] + "$zz: NopeType, " + q[m.start(3):]]
        m2 = re.search(r"^(query|mutation) (Op\d+) ", q, re.M)
        if m2: return [q[:m2.end() - 1] + f"($zz: {t}) " + q[m2.end():]]
    def m_variable_undefined(self, q):
        res = []
        for fn in self.sg.echo[:3]:
            for m in _sites(q, r"\b" + fn + r"\b(?!\()")[:1]: res.append(_insert(q, m.end(), "(v: $undefinedVar)"))
        ms = _sites(q, r"@(skip|include)\(if: (true|false)\)")
        for m in ms[:1]: res.append(q[:m.start(2)] + "$undefinedVar" + q[m.end(2):])
        return res
    def m_variable_unused(self, q):
        m = self._op_header(q)
        if m: return [q[:m.start(3)] + "$unusedVar: Int, " + q[m.start(3):]]
        m2 = re.search(r"^(query|mutation) (Op\d+) ", q, re.M)
        if m2: return [q[:m2.end() - 1] + "($unusedVar: Int) " + q[m2.end():]]
    def m_list_item_after_variable(self, q):
        """an ill-typed constant item placed AFTER (and before) a well-typed variable in the same list literal"""
        res = []
        def add_var(q, decl):
            m = self._op_header(q)
            if m: return q[:m.start(3)] + decl + ", " + q[m.start(3):]
            m2 = re.search(r"^(query|mutation) (Op\d+) ", q, re.M)
            if m2: return q[:m2.end() - 1] + f"({decl}) " + q[m2.end():]
            if q.lstrip().startswith("{"): return f"query Qz({decl}) " + q.lstrip()
            return None
        plans = [("echo6", "$w: Int", '[$w, "oops"]'), ("echo6", "$w: Int", '["oops", $w]'), ("echo8", "$w: [Int]", '[$w, ["x"]]'),
                 ("echo7", "$w: String!", "[$w, 5]"), ("echo10", "$w: " + self.sg.inputs[0]["name"], '[$w, {nope_field: 1}]')]
        for fn, decl, use in plans:
            if fn in self.sg.echo:
                for m in _sites(q, r"\b" + fn + r"\b(?!\()")[:1]:
                    q2 = add_var(_insert(q, m.end(), f"(v: {use})"), decl)
                    if q2: res.append(q2)
        return res

    def m_variable_usage_not_allowed(self, q):
        res = []
        m = self._op_header(q)
        def add_var(q, decl):
            m = self._op_header(q)
            if m: return q[:m.start(3)] + decl + ", " + q[m.start(3):]
            m2 = re.search(r"^(query|mutation) (Op\d+) ", q, re.M)
            if m2: return q[:m2.end() - 1] + f"({decl}) " + q[m2.end():]
            if q.lstrip().startswith("{"): return f"query Qz({decl}) " + q.lstrip()
            return None
        # wrong base type at top level, nullable at non-null position, list mismatch, nested in list / object literals
        plans = [("echo0", "$w: String", "$w"), ("echo2", "$w: Int", "$w"), ("echo6", "$w: Int", "$w"), ("echo0", "$w: [Int]", "$w"),
                 ("echo6", "$w: String", "[$w]"), ("echo8", "$w: String", "[[$w]]"), ("echo6", "$w: [Int]", "[$w]"),
                 # a default value only excuses the OUTERMOST nullability, never that of list items
                 ("echo7", '$w: [String] = ["a"]', "$w"), ("echo7", "$w: [String]!", "$w"), ("echo7", '$w: [String!] = ["a"]', "$w"),
                 ("echo7", "$w: [String!]", "$w")]
        for fn, decl, use in plans:
            if fn in self.sg.echo:
                for m in _sites(q, r"\b" + fn + r"\b(?!\()")[:1]:
                    q2 = add_var(_insert(q, m.end(), f"(v: {use})"), decl)
                    if q2: res.append(q2)
        # a variable of a LOOK-ALIKE type (Int for Float, Int / String for ID, ID for String ...): every value of it would be
        # accepted by the position's own coercion, the rule compares type NAMES
        alike = {"Float": ["Int"], "ID": ["Int", "String"], "String": ["ID"], "Int": ["Float", "ID"], "Boolean": ["Int"]}
        for fn in self.r.sample(list(self.sg.echo), min(3, len(self.sg.echo))):
            ty = self.sg.sigs[fn]["args"][0]["type"]
            if base(ty) in alike:
                decl_ty = tstr(ty).replace(base(ty), self.r.choice(alike[base(ty)]))
                for m in _sites(q, r"\b" + fn + r"\b(?!\()")[:1]:
                    q2 = add_var(_insert(q, m.end(), "(v: $w)"), f"$w: {decl_ty}")
                    if q2: res.append(q2)
        # the same at the arguments of ANY field of the document - leaf or with a sub-selection, root or nested, in fragments
        sites = []
        for m in re.finditer(r"\b(\w+)\((\w+): ", q):
            fn, an = m.group(1), m.group(2)
            sig = self.sg.sigs.get(fn)
            ad = next((a for a in (sig or {}).get("args", []) if a["name"] == an), None)
            if ad is None or base(ad["type"]) not in alike or q[m.end()] == "$": continue
            depth = 0; j = m.end()
            while j < len(q) and not (q[j] in ",)" and depth == 0):
                if q[j] in "([{": depth += 1
                if q[j] in ")]}": depth -= 1
                j += 1
            sites.append((m.end(), j, ad, bool(re.match(r"\)[^{}]*?\{", q[q.index(")", j) if ")" in q[j:] else j:][:40]))))
        self.r.shuffle(sites)
        sites.sort(key=lambda t: not t[3])         # fields WITH a sub-selection first
        for (a0, a1, ad, _) in sites[:3]:
            decl_ty = tstr(ad["type"]).replace(base(ad["type"]), self.r.choice(alike[base(ad["type"])]))
            q2 = add_var(q[:a0] + "$w" + q[a1:], f"$w: {decl_ty}")
            if q2: res.append(q2)
        ms = _sites(q, r"@(skip|include)\(if: (true|false)\)")
        for m in ms[:1]:
            q2 = add_var(q[:m.start(2)] + "$w" + q[m.end(2):], "$w: Boolean")      # nullable variable, non-null position, no defaults
            if q2: res.append(q2)
        return res

def subscription_violations(sg, rng):
    """single-root-field rewrites need a Subscription type"""
    if not sg.subscription: return []
    fs = sg.subscription["fields"]
    def sel(f):
        b = base(f["type"])
        return f["name"] + (" { __typename }" if b not in sg.leaf_names else "")
    a, b2 = fs[0], fs[1]
    return [("single_root", f"subscription {{ {sel(a)} {sel(b2)} }}"),
            ("single_root", f"subscription A {{ {sel(a)} }}\nsubscription B {{ {sel(a)} x2: {sel(b2)} }}"),
            ("single_root", f"subscription {{ ...R }}\nfragment R on Subscription {{ {sel(a)} {sel(b2)} }}"),
            ("single_root", f"subscription {{ ... on Subscription {{ {sel(a)} }} {sel(b2)} }}"),
            # the same field under two response keys is two root fields
            ("single_root", f"subscription {{ a1: {sel(a)} a2: {sel(a)} }}"),
            ("single_root", f"subscription {{ {sel(a)} later: {sel(a)} }}"),
            ("single_root", f"subscription {{ ...Ra }}\nfragment Ra on Subscription {{ a1: {sel(a)} ... on Subscription {{ a2: {sel(a)} }} }}"),
            ("single_root_ok_repeated", f"subscription {{ {sel(a)} {sel(a)} }}"),
            ("single_root_ok", f"subscription {{ {sel(a)} }}"),
            ("single_root_ok_fragment", f"subscription {{ ...R ...R }}\nfragment R on Subscription {{ {sel(a)} }}"),
            # the rule speaks about subscription operations only: other operations of the same document may select several root fields
            ("single_root_ok_mixed", f"query Qm {{ __typename k2: __typename }}\nsubscription Sm {{ {sel(a)} }}"),
            ("single_root_ok_mixed", f"subscription Sm {{ {sel(a)} }}\nquery Qm {{ ...Rq }}\nfragment Rq on Query {{ __typename k2: __typename }}")]

LEGAL_UNUSUAL = [
    "{ __typename __typename }",
    "{ __schema { queryType { name } types { name kind } directives { name } } }",
    "{ __type(name: \"Query\") { name kind fields { name } } x: __type(name: \"Nope\") { name } }",
    "query A { ...F ...F } fragment F on Query { __typename ...G } fragment G on Query { a: __typename }",
    "fragment Z on Query { __typename } query { ...Z ... on Query { ...Z } }",
]


def _paths_to(sg, target, depth=2):
    """selection prefixes/suffixes leading from Query to a field whose base type is `target` (no required arguments)"""
    out = []
    def ok(f): return not any(is_nn(a["type"]) and not a.get("default") for a in f["args"])
    q = sg.tdef("Query")
    for f in q["fields"]:
        if not ok(f): continue
        if base(f["type"]) == target: out.append((f["name"] + " { ", " }"))
        elif depth > 1:
            td = sg.tdef(base(f["type"]))
            if td and td["kind"] == "object":
                for g in td["fields"]:
                    if ok(g) and base(g["type"]) == target: out.append((f["name"] + " { " + g["name"] + " { ", " } }"))
    return out

def overlapping_abstract_spreads(sg, rng):
    """VALID documents: a fragment on one abstract (or object) type spread where another composite type is expected and
    the two share at least one possible object type — including partial overlaps where neither contains the other"""
    docs = []
    comp = sg.obj_names + sg.iface_names + sg.union_names
    for a in comp:
        paths = _paths_to(sg, a)
        if not paths: continue
        for b in comp:
            if a == b: continue
            pa, pb = set(sg.possible(a)), set(sg.possible(b))
            if not (pa & pb): continue
            pre, post = rng.choice(paths)
            docs.append("{ " + pre + "...Ovz " + post + " }\nfragment Ovz on " + b + " { __typename }")
            docs.append("{ " + pre + "... on " + b + " { __typename } " + post + " }")
    return docs

def impossible_reuse(sg, rng):
    """INVALID documents: one named fragment spread twice, once where it can apply and once where it never can
    (in both document orders)"""
    docs = []
    comp = sg.obj_names + sg.iface_names + sg.union_names
    for x in comp:
        px = _paths_to(sg, x)
        if not px: continue
        for y in comp:
            if set(sg.possible(x)) & set(sg.possible(y)): continue
            py = _paths_to(sg, y)
            if not py: continue
            (a1, a2), (b1, b2) = rng.choice(px), rng.choice(py)
            good, bad = f"k1: {a1}...Rz {a2}", f"k2: {b1}...Rz {b2}"
            frag = f"\nfragment Rz on {x} {{ __typename }}"
            docs.append("{ " + good + " " + bad + " }" + frag)
            docs.append("{ " + bad + " " + good + " }" + frag)
    return rng.sample(docs, min(8, len(docs)))
