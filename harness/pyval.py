"""Wire encoding of Python values shared with lean/Driver/Codec.lean."""
import math
from decimal import Decimal

OPAQUE = "\x01opaque"

class _Undef:
    def __repr__(self): return "UNDEF"

_classes = {}
def make_obj(cls, attrs):
    c = _classes.get(cls)
    if c is None:
        # deterministic rendering: `str(obj)` reaches `data` through String / custom scalars, and a memory
        # address there would differ from run to run (a false alarm for every response-equality check)
        ns = {"__repr__": lambda self, _n=cls: f"<{_n} object>"}
        if cls.startswith("Falsy"):
            # a result object that is FALSY yet carries its attributes (an empty page / collection wrapper): `if not parent`
            # shortcuts must not treat it as "no parent"
            ns["__bool__"] = lambda self: False
            ns["__len__"] = lambda self: 0
        bases = ()
        if cls.startswith("Base"):
            # an instance of a BaseException subclass that is NOT an Exception (asyncio.CancelledError, GeneratorExit ... handed
            # back as a VALUE): to the engine it is an object like any other
            bases = (BaseException,)
            ns["__str__"] = ns["__repr__"]
        if cls.startswith("Bytes"):
            # a `bytes` object (non-empty, not numeric text): to the engine a value like any other object - rendered through
            # str() at String / ID positions, never handed on as bytes
            bases = (bytes,)
            ns["__str__"] = ns["__repr__"]
        c = type(cls, bases, ns)
        _classes[cls] = c
    o = c(b"x!") if cls.startswith("Bytes") else c()
    for k, v in attrs:
        setattr(o, k, v)
    return o

def float_parts(x: float):
    if math.isnan(x): return "nan"
    if math.isinf(x): return "inf" if x > 0 else "-inf"
    sign, digits, exp = Decimal(x).as_tuple()
    m = int("".join(map(str, digits)) or "0")
    if sign: m = -m
    if exp >= 0:
        m *= 10 ** exp; e = 0
    else:
        e = -exp
    if m == 0: return ["0", 0]
    while e > 0 and m % 10 == 0:
        m //= 10; e -= 1
    return [str(m), e]

def parts_float(p):
    if p == "nan": return float("nan")
    if p == "inf": return float("inf")
    if p == "-inf": return float("-inf")
    m, e = int(p[0]), p[1]
    # exact: the decimal is a binary64 value by construction
    return float(Decimal(m).scaleb(-e))

def enc(v, undef=None, nodes=None):
    """Python value -> wire JSON"""
    if v is None: return None
    if undef is not None and v is undef: return {"u": 1}
    if isinstance(v, _Undef): return {"u": 1}
    if isinstance(v, bool): return v
    if isinstance(v, int): return {"i": str(v)}
    if isinstance(v, float): return {"f": float_parts(v)}
    if isinstance(v, str): return v
    if isinstance(v, list): return [enc(x, undef, nodes) for x in v]
    if isinstance(v, tuple): return {"t": [enc(x, undef, nodes) for x in v]}
    if isinstance(v, dict): return {"d": [[str(k), enc(x, undef, nodes)] for k, x in v.items()]}
    if isinstance(v, BaseException) and _classes.get(type(v).__name__) is not type(v):
        ext = getattr(v, "extensions", None) or {}
        from tartiflette.types.exceptions.tartiflette import TartifletteError
        return {"x": isinstance(v, TartifletteError), "m": str(getattr(v, "message", None) or v), "e": [[k, enc(x)] for k, x in ext.items()]}
    cn = type(v).__name__
    if cn.endswith("ValueNode") or cn == "VariableNode":
        return {"n": cn, "v": enc(getattr(v, "value", None), undef, nodes)}
    if hasattr(v, "__dict__"):
        return {"o": cn, "a": [[k, enc(x, undef, nodes)] for k, x in vars(v).items()]}
    return {"o": cn, "a": []}

def dec(j, undef=None):
    """wire JSON -> real Python value (objects, exceptions and AST nodes are instantiated)"""
    if j is None or isinstance(j, (bool, str)): return j
    if isinstance(j, list): return [dec(x, undef) for x in j]
    if "u" in j: return undef if undef is not None else _Undef()
    if "i" in j: return int(j["i"])
    if "f" in j: return parts_float(j["f"])
    if "t" in j: return tuple(dec(x, undef) for x in j["t"])
    if "d" in j: return {k: dec(x, undef) for k, x in j["d"]}
    if "o" in j: return make_obj(j["o"], [(k, dec(x, undef)) for k, x in j["a"]])
    if "x" in j:
        if j.get("foreign"):
            # an exception that is NOT a library error but renders itself (`coerce_value`), without path / locations attributes
            class ForeignCoercible(Exception):
                def __init__(self, m): super().__init__(m); self.m = m
                def coerce_value(self, *a, **k): return {"message": self.m, "path": None, "locations": []}
            return ForeignCoercible(j["m"])
        if j.get("multi"):
            # the library's own aggregate exception with NO member: must behave like any other exception value
            # (the model treats it as a plain exception with an empty message)
            from tartiflette.types.exceptions.tartiflette import MultipleException
            return MultipleException()
        if j["x"]:
            from tartiflette.types.exceptions.tartiflette import TartifletteError
            if j.get("um"):
                # built with a developer message AND a user message: the user message is what the response carries
                return TartifletteError("internal detail, not for the client", user_message=j["m"], extensions={k: dec(x) for k, x in j["e"]} or None)
            return TartifletteError(j["m"], extensions={k: dec(x) for k, x in j["e"]} or None)
        # plain exceptions of several classes (same str() as the message; the engine may not treat one class specially), with or
        # without constructor arguments (`raise ValueError` / a bare assert: empty args, empty message)
        cls = {"TimeoutError": TimeoutError, "AssertionError": AssertionError, "NotImplementedError": NotImplementedError,
               "RuntimeError": RuntimeError, "LookupError": LookupError, "OSError": OSError}.get(j.get("cls"), ValueError)
        if j.get("cls") == "KeyErrorInt": return KeyError(int(j["m"]))      # str() of it is the digits, its args[0] is NOT a string
        return cls() if j.get("noargs") else cls(j["m"])
    if "n" in j:
        import tartiflette.language.ast as A
        return getattr(A, j["n"])(value=dec(j["v"], undef))
    raise ValueError(f"bad wire value {j!r}")

def strings_in(j, acc):
    """collect every string occurring in a wire value (for the float(<str>) oracle table)"""
    if isinstance(j, str): acc.add(j)
    elif isinstance(j, list):
        for x in j: strings_in(x, acc)
    elif isinstance(j, dict):
        for k, x in j.items():
            if k in ("i", "f", "u", "x", "m", "o", "n"): continue
            strings_in(x, acc)
    return acc

def stf_table(strings):
    out = {}
    for s in strings:
        try:
            out[s] = float_parts(float(s))
        except Exception:
            out[s] = None
    return out

def same(model, real):
    """wire-value equality where the model's opaque strings match any real string"""
    if isinstance(model, str) and model == OPAQUE:
        return isinstance(real, str)
    if type(model) != type(real): return False
    if isinstance(model, list):
        return len(model) == len(real) and all(same(a, b) for a, b in zip(model, real))
    if isinstance(model, dict):
        return model.keys() == real.keys() and all(same(model[k], real[k]) for k in model)
    return model == real
