"""C15 — concurrent requests on one engine do not influence each other."""
import env, sys, json, random, time, hashlib, asyncio, warnings
warnings.simplefilter("ignore", RuntimeWarning)
import framework as fw
import engine_runner as er
from gen import SchemaGen, DocGen, print_sdl
from model import Model
from pyval import enc
from sched import Hub, MultiHub, drive
import c08

INTROSPECTION = "{ __schema { queryType { name } types { name kind } } __typename }"

import re
def _msg(m): return re.sub(r"0x[0-9a-fA-F]+", "0x?", m or "")
def canon(resp):
    return _msg(json.dumps({"data": enc(resp.get("data")), "errors": sorted(json.dumps([e.get("path"), _msg(e.get("message")), sorted([l["line"], l["column"]] for l in e.get("locations") or []), e.get("extensions")], sort_keys=True, default=str) for e in resp.get("errors") or [])}, sort_keys=True))

class Note:
    """query-side directive: records the argument it was given in its own request's context"""
    async def on_field_execution(self, directive_args, next_resolver, parent, args, ctx, info):
        if isinstance(ctx, dict) and "notes" in ctx: ctx["notes"].append(directive_args.get("t"))
        return await next_resolver(parent, args, ctx, info)
    async def on_field_collection(self, directive_args, next_directive, field_node, ctx):
        # a collection hook that depends on the REQUEST's context: the field is left out for requests that ask for it
        node = await next_directive(field_node, ctx)
        if isinstance(ctx, dict) and ctx.get("hide"):
            from tartiflette.types.exceptions.tartiflette import SkipCollection
            raise SkipCollection()
        return node

def calls_of(calls, req):
    """what the resolvers of one request received (coordinate, path, arguments), order-independent"""
    return sorted(_msg(json.dumps([c["coord"], c["path"], c["args"]], sort_keys=True, default=str)) for c in calls if isinstance(c.get("ctx"), dict) and c["ctx"].get("req") == req)

def explore(tier, seed):
    rng = random.Random(seed * 17 + 15)
    loop = asyncio.new_event_loop()
    stats = {"evaluations": 0, "requests": 0, "nontrivial": set(), "problems": [], "samples": [], "max_in_flight": 0}
    nschemas, nfam = (fw.scale(30), 50) if tier == "quick" else (fw.scale(120), 120)
    t0 = time.time()
    for si in range(nschemas):
        sg = SchemaGen(rng)
        renv = sg.gen_env(adv=0.05, fail=0.2)
        for o in sg.objs:
            for f in o["fields"]:
                coord = f"{o['name']}.{f['name']}"
                if coord not in renv["resolvers"] and rng.random() < 0.3:
                    renv["resolvers"][coord] = {"k": "const", "v": sg.value_for(f["type"], 3, 0.05)}
        mdl = sg.model(); mdl["sdl_extra"] = ["directive @note(t: String) on FIELD"]
        # every third schema forbids introspection at schema level (per-request decision taken in a schema-level hook);
        # every other one coerces sibling fields one by one (an introspection field may then resolve late in its request)
        if si % 3 == 0: mdl["sdl_extra"].append("extend schema @nonIntrospectable")
        cfg = {"coerce_parent_concurrently": False, "parent_concurrently": False} if (si % 2 == 1 or si % 3 == 0) else None
        if si % 4 == 1: cfg = {"coerce_list_concurrently": False, "list_concurrently": False}      # lists completed item by item
        # on every other schema the engines enrich their errors IN PLACE with a key specific to the error's message and path
        # (the documented use of an error coercer): what is written for one request's error belongs to that error only
        async def stamping(exception, error):
            key = "m-" + hashlib.sha256((str(error.get("message")) + json.dumps(error.get("path"), default=str)).encode()).hexdigest()[:6]
            if isinstance(error.get("extensions"), dict): error["extensions"][key] = 1
            else: error["extensions"] = {key: 1}
            return error
        ekw = {"error_coercer": stamping} if si % 2 == 1 else None
        b = loop.run_until_complete(er.build_engine(mdl, renv, cfg=cfg, directives={"note": Note()}, engine_kwargs=ekw))
        fresh = loop.run_until_complete(er.build_engine(mdl, renv, cfg=cfg, directives={"note": Note()}, engine_kwargs=ekw))      # never sees concurrent traffic
        b.scribble = fresh.scribble = si % 2 == 0       # resolvers that modify their own arguments in place
        b.share_values = True                           # the engine under traffic serves ONE data object per resolver to all requests
        pool = []
        for _ in range(8):
            dg = DocGen(sg, rng, op_kinds=("query", "mutation") if sg.mutation else ("query",))
            dg.nested_vars = rng.choice([True, 0.9]); dg.repeat_with_directive = True; dg.note_directive = True
            q, ops, opvars = dg.document(n_ops=rng.choice([1, 2, 2, 3]))
            k = rng.randrange(len(ops))
            for _ in range(3):        # the same document with different variables (shared cached AST)
                variables, _ = dg.variables_for(opvars[k], invalid=0.15)
                pool.append((q, ops[k][1], variables))
            for k2 in range(len(ops)):      # … and the same document asked for its OTHER operation(s), with their own variables
                if k2 != k:
                    variables, _ = dg.variables_for(opvars[k2], invalid=0.1)
                    pool.append((q, ops[k2][1], variables))
        pool += [(INTROSPECTION, None, None), ("{ __typename ", None, None), ("{ nope }", None, None), (pool[0][0], "Unknown", None)]
        # refused documents with SEVERAL errors of one rule, and introspection under aliases of this schema's own
        pool += [("{ __typename @skip(if: true, if: false) }", None, None), ("query Q($u: Int, $u: Int) { __typename }", "Q", None),
                 ("{ nope1 nope2 }", None, None), ("{ __typename nope3 }", None, None), (f"{{ i{si}: __schema {{ queryType {{ name }} }} __typename }}", None, None),
                 (f'{{ __typename\n  j{si}: __type(name: "Query") {{ name }} }}', None, None)]
        # an introspection field placed AFTER awaited resolvers of the same request
        late = []
        gated = [f for f in sg.query["fields"] if f"Query.{f['name']}" in renv["resolvers"] and renv["resolvers"][f"Query.{f['name']}"]["k"] != "default"
                 and not any(("nn" in a["type"]) and not a.get("default") for a in f["args"]) and f["name"] not in sg.echo]
        for f in gated[:2]:
            from gen import base as _b
            sub = " { __typename }" if _b(f["type"]) not in sg.leaf_names else ""
            pool.append((f"{{ {f['name']}{sub} s{si}x: __schema {{ queryType {{ name }} }} t{si}x: __type(name: \"Query\") {{ name }} }}", None, None))
            late.append(len(pool) - 1)
        def solo(engine_b, req, idx=0, hide=False):
            hub = MultiHub(1)
            engine_b.gate = hub.gate
            cx = {"req": 0, "tag": f"solo{idx}", "notes": [], "hide": hide}
            engine_b.calls.clear()
            (res,), _, _ = drive(loop, lambda: [engine_b.engine.execute(req[0], operation_name=req[1], variables=req[2], context=cx)], hub.hubs, lambda p: 0)
            engine_b.gate = None
            return res + (sorted(map(str, cx["notes"])) + calls_of(engine_b.calls, 0),)
        solo_fresh = {}
        for i, req in enumerate(pool):
            r = solo(fresh, req, hide=(i % 3 == 1))
            solo_fresh[i] = (canon(r[1]) if r[0] == "ok" else f"raised {type(r[1]).__name__}") + "|notes=" + json.dumps(r[2])
        for fi in range(nfam):
            if time.time() - t0 > (110 if tier == "quick" else 1500): break
            n = rng.randint(2, 5)
            idxs = [rng.randrange(len(pool)) for _ in range(n)]
            if late and rng.random() < 0.4: idxs[rng.randrange(1, n)] = rng.choice(late)      # a late introspection field, started after another request
            hub = MultiHub(n)
            b.gate = hub.gate
            b.calls.clear()
            rr = random.Random(rng.getrandbits(32))
            try:
                ctxs = [{"req": j, "tag": f"r{j}", "notes": [], "hide": idxs[j] % 3 == 1} for j in range(n)]
                results, trace, left = drive(loop, lambda: [b.engine.execute(pool[i][0], operation_name=pool[i][1], variables=pool[i][2], context=ctxs[j]) for j, i in enumerate(idxs)],
                                             hub.hubs, lambda p: rr.randrange(len(p)))
            except Exception as e:
                stats["problems"].append({"what": [f"driver: {e}"], "family": [pool[i][0] for i in idxs]}); b.gate = None; continue
            b.gate = None
            stats["evaluations"] += 1; stats["requests"] += n
            inflight = max((len({x[0] for x in p}) for p in trace), default=0)
            stats["max_in_flight"] = max(stats["max_in_flight"], inflight)
            if inflight >= 2: stats["nontrivial"].add(hashlib.sha256(json.dumps([idxs, si, fi]).encode()).hexdigest()[:16])
            pr = []
            diffs = []
            for j, i in enumerate(idxs):
                got = (canon(results[j][1]) if results[j][0] == "ok" else f"raised {type(results[j][1]).__name__}") + "|notes=" + json.dumps(sorted(map(str, ctxs[j]["notes"])) + calls_of(b.calls, j))
                if got != solo_fresh[i]:
                    pr.append(f"request #{j} answered differently in flight with {n - 1} other request(s) than alone")
                    diffs.append({"request": j, "alone": solo_fresh[i], "in_flight": got})
            # every error speaks about ITS OWN request: its path lies in that response, its locations in that document (what
            # another request - in flight or earlier in the process - left behind shows up as a foreign path / location)
            for j, i in enumerate(idxs):
                if results[j][0] == "ok" and isinstance(pool[i][0], str) and (results[j][1].get("errors")):
                    try:
                        import oracles as orc
                        r_ = results[j][1]
                        shape = [x for x in orc.check_errors(er.parse_doc(pool[i][0]), enc(r_.get("data")), er.canon_errors(r_.get("errors")), r_.get("errors"))
                                 if "does not exist in data" in x or "absent from data" in x or "outside the query" in x]
                    except Exception:
                        shape = []
                    if shape: pr.append(f"request #{j}: {shape[0]}"); break
            # contexts must not leak: every resolver call carries the context of its own request
            for call in b.calls:
                ctx = call.get("ctx")
                if not isinstance(ctx, dict) or "req" not in ctx: pr.append("resolver called without its request's context"); break
            if left: pr.append("tasks left pending after all requests returned")
            # afterwards the engine behaves as a fresh one
            probe = rng.randrange(len(pool))
            r2 = solo(b, pool[probe], 1, hide=(probe % 3 == 1))
            got2 = (canon(r2[1]) if r2[0] == "ok" else f"raised {type(r2[1]).__name__}") + "|notes=" + json.dumps(r2[2])
            if got2 != solo_fresh[probe]:
                pr.append("a request issued afterwards behaves differently from the same request on a fresh engine")
                diffs.append({"request_afterwards": {"query": pool[probe][0], "operation_name": pool[probe][1], "variables": pool[probe][2]}, "fresh": solo_fresh[probe], "afterwards": got2})
            if pr:
                stats["problems"].append({"what": pr[:4], "diffs": diffs[:2], "family": [{"query": pool[i][0], "operation_name": pool[i][1], "variables": pool[i][2]} for i in idxs], "sdl": print_sdl(b.model), "env": renv})
            if len(stats["samples"]) < 3 and inflight >= 2:
                stats["samples"].append({"in_flight": n, "queries": [pool[i][0][:200] for i in idxs], "interleaving_steps": len(trace)})
    loop.close()
    return stats

if __name__ == "__main__":
    tier = sys.argv[1] if len(sys.argv) > 1 else "quick"
    seed = int(sys.argv[2]) if len(sys.argv) > 2 else 0
    v = fw.Verdict("C15", tier, seed)
    b = fw.build("C15", thorough=(tier == "thorough"))
    stats = explore(tier, seed)
    for p in stats["problems"][:3]:
        v.violation({"property": "C15", "seed": seed, **p, "undischarged_theorems": b["failing"]})
    if not stats["problems"] and not b["sound"]:
        v.violation({"property": "C15", "seed": seed, "what": "proof obligation broken; no interfering requests found", "undischarged_theorems": b["failing"],
                     "failed_dependency": b.get("failed_dependency"), "build_log_tail": b["build_log"][-1500:], "families_run": stats["evaluations"]}, no_input=True)
    cov = fw.proof_coverage(b, {
        "evaluations": stats["evaluations"], "distinct_nontrivial": len(stats["nontrivial"]),
        "rule": "families of 2-5 requests (valid, failing, variable-refused, validation-refused, syntax errors, unknown operation names, introspection; same and different documents) in flight on one engine, interleaved by a seeded random schedule over the union of awaited resolvers; each response compared with the response of the same request alone on an engine that never saw concurrent traffic; afterwards a probe request is compared with the fresh engine; non-trivial = at least two requests awaiting resolvers at the same time",
        "requests": stats["requests"], "max_requests_in_flight": stats["max_in_flight"], "problems": len(stats["problems"]), "samples": stats["samples"] or [{"note": "none"}]})
    sys.exit(v.finish("proof", cov, c08.ASSUME + ["isolation is proved of the model, where requests share no mutable state by construction; that the Python keeps request state out of shared objects is established by this differential run, not by proof (partial)"]))
