#!/bin/bash
# usage: seedtest.sh <mutant dir with patch.diff demo.py meta.json> <worktree> <check ids...>
# confirms the seeded change in a scratch worktree (demo passes clean / fails changed, pinned suite unchanged)
# and runs the checks against that worktree (VERIF_REPO); never touches /repo.
D="$1"; W="$2"; shift; shift
cd "$W" || exit 2
git checkout -q -- . ; git diff --quiet || { echo "worktree dirty"; exit 2; }
trap "git -C $W checkout -q -- . 2>/dev/null" EXIT
/venv/bin/python "$D/demo.py" "$W" >/dev/null 2>&1; clean=$?
git apply "$D/patch.diff" || { echo "patch does not apply"; exit 2; }
/venv/bin/python "$D/demo.py" "$W" >/dev/null 2>&1; changed=$?
pinned=$(/venv/bin/python -m pytest -ra -q -p no:cacheprovider --timeout=900 --continue-on-collection-errors 2>&1 | tail -1)
echo "demo clean=$clean changed=$changed pinned: $pinned"
cd /verif
for c in "$@"; do
  # the run below is against a PATCHED tree: keep the committed evidence file (written by runs against /repo itself)
  bak=$(mktemp); cp "evidence/$c.json" "$bak" 2>/dev/null
  res=$(VERIF_REPO="$W" timeout 900 ./check "$c" 2>&1); rc=$?; cp "$bak" "evidence/$c.json" 2>/dev/null; rm -f "$bak"; out=$(echo "$res" | grep -c "^VIOLATION"); inp=$(echo "$res" | grep "^VIOLATION" | head -1)
  echo "  check $c: violations=$out :: $inp$([ $rc -gt 1 ] && echo " [exit $rc: no verdict]")"
done
