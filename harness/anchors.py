"""Anchored sources: which of the repository files a property's model was written from have changed since
the model was written.  For every property the files named in properties.jsonl `anchors.files` are hashed on
their AST (comments / formatting / docstrings do not count); `anchors.golden.json` (committed) holds the hashes
the hand-written models correspond to.  A changed file proves nothing by itself — the correspondence run
decides — but it is reported in the evidence and makes the check explore more (framework.BOOST).
  python anchors.py --update     rewrite anchors.golden.json from the current tree (after a `fix:` commit)"""
import ast, hashlib, json, os, sys

HERE = os.path.dirname(os.path.abspath(__file__))
VERIF = os.path.dirname(HERE)
GOLDEN = os.path.join(VERIF, "anchors.golden.json")

def _strip_docstrings(tree):
    for node in ast.walk(tree):
        if isinstance(node, (ast.FunctionDef, ast.AsyncFunctionDef, ast.ClassDef, ast.Module)):
            b = node.body
            if b and isinstance(b[0], ast.Expr) and isinstance(getattr(b[0], "value", None), ast.Constant) and isinstance(b[0].value.value, str):
                node.body = b[1:] or [ast.Pass()]
    return tree

def file_hash(path):
    try:
        src = open(path, encoding="utf-8").read()
    except OSError:
        return "missing"
    if not path.endswith(".py"): return hashlib.sha256(src.encode()).hexdigest()[:16]
    try:
        return hashlib.sha256(ast.dump(_strip_docstrings(ast.parse(src))).encode()).hexdigest()[:16]
    except SyntaxError:
        return "syntax-error"

def anchored_files():
    out = {}
    for l in open(os.path.join(VERIF, "properties.jsonl")):
        p = json.loads(l)
        out[p["id"]] = [f for f in p["anchors"]["files"] if f.endswith(".py")]
    return out

def current(repo):
    return {pid: {f: file_hash(os.path.join(repo, f)) for f in files} for pid, files in anchored_files().items()}

def changed(repo, pid):
    if not os.path.exists(GOLDEN): return ["<no anchors.golden.json>"]
    gold = json.load(open(GOLDEN)).get(pid, {})
    cur = current(repo).get(pid, {})
    return sorted(f for f in cur if gold.get(f) != cur[f])

if __name__ == "__main__":
    import env
    if "--update" in sys.argv:
        json.dump(current(env.REPO), open(GOLDEN, "w"), indent=1, sort_keys=True); print("updated", GOLDEN)
    else:
        for pid in anchored_files(): print(pid, changed(env.REPO, pid))
