#!/usr/bin/env python3
"""py2lean: translate a whitelist of pure synchronous tartiflette functions from the
working tree of the repository into Lean 4 definitions (T-tier of DESIGN.md §3.4).

Usage: py2lean.py <repo> <outdir>
Writes <outdir>/Scalars.lean (+ Tables.lean) and prints a JSON report on stdout:
  {"functions": {...sha...}, "untranslatable": [...]}
Emitted normal form: no `do`; `bindE`, `tryExcept`-style explicit matches; one def per
`try:` body (`<fn>.tryN`), returning `Ctl` (returned value | fell through with locals).
Anything outside the supported subset raises Untranslatable -> the function is emitted
as a *missing* definition so that every theorem about it fails to compile (obligation
broken, DESIGN §5) instead of silently passing.
"""
import ast, hashlib, json, os, sys

class Untranslatable(Exception):
    pass

EXC_MAP = {"TypeError": ".typeError", "ValueError": ".valueError", "OverflowError": ".overflowError",
           "KeyError": ".keyError", "AttributeError": ".attributeError", "Exception": ".other"}
NODE_CLASSES = {"IntValueNode", "FloatValueNode", "StringValueNode", "BooleanValueNode", "EnumValueNode",
                "NullValueNode", "ListValueNode", "ObjectValueNode", "VariableNode"}

def lean_str(s):
    return json.dumps(s, ensure_ascii=False).replace("\\u0001", "\\x01")

class FnTranslator:
    def __init__(self, qualname, fn, module_consts, known_funcs):
        self.q = qualname
        self.fn = fn
        self.consts = module_consts
        self.known = known_funcs
        self.aux = []          # auxiliary defs (try bodies)
        self.ntry = 0
        self.nv = 0
        args = [a.arg for a in fn.args.args]
        if args and args[0] == "self":
            args = args[1:]
        self.params = args

    def fresh(self, base="t"):
        self.nv += 1
        return f"{base}_{self.nv}"

    # ---- expressions -----------------------------------------------------------------
    # each returns (kind, term): kind 'val' = PyVal, 'res' = PyR, 'bool' = Bool, 'rbool' = Except PyExc Bool
    def bind(self, kt, k):
        kind, term = kt
        if kind in ("val", "bool"):
            return k(term)
        v = self.fresh()
        return f"(bindE ({term}) (fun {v} => {k(v)}))"

    def as_val(self, kt):
        """kind/term -> ('val'|'res', term) of PyVal / PyR"""
        kind, term = kt
        if kind == "bool":
            return ("val", f"(PyVal.bool {term})")
        if kind == "rbool":
            v = self.fresh()
            return ("res", f"(bindE ({term}) (fun {v} => Except.ok (PyVal.bool {v})))")
        return kt

    def as_cond(self, kt):
        kind, term = kt
        if kind == "val":
            return ("bool", f"(py_truthy {term})")
        if kind == "res":
            v = self.fresh()
            return ("rbool", f"(bindE ({term}) (fun {v} => Except.ok (py_truthy {v})))")
        return kt

    def to_res(self, kt):
        kind, term = self.as_val(kt)
        return term if kind == "res" else f"(Except.ok {term})"

    def to_rbool(self, kt):
        kind, term = self.as_cond(kt)
        return term if kind == "rbool" else f"(Except.ok {term})"

    def E(self, e, env):
        if isinstance(e, ast.Constant):
            v = e.value
            if v is None: return ("val", "PyVal.none")
            if v is True: return ("bool", "true")
            if v is False: return ("bool", "false")
            if isinstance(v, int): return ("val", f"(PyVal.int ({v}))")
            if isinstance(v, str): return ("val", f"(PyVal.str {lean_str(v)})")
            raise Untranslatable(f"constant {v!r}")
        if isinstance(e, ast.Name):
            if e.id in env: return ("val", env[e.id])
            if e.id in self.consts: return ("val", f"C{e.id}")
            if e.id == "UNDEFINED_VALUE": return ("val", "PyVal.undef")
            raise Untranslatable(f"name {e.id}")
        if isinstance(e, ast.JoinedStr):
            return ("val", "(PyVal.str opaqueStr)")
        if isinstance(e, ast.Attribute):
            if e.attr == "value":
                return self._call1("py_attr_value", e.value, env, "res")
            raise Untranslatable(f"attribute .{e.attr}")
        if isinstance(e, ast.UnaryOp) and isinstance(e.op, ast.Not):
            c = self.as_cond(self.E(e.operand, env))
            if c[0] == "bool": return ("bool", f"(!{c[1]})")
            v = self.fresh()
            return ("rbool", f"(bindE ({c[1]}) (fun {v} => Except.ok (!{v})))")
        if isinstance(e, ast.BoolOp):
            conds = [self.as_cond(self.E(x, env)) for x in e.values]
            is_and = isinstance(e.op, ast.And)
            for x in e.values:
                if not self._boolish(x) and not getattr(self, "_in_cond", False):
                    raise Untranslatable("and/or with non-boolean operand in value context")
            if all(k == "bool" for k, _ in conds):
                return ("bool", "(" + (" && " if is_and else " || ").join(t for _, t in conds) + ")")
            # short-circuit chain
            term = self.to_rbool(conds[-1])
            for c in reversed(conds[:-1]):
                short = "Except.ok false" if is_and else "Except.ok true"
                if c[0] == "bool":
                    term = (f"(if {c[1]} then {term} else {short})" if is_and
                            else f"(if {c[1]} then {short} else {term})")
                else:
                    v = self.fresh()
                    body = (f"if {v} then {term} else {short}" if is_and else f"if {v} then {short} else {term}")
                    term = f"(bindE ({c[1]}) (fun {v} => {body}))"
            return ("rbool", term)
        if isinstance(e, ast.Compare):
            operands = [e.left] + list(e.comparators)
            ops = e.ops
            vals = [self.as_val(self.E(x, env)) for x in operands]
            # bind every effectful operand first (left to right)
            def build(i, names):
                if i == len(vals):
                    return self._cmp_chain(ops, names)
                return self.bind(vals[i], lambda t: build(i + 1, names + [t]))
            if all(k == "val" for k, _ in vals):
                return self._cmp_chain_kt(ops, [t for _, t in vals])
            # effectful operands: result is rbool
            def build2(i, names):
                if i == len(vals):
                    return self.to_rbool(self._cmp_chain_kt(ops, names))
                return self.bind(vals[i], lambda t: build2(i + 1, names + [t]))
            return ("rbool", build2(0, []))
        if isinstance(e, ast.IfExp):
            prev = getattr(self, "_in_cond", False)
            self._in_cond = True          # the test of a conditional expression is a truth-value context
            try:
                c = self.as_cond(self.E(e.test, env))
            finally:
                self._in_cond = prev
            a = self.to_res(self.E(e.body, env)); b = self.to_res(self.E(e.orelse, env))
            if c[0] == "bool":
                return ("res", f"(if {c[1]} then {a} else {b})")
            v = self.fresh()
            return ("res", f"(bindE ({c[1]}) (fun {v} => if {v} then {a} else {b}))")
        if isinstance(e, ast.Call):
            return self.call(e, env)
        raise Untranslatable(f"expression {type(e).__name__}")

    def _boolish(self, x):
        if isinstance(x, (ast.Compare, ast.BoolOp)): return True
        if isinstance(x, ast.UnaryOp) and isinstance(x.op, ast.Not): return True
        if isinstance(x, ast.Call) and isinstance(x.func, ast.Name) and x.func.id in ("isinstance", "isfinite", "is_integer"): return True
        if isinstance(x, ast.Constant) and isinstance(x.value, bool): return True
        return False

    def _cmp_chain_kt(self, ops, names):
        parts = []
        effect = False
        for i, op in enumerate(ops):
            a, b = names[i], names[i + 1]
            if isinstance(op, ast.Eq): parts.append(("bool", f"(py_eq {a} {b})"))
            elif isinstance(op, ast.NotEq): parts.append(("bool", f"(!py_eq {a} {b})"))
            elif isinstance(op, ast.LtE): parts.append(("rbool", f"(py_le {a} {b})")); effect = True
            elif isinstance(op, ast.GtE): parts.append(("rbool", f"(py_le {b} {a})")); effect = True
            elif isinstance(op, ast.Is): parts.append(("bool", f"(py_is {a} {b})"))
            elif isinstance(op, ast.IsNot): parts.append(("bool", f"(!py_is {a} {b})"))
            else: raise Untranslatable(f"comparison {type(op).__name__}")
        if not effect:
            return ("bool", "(" + " && ".join(t for _, t in parts) + ")")
        term = self.to_rbool(parts[-1])
        for c in reversed(parts[:-1]):
            if c[0] == "bool":
                term = f"(if {c[1]} then {term} else Except.ok false)"
            else:
                v = self.fresh()
                term = f"(bindE ({c[1]}) (fun {v} => if {v} then {term} else Except.ok false))"
        return ("rbool", term)

    def _call1(self, leanfn, arg, env, kind):
        a = self.as_val(self.E(arg, env))
        if a[0] == "val":
            return (kind, f"({leanfn} {a[1]})")
        v = self.fresh()
        inner = f"({leanfn} {v})"
        if kind in ("val", "bool"):
            inner = f"(Except.ok {inner})"
            kind = "res" if kind == "val" else "rbool"
        return (kind, f"(bindE ({a[1]}) (fun {v} => {inner}))")

    def call(self, e, env):
        if not isinstance(e.func, ast.Name):
            raise Untranslatable("call of non-name")
        f = e.func.id
        if e.keywords: raise Untranslatable("keyword arguments")
        if f == "isinstance":
            x, t = e.args
            names = [n.id for n in t.elts] if isinstance(t, ast.Tuple) else [t.id]
            tests = []
            if all(n in NODE_CLASSES for n in names):
                lst = "[" + ", ".join(lean_str(n) for n in names) + "]"
                return self._call1(f"py_is_node {lst}", x, env, "bool")
            if len(names) == 1 and names[0] in ("bool", "int", "float", "str"):
                return self._call1(f"py_is_{names[0]}", x, env, "bool")
            raise Untranslatable(f"isinstance against {names}")
        simple = {"int": ("py_int", "res"), "float": ("py_float o", "res"), "str": ("py_str", "res"),
                  "bool": ("py_bool", "res"), "isfinite": ("py_isfinite", "rbool"), "floor": ("py_floor", "res")}
        if f in simple and len(e.args) == 1:
            return self._call1(simple[f][0], e.args[0], env, simple[f][1])
        if f in self.known and len(e.args) == 1:
            return self._call1(f"{self.known[f]} o", e.args[0], env, "res")
        raise Untranslatable(f"call {f}/{len(e.args)}")

    # ---- statements -------------------------------------------------------------------
    def assigned(self, stmts):
        out = []
        for s in stmts:
            if isinstance(s, ast.Assign):
                for t in s.targets:
                    if isinstance(t, ast.Name) and t.id not in out: out.append(t.id)
            elif isinstance(s, ast.If):
                for n in self.assigned(s.body) + self.assigned(s.orelse):
                    if n not in out: out.append(n)
            elif isinstance(s, ast.Try):
                for n in self.assigned(s.body) + sum((self.assigned(h.body) for h in s.handlers), []):
                    if n not in out: out.append(n)
        return out

    def used(self, stmts):
        names = set()
        for s in stmts:
            for n in ast.walk(s):
                if isinstance(n, ast.Name): names.add(n.id)
        return names

    def S(self, stmts, env, mode):
        """mode = ('fn',) | ('try', [fallvars])"""
        if not stmts:
            if mode[0] == "fn": return "(Except.ok PyVal.none)"
            vs = mode[1]
            tup = "()" if not vs else ("(" + ", ".join(env[v] for v in vs) + ")")
            return f"(Except.ok (Ctl.fall {tup}))"
        s, rest = stmts[0], stmts[1:]
        if isinstance(s, ast.Pass) or (isinstance(s, ast.Expr) and isinstance(s.value, ast.Constant)):
            return self.S(rest, env, mode)
        if isinstance(s, ast.Return):
            kt = self.as_val(self.E(s.value, env)) if s.value is not None else ("val", "PyVal.none")
            if mode[0] == "fn":
                return self.to_res(kt)
            return self.bind(kt, lambda t: f"(Except.ok (Ctl.ret {t}))")
        if isinstance(s, ast.Raise):
            exc = s.exc
            name = exc.func.id if isinstance(exc, ast.Call) else (exc.id if isinstance(exc, ast.Name) else None)
            if name not in EXC_MAP: raise Untranslatable(f"raise {name}")
            return f"(Except.error {EXC_MAP[name]})"
        if isinstance(s, ast.Assign):
            if len(s.targets) != 1 or not isinstance(s.targets[0], ast.Name):
                raise Untranslatable("assignment target")
            name = s.targets[0].id
            kt = self.as_val(self.E(s.value, env))
            def k(t):
                if t.isidentifier() or t.startswith("(PyVal.") or t.startswith("PyVal.") or t.startswith("C_"):
                    env2 = dict(env); env2[name] = t
                    return self.S(rest, env2, mode)
                v = self.fresh(name)
                env2 = dict(env); env2[name] = v
                return f"(let {v} := {t}; {self.S(rest, env2, mode)})"
            return self.bind(kt, k)
        if isinstance(s, ast.If):
            self._in_cond = True
            c = self.as_cond(self.E(s.test, env))
            self._in_cond = False
            a = self.S(self._trim(s.body + rest if not self._terminates(s.body) else s.body), env, mode)
            b = self.S(self._trim(s.orelse + rest if not self._terminates(s.orelse) else s.orelse), env, mode)
            if c[0] == "bool":
                return f"(if {c[1]} then {a} else {b})"
            v = self.fresh()
            return f"(bindE ({c[1]}) (fun {v} => if {v} then {a} else {b}))"
        if isinstance(s, ast.Try):
            if s.orelse or s.finalbody or len(s.handlers) != 1:
                raise Untranslatable("try with else/finally/several handlers")
            h = s.handlers[0]
            if not (isinstance(h.type, ast.Name) and h.type.id == "Exception"):
                raise Untranslatable("except clause other than `except Exception`")
            self.ntry += 1
            auxname = f"{self.q}.try{self.ntry}"
            fallvars = [v for v in self.assigned(s.body) if v in self.used(rest) | self.used(h.body)]
            live = [v for v in env]   # pass every live variable
            # body env: live variables become parameters of the aux def
            benv = {v: v + "_p" for v in live}
            body = self.S(s.body, benv, ("try", fallvars))
            sigma = "Unit" if not fallvars else " × ".join("PyVal" for _ in fallvars)
            params = " ".join(f"({benv[v]} : PyVal)" for v in live)
            self.aux.append(f"def {auxname} (o : Oracle) {params} : Except PyExc (Ctl ({sigma})) :=\n  {body}\n")
            callargs = " ".join(env[v] for v in live)
            handler = self.S(self._trim(h.body + rest if not self._terminates(h.body) else h.body), env, mode)
            rv = self.fresh("r")
            retk = f"(Except.ok {rv})" if mode[0] == "fn" else f"(Except.ok (Ctl.ret {rv}))"
            env2 = dict(env)
            pat = "()" if not fallvars else "(" + ", ".join(self._fv(v, env2) for v in fallvars) + ")"
            restt = self.S(rest, env2, mode)
            return (f"(match {auxname} o {callargs} with\n    | Except.error _ => {handler}\n"
                    f"    | Except.ok (Ctl.ret {rv}) => {retk}\n    | Except.ok (Ctl.fall {pat}) => {restt})")
        raise Untranslatable(f"statement {type(s).__name__}")

    def _fv(self, v, env2):
        n = self.fresh(v); env2[v] = n; return n

    def _terminates(self, stmts):
        for s in stmts:
            if isinstance(s, (ast.Return, ast.Raise)): return True
            if isinstance(s, ast.If) and s.orelse and self._terminates(s.body) and self._terminates(s.orelse): return True
        return False

    def _trim(self, stmts):
        out = []
        for s in stmts:
            out.append(s)
            if isinstance(s, (ast.Return, ast.Raise)): break
        return out

    def translate(self):
        env = {p: p for p in self.params}
        body = self.S(self.fn.body, env, ("fn",))
        params = " ".join(f"({p} : PyVal)" for p in self.params)
        main = f"def {self.q} (o : Oracle) {params} : PyR :=\n  {body}\n"
        return "\n".join(self.aux) + ("\n" if self.aux else "") + main


def norm_hash(node):
    return hashlib.sha256(ast.dump(node, annotate_fields=False, include_attributes=False).encode()).hexdigest()[:16]

SCALAR_FILES = [("int", "ScalarInt"), ("float", "ScalarFloat"), ("string", "ScalarString"),
                ("boolean", "ScalarBoolean"), ("id", "ScalarID")]
METHODS = ["coerce_output", "coerce_input", "parse_literal"]

def strip_doc(fn):
    if fn.body and isinstance(fn.body[0], ast.Expr) and isinstance(fn.body[0].value, ast.Constant) and isinstance(fn.body[0].value.value, str):
        fn.body = fn.body[1:] or [ast.Pass()]
    return fn

def translate_scalars(repo):
    report = {"functions": {}, "untranslatable": []}
    out = ["import TartModel.Base.PyPrims",
           "/- GENERATED by harness/py2lean.py from the repository working tree. Do not edit. -/",
           "set_option linter.unusedVariables false", "namespace Tart.Gen", "open Tart", ""]
    known = {}
    # utils/values.py : is_integer
    src = open(os.path.join(repo, "tartiflette/utils/values.py")).read()
    mod = ast.parse(src)
    for n in mod.body:
        if isinstance(n, ast.FunctionDef) and n.name == "is_integer":
            strip_doc(n)
            report["functions"]["utils.values.is_integer"] = norm_hash(n)
            try:
                out.append(FnTranslator("is_integer", n, {}, {}).translate())
                known["is_integer"] = "is_integer"
            except Untranslatable as e:
                report["untranslatable"].append(["utils.values.is_integer", str(e)])
    for fname, cls in SCALAR_FILES:
        path = os.path.join(repo, f"tartiflette/scalar/builtins/{fname}.py")
        mod = ast.parse(open(path).read())
        consts = {}
        for n in mod.body:
            if isinstance(n, ast.Assign) and len(n.targets) == 1 and isinstance(n.targets[0], ast.Name):
                nm = n.targets[0].id
                try:
                    val = ast.literal_eval(n.value)
                except Exception:
                    continue
                if isinstance(val, int) and nm.startswith("_"):
                    consts[nm] = val
                    out.append(f"def C{nm} : PyVal := PyVal.int ({val})")
                    out.append(f"def I{nm} : Int := ({val})\n")
        # module-level helper functions of one parameter (e.g. a range test factored out of the methods)
        local_known = dict(known)
        for n in mod.body:
            if isinstance(n, ast.FunctionDef) and len(n.args.args) == 1 and not n.args.kwonlyargs and not n.decorator_list:
                strip_doc(n)
                q = f"{cls}.helper.{n.name}"
                report["functions"][q] = norm_hash(n)
                try:
                    out.append(FnTranslator(q, n, consts, local_known).translate())
                    local_known[n.name] = q
                except Untranslatable as e:
                    report["untranslatable"].append([q, str(e)])
                    out.append(f"-- UNTRANSLATABLE {q}: {e}\n")
        for n in mod.body:
            if isinstance(n, ast.ClassDef) and n.name == cls:
                for m in n.body:
                    if isinstance(m, ast.FunctionDef) and m.name in METHODS:
                        strip_doc(m)
                        q = f"{cls}.{m.name}"
                        report["functions"][q] = norm_hash(m)
                        try:
                            out.append(FnTranslator(q, m, consts, local_known).translate())
                        except Untranslatable as e:
                            report["untranslatable"].append([q, str(e)])
                            out.append(f"-- UNTRANSLATABLE {q}: {e}\n")
    out.append("end Tart.Gen")
    return "\n".join(out) + "\n", report

def main():
    repo, outdir = sys.argv[1], sys.argv[2]
    os.makedirs(outdir, exist_ok=True)
    text, report = translate_scalars(repo)
    path = os.path.join(outdir, "Scalars.lean")
    old = open(path).read() if os.path.exists(path) else None
    if old != text:
        open(path, "w").write(text)
    report["changed"] = old != text
    print(json.dumps(report))

if __name__ == "__main__":
    main()
