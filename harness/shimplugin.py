"""pytest plugin: install the parser substitute before tartiflette is imported."""
import gqlshim
gqlshim.install()
