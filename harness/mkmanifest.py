"""Regenerates MANIFEST.json from the table below (keeps it valid at all times)."""
import json, os
HERE = os.path.dirname(os.path.abspath(__file__)); VERIF = os.path.dirname(HERE)
props = [json.loads(l) for l in open(os.path.join(VERIF, "properties.jsonl"))]
CLAIMED = {
 "C01": ("proof", "Lean theorems about the executable executor model (Impl/Exec.lean: collection order/uniqueness, one resolver call per collected key, result dictionary = collected keys in order) + differential correspondence of that model with the real engine on generated valid requests (data, resolver call log incl. parent/arguments, error paths/locations); the model is the June-2018 algorithm written executably, so a data difference is itself a failing input.",
         "H-tier: hand-written model tied by correspondence only; parser substitute; modelled Python value universe.", "Lean 4 proof over hand-written model + model/implementation correspondence"),
 "C02": ("proof", "Lean theorems on the executor model (errors only appended, every raised/nulling failure carries at least one located error, error paths extend the failing field's path) + correspondence under fault injection + independent oracle on the real answers (error shape, path nulled in data, locations inside the field's text).",
         "as C01; messages are opaque.", "Lean 4 proof over hand-written model + correspondence under fault enumeration"),
 "C03": ("proof", "Lean theorems (leaf results have the wire type by the C10 theorems over generated scalar code; structural conformance of completed values) + correspondence with adversarial resolver values + independent conformance oracle and strict JSON serialisation of every real response.",
         "as C01; values outside the modelled universe (Decimal, numpy, hostile dunder methods) not covered.", "Lean 4 proof over model + correspondence"),
 "C04": ("proof", "Lean theorems on Impl/Input.lean (typed results of variable coercion, refusal cases) + correspondence + independent Python implementation of CoerceVariableValues evaluated against the real engine (refused iff invalid, offenders reported, resolvers observe spec-coerced values).",
         "as C01.", "Lean 4 proof over model + correspondence + spec oracle"),
 "C05": ("proof", "Lean theorems on argument/literal coercion + correspondence + metamorphic literal/variable/default cases + independent CoerceArgumentValues oracle. One known finding (variables nested in list/object literals are untyped) is listed and excluded by a class predicate.",
         "as C01; typed-delivery theorem is partial (nested variables).", "Lean 4 proof over model + correspondence + metamorphic oracle"),
 "C08": ("proof", "Lean theorems over the task-tree semantics for EVERY tree, pure answer function and schedule: result independent of the schedule and errors a permutation (schedule_independent), bounded length and no stuck state (termination), only awaited resolvers complete and each is consumed once, sequential = concurrent denotation; + correspondence: the real engine is driven by a controlled event loop under first/last/random/exhaustive schedules on 4-8 concurrency configurations and must show the model's awaited-gate sets at every quiescent point and the model's response.",
         "asyncio abstracted to 'any awaited resolver may complete next'; the request's task tree (Impl/ExecT.lean) is hand-written and tied by correspondence; tree vs direct executor model checked per request (not a theorem).", "Lean 4 proof over task-tree semantics + schedule-level correspondence"),
 "C09": ("proof", "Lean theorems: while a root field (with its whole sub-selection) is in flight only its own resolvers can complete (next_root_not_started), serial denotation, nullable failure continues / non-null failure aborts and nulls data, root keys in document order; + correspondence on mutation requests under all schedule policies with an oracle on the real start/finish event log.",
         "as C08.", "Lean 4 proof over task-tree semantics + schedule-level correspondence"),
 "C15": ("proof", "Lean theorem: for a family of requests stepped in any interleaving, each finished request has its solo result and (up to order) its solo errors (isolation) — proved of the model, where requests share no mutable state by construction; the differential check runs 2-5 real requests in flight under random interleavings and compares each with its solo run on an engine that never saw concurrent traffic, then probes the engine afterwards. PARTIAL: absence of shared mutable request state in the Python is established by the differential run, not by proof.",
         "as C08; partial.", "Lean 4 proof over a product of task trees + differential interleaving check"),
 "C18": ("proof", "Lean theorems over the request envelope (Impl/Engine.lean) for every parser outcome, operation name, variables and total error coercer: `errors` present iff non-empty, coercer applied exactly once per error in order, refused requests and failed operation selection run nothing and null data, data null only with errors; + shape oracle on real responses for valid, mutated, junk and byte inputs, odd variables objects, and counting/rewriting error coercers. PARTIAL: text -> parser outcome is outside the model (native parser absent).",
         "parser substitute; total error coercers only.", "Lean 4 proof over envelope model + response-shape oracle"),
 "C10": ("proof", "Lean theorems (wire type + same value of result coercion, exact accepted input kinds, literal = variable, idempotence, for Int/Float/String/Boolean/ID) about definitions regenerated from the repository's scalar sources on every run; translator validated against the real functions on a boundary table and random values; Date/Time/DateTime by evaluation only.",
         "Trusted: Lean kernel; py2lean translator (validated per run); Base/PyPrims.lean (validated by the same corpus); CPython float(str) as oracle; Date/Time/DateTime not modelled (partial).", "Lean 4 proof over a model regenerated from source (translator) + translation validation"),
}
checks = []
for pid, (cat, text, note, tech) in CLAIMED.items():
    checks.append({"property_id": pid, "quick_cmd": f"./check {pid} --tier quick", "thorough_cmd": f"./check {pid} --tier thorough",
                   "evidence_file": f"evidence/{pid}.json", "replay_cmd_template": f"./check {pid} --replay {{path}}", "engine": "lean-model",
                   "level_claimed": {"category": cat, "text": text, "design_ref": f"DESIGN.md §8 {pid}"}, "level_note": note, "technique": tech})
man = {"version": 1, "setup_cmd": "./setup.sh",
 "hooks": {"guard": "TARTIFLETTE_VERIF", "enable": "no source hooks: every observation point (resolvers, type resolvers, directive hooks, scalars, error coercers, cache decorators, event loop) is a harness-side object; checks export TARTIFLETTE_VERIF=1 for uniformity",
           "baseline_off_cmd": "cd /repo && /venv/bin/python -m pytest -ra -q -p no:cacheprovider --timeout=900 --continue-on-collection-errors", "source_commits": [], "add_only": True},
 "engines": [{"name": "lean-model", "path": "lean/", "serves_properties": sorted(CLAIMED), "kind_free_text": "Lean 4 model + theorems; T-tier regenerated from /repo by harness/py2lean.py, H-tier tied by correspondence through the compiled driver lean/Driver"}],
 "checks": checks,
 "not_applicable": [{"property_id": p["id"], "reason": "check not built yet in this round (work in progress; see DESIGN.md §10 build order)"} for p in props if p["id"] not in CLAIMED],
 "notes": "See DESIGN.md. Known findings protocol: known_findings.json (fixed entries suppress nothing)."}
json.dump(man, open(os.path.join(VERIF, "MANIFEST.json"), "w"), indent=1)
print("claimed", sorted(CLAIMED))
