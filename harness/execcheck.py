"""Shared decision procedure of the execution-family checks (C01–C05, C18 …): build proofs,
correspondence real engine vs compiled Lean model on generated requests, independent oracle
pass on the real answers, verdict (DESIGN §5)."""
import env, asyncio, json, os, random, sys, time, hashlib
import framework as fw
import engine_runner as er
import oracles as orc
from gen import SchemaGen, DocGen, print_sdl, base, tstr
from model import Model
from pyval import same, dec, enc

def canon_call(c):
    return json.dumps([c["coord"], c["path"], c["parent"], c["args"]], sort_keys=True)

def diff_resp(real, mod):
    d = []
    if not same(mod["data"], real["data"]): d.append("data")
    re_ = set(json.dumps([e["path"], e["locations"]]) for e in real["errors"])
    me = set(json.dumps([e["path"], sorted([l["line"], l["column"]] for l in e["locations"])]) for e in mod["errors"])
    if re_ != me: d.append("errors")
    # library errors keep their user message and extensions
    for e in mod["errors"]:
        if e["tart"] and e["message"]:
            ok = any(r["path"] == e["path"] and r["message"] == e["message"] and
                     (json.dumps(enc(r["extensions"] or {}), sort_keys=True) == json.dumps(e["extensions"], sort_keys=True)) for r in real["errors"])
            if not ok: d.append("tart-error-payload")
    if sorted(map(canon_call, real["calls"])) != sorted(map(canon_call, mod["calls"])): d.append("calls")
    return d

class Case:
    __slots__ = ("sg", "renv", "b", "query", "op", "variables", "root", "doc", "real", "mod", "tags")

async def run_case(m, b, renv, query, op, variables, root=None):
    c = Case()
    c.b, c.renv, c.query, c.op, c.variables, c.root = b, renv, query, op, variables, root
    c.real = await er.run_request(b, query, op, variables, root)
    req = er.model_request(b, query, op, variables, root, renv)
    c.doc = req["doc"]
    c.mod = m.ask(req) if m is not None else None
    return c

def replay_payload(pid, c, seed, what, extra=None):
    p = {"property": pid, "seed": seed, "what": what, "sdl": print_sdl(c.b.model), "schema_model": c.b.model, "env": c.renv,
         "query": c.query, "operation_name": c.op, "variables": c.variables, "root": c.root,
         "observed": {"data": c.real["data"], "errors": c.real["errors"], "calls": c.real["calls"]},
         "model": ({"data": c.mod.get("data"), "errors": c.mod.get("errors"), "calls": c.mod.get("calls")} if c.mod else None)}
    if extra: p.update(extra)
    return p

# ---- oracles per property: (case) -> list of problem strings on the REAL answer ---------------------
def oracle_c01(c):
    pr = []
    if c.mod and "fail" not in c.mod:
        if not same(c.mod["data"], c.real["data"]): pr.append("data differs from the execution algorithm's result")
        if sorted(map(canon_call, c.real["calls"])) != sorted(map(canon_call, c.mod["calls"])): pr.append("resolver calls (coordinate, path, parent, arguments) differ from the algorithm's")
    pr += [p for p in orc.check_conforms(c.b.model, c.doc, c.op, c.variables, c.real["data"]) if p.startswith("keys ")]
    # "... and the caller's context": these requests are sent WITHOUT a context, every resolver must see None
    if any(call.get("ctx") is not None for call in c.real["calls"]): pr.append("a resolver received a context object although the caller passed none")
    return pr

def returned_exception_paths(c):
    """response paths at which a resolver RETURNED an exception instance (as its value, or as an item of the list /
    nested list it returned): each is a field failure and must be reported with exactly that path"""
    out = []
    def walk(v, path):
        if isinstance(v, dict) and "x" in v and "m" in v: out.append(path)
        elif isinstance(v, list):
            for i, x in enumerate(v): walk(x, path + [i])
    for call in c.real["calls"]:
        spec = (c.renv.get("resolvers") or {}).get(call["coord"])
        if spec and spec.get("k") == "const": walk(spec["v"], list(call["path"]))
    return out

def oracle_c02(c):
    pr = orc.check_errors(c.doc, c.real["data"], c.real["errors"], c.real["raw"].get("errors") or [])
    reported = [e.get("path") for e in c.real["errors"]]
    for p in returned_exception_paths(c):
        # (a failing ancestor may hide it; only required when the execution algorithm itself reports that path)
        algo = [e.get("path") for e in (c.mod or {}).get("errors", [])] if c.mod and "fail" not in c.mod else None
        if p not in reported and (algo is None or p in algo):
            pr.append(f"a resolver returned an exception instance at {p}: no error with that path is reported")
    pr += [p for p in orc.check_conforms(c.b.model, c.doc, c.op, c.variables, c.real["data"]) if p.startswith("null at non-null")]
    # "exceptions derived from the library's error class keep their user message and extensions"
    for call in c.real["calls"]:
        spec = (c.renv.get("resolvers") or {}).get(call["coord"]) or {}
        if spec.get("k") == "raise" and spec["v"].get("x") and not spec["v"].get("multi") and not spec["v"].get("foreign"):
            for e in c.real["errors"]:
                if e["path"] == list(call["path"]) and e["message"] != spec["v"]["m"]:
                    pr.append(f"the library error raised at {call['path']} is reported with message {e['message']!r}, its user message is {spec['v']['m']!r}"); break
    # "exactly the nearest nullable enclosing position becomes null and every other part of data is what it would be without
    # the failure": the data the failure rules prescribe is the execution algorithm's (Impl/Exec.lean run on this request)
    if c.mod and "fail" not in c.mod and not same(c.mod["data"], c.real["data"]):
        pr.append("data differs from what the failure rules prescribe (a failing position is not nulled, or a sound one is)")
    # (un-awaited coroutine warnings — the engine creates the coroutines of concurrent siblings before an inline sibling
    #  raises, under parent_concurrently=False — are outside the statement: counted in the evidence, not a problem)
    return pr

def oracle_c03(c):
    pr = orc.check_conforms(c.b.model, c.doc, c.op, c.variables, c.real["data"])
    # "whatever cannot be made to conform is replaced by null under the C02 rules": a look-alike put in its place ([] for a
    # non-list, a coerced stand-in for an unserialisable leaf) conforms and is still wrong
    if c.mod and "fail" not in c.mod and not same(c.mod["data"], c.real["data"]):
        pr.append("data differs from the algorithm's result: a value that cannot conform was replaced by something other than null (or a conforming one was dropped)")
    try:
        json.dumps(c.real["raw"], allow_nan=False)
    except Exception as e:
        pr.append(f"response not JSON-serialisable: {type(e).__name__}")
    return pr

def var_locs(op):
    out = {}
    for vd in op.get("variableDefinitions") or []:
        out[(vd["loc"]["start"]["line"], vd["loc"]["start"]["column"])] = vd["variable"]["name"]["value"]
        if vd.get("defaultValue"):
            out[(vd["defaultValue"]["loc"]["start"]["line"], vd["defaultValue"]["loc"]["start"]["column"])] = vd["variable"]["name"]["value"]
    return out

def root_arg_problems(c, sv, op, coerced):
    """root-level resolver calls must carry the spec's CoerceArgumentValues result"""
    pr = []
    root = sv.root(op["operation"])
    vs = orc.effective_bool_vars(op, c.variables)
    sub = orc.collect(sv, c.doc, root, op["selectionSet"], vs)
    fields = sv.fields(root)
    for call in c.real["calls"]:
        if len(call["path"]) != 1: continue
        nodes = sub.get(call["path"][0])
        if not nodes: pr.append(f"resolver called for unselected key {call['path']}"); continue
        fd = fields.get(nodes[0]["name"]["value"])
        if fd is None: continue
        try:
            exp = orc.coerce_arguments_spec(sv, fd["args"], nodes[0], coerced)
        except orc.Invalid:
            pr.append(f"resolver {call['coord']} ran although its arguments do not coerce"); continue
        got = dec(call["args"])
        for ad in fd["args"]:
            if ad["name"] in got and not orc.has_type(sv, ad["type"], got[ad["name"]]):
                pr.append(f"{call['coord']} received {got[ad['name']]!r} for argument {ad['name']}: {tstr(ad['type'])} (a value of another type)")
        if not orc.py_equal_typed(got, exp):
            pr.append(f"{call['coord']} received {got!r}, specification prescribes {exp!r}")
    # every selected root field with a resolver whose arguments coerce must have been called (once);
    # one whose arguments do not coerce must fail that field only
    if c.real["data"] is not None or any(e["path"] for e in c.real["errors"]):
        called = {}
        for call in c.real["calls"]:
            if len(call["path"]) == 1: called[call["path"][0]] = called.get(call["path"][0], 0) + 1
        resolvers = c.renv.get("resolvers") or {}
        for key, nodes in sub.items():
            fname = nodes[0]["name"]["value"]
            fd = fields.get(fname)
            if fd is None or f"{root}.{fname}" not in resolvers or resolvers[f"{root}.{fname}"]["k"] == "default": continue
            try:
                orc.coerce_arguments_spec(sv, fd["args"], nodes[0], coerced)
                ok = True
            except orc.Invalid:
                ok = False
            # (with sequential parent coercion a raising non-null sibling legitimately keeps later root fields from starting:
            #  "called" is required under the default, concurrent, configuration only; never more than once anywhere)
            if ok and called.get(key, 0) > 1:
                pr.append(f"resolver of selected field {root}.{fname} (key {key}) called {called.get(key, 0)} times")
            if ok and called.get(key, 0) != 1 and op["operation"] != "mutation" and not getattr(c.b, "cfg", None):
                pr.append(f"resolver of selected field {root}.{fname} (key {key}) called {called.get(key, 0)} times although its arguments coerce per the specification")
            # (when a non-null failure elsewhere nulled the whole of `data`, the other root fields may be abandoned before they
            # report anything: only a response that still has data must explain every failing root field)
            if not ok and c.real["data"] is not None and not any(e["path"] and e["path"][0] == key for e in c.real["errors"]):
                pr.append(f"arguments of {root}.{fname} (key {key}) do not coerce but no error is reported for that field")
    return pr

def oracle_c04(c):
    sv = orc.SchemaView(c.b.model)
    op = orc.operation_of(c.doc, c.op)
    if op is None: return []
    coerced, bad = orc.coerce_variables_spec(sv, op, c.variables)
    pr = []
    refused = c.real["data"] is None and c.real["errors"] and not c.real["calls"] and all(e["path"] is None for e in c.real["errors"])
    if bad:
        if c.real["calls"]: pr.append(f"resolvers ran although variables {sorted(bad)} are invalid")
        if c.real["data"] is not None: pr.append(f"data not null although variables {sorted(bad)} are invalid")
        locs = var_locs(op)
        named = set()
        for e in c.real["errors"]:
            for l in e["locations"]:
                if tuple(l) in locs: named.add(locs[tuple(l)])
            for n in bad:
                if ("$" + n) in (e["message"] or ""): named.add(n)
        if not bad <= named: pr.append(f"offending variables {sorted(bad - named)} not reported")
    else:
        if refused and any("ariable" in (e["message"] or "") for e in c.real["errors"]):
            pr.append("request refused although every variable value is acceptable")
        pr += root_arg_problems(c, sv, op, coerced)
    return pr

def oracle_c05(c):
    sv = orc.SchemaView(c.b.model)
    op = orc.operation_of(c.doc, c.op)
    if op is None: return []
    coerced, bad = orc.coerce_variables_spec(sv, op, c.variables)
    if bad: return []
    pr = root_arg_problems(c, sv, op, coerced)
    # fields below the root (often default-resolved: no call to look at): an argument failure must be reported for a field
    # exactly when CoerceArgumentValues — the model's `coerceArguments`, proved typed / literal = variable — fails there
    if c.mod and "fail" not in c.mod:
        eng = sorted(json.dumps(e["path"]) for e in c.real["errors"] if str(e.get("message", "")).startswith("Argument <"))
        mod = sorted(json.dumps(e["path"]) for e in c.mod["errors"] if str(e.get("kind", "")).startswith("argument:"))
        if eng != mod and not pr:
            only_e = [p for p in eng if p not in mod]; only_m = [p for p in mod if p not in eng]
            if only_e: pr.append(f"argument failure reported at {only_e[:3]} although the arguments of that field coerce per the specification")
            if only_m: pr.append(f"no argument failure reported at {only_m[:3]} although CoerceArgumentValues fails there")
    return pr

ORACLES = {"C01": oracle_c01, "C02": oracle_c02, "C03": oracle_c03, "C04": oracle_c04, "C05": oracle_c05}

def nontrivial(pid, c):
    r = c.real
    if pid == "C01": return r["data"] is not None and len(r["calls"]) >= 2
    if pid == "C02": return bool(r["errors"]) and r["data"] is not None
    if pid == "C03": return r["data"] is not None and bool(r["errors"])
    if pid == "C04": return bool(c.variables)
    if pid == "C05": return any(call["args"]["d"] for call in r["calls"])
    return True

ENGINE_CONFIGS = [{"coerce_parent_concurrently": False}, {"coerce_list_concurrently": False}, {"parent_concurrently": False}, {"list_concurrently": False},
                  {"coerce_parent_concurrently": False, "coerce_list_concurrently": False, "parent_concurrently": False, "list_concurrently": False},
                  {"mixed": 1}, {"mixed": 2, "coerce_parent_concurrently": False}, {"sync_arguments": True}, {"sync_arguments": True, "list_concurrently": False}]

PROFILES = {
    "C01": dict(adv=0.0, fail=0.0, inv=0.0, schemas=(25, 300), docs=(60, 150)),
    "C02": dict(adv=0.08, fail=0.35, inv=0.0, exc_items=0.15, schemas=(25, 300), docs=(60, 150)),
    "C03": dict(adv=0.35, fail=0.1, inv=0.0, schemas=(25, 300), docs=(60, 150)),
    "C04": dict(adv=0.0, fail=0.0, inv=0.35, bad_var_defaults=0.12, schemas=(25, 300), docs=(60, 150)),
    "C05": dict(adv=0.0, fail=0.0, inv=0.0, nested_vars=True, schemas=(20, 300), docs=(50, 150)),
}

async def explore(pid, tier, seed, m, v, known, budget_s, extra_cases=None):
    """returns stats dict; reports violations through v"""
    prof = PROFILES[pid]
    rng = random.Random(seed * 7919 + hash(pid) % 1000)
    nschemas, ndocs = fw.scale(prof["schemas"][0 if tier == "quick" else 1]), prof["docs"][0 if tier == "quick" else 1]
    stats = {"evaluations": 0, "nontrivial": set(), "disagreements": [], "oracle_failures": [], "known_hits": {}, "dist": {},
             "with_errors": 0, "data_null": 0, "calls": 0, "samples": []}
    t0 = time.time()
    oracle = ORACLES[pid]
    def account(c):
        stats["evaluations"] += 1
        h = hashlib.sha256(json.dumps([c.query, c.op, c.variables, c.renv], sort_keys=True, default=str).encode()).hexdigest()[:16]
        if nontrivial(pid, c): stats["nontrivial"].add(h)
        stats["with_errors"] += bool(c.real["errors"]); stats["data_null"] += c.real["data"] is None; stats["calls"] += len(c.real["calls"])
        if c.real.get("warnings"): stats["dist"]["requests_with_unawaited_coroutine_warnings"] = stats["dist"].get("requests_with_unawaited_coroutine_warnings", 0) + 1
        if len(stats["samples"]) < 4 and nontrivial(pid, c):
            stats["samples"].append({"query": c.query, "operation_name": c.op, "variables": c.variables, "data": c.real["data"], "errors": c.real["errors"][:3]})
        problems = oracle(c)
        d = diff_resp(c.real, c.mod) if c.mod and "fail" not in c.mod else (["model-failed:" + c.mod["fail"]] if c.mod else [])
        if problems or d:
            kf = match_known(known, pid, c, problems)
            if kf:
                stats["known_hits"][kf["id"]] = stats["known_hits"].get(kf["id"], 0) + 1
                return
        if problems: stats["oracle_failures"].append((c, problems))
        elif d: stats["disagreements"].append((c, d))
    for c in (extra_cases or []):
        account(c)
    for si in range(nschemas):
        if time.time() - t0 > budget_s: break
        sg = SchemaGen(rng)
        sg.exc_items = prof.get("exc_items", 0.0)
        renv = sg.gen_env(adv=prof["adv"], fail=prof["fail"])
        mixed = sg.mixed_scenario(renv)
        # every third schema runs under non-default concurrency settings (sequential list / parent coercion, resolver-level
        # flags): the result must be the execution algorithm's under each of them
        cfg = rng.choice(ENGINE_CONFIGS) if si % 3 == 2 else None
        b = await er.build_engine(sg.model(), renv, cfg=cfg)
        if cfg: stats["dist"]["non_default_concurrency_schemas"] = stats["dist"].get("non_default_concurrency_schemas", 0) + 1
        # (resolvers that modify their own `args` are NOT used here: a whole-variable argument is delivered as the one
        #  coerced variable object to every field using it, so such a resolver legitimately changes what a sibling sees;
        #  the C15 check uses them, where both sides of the comparison share that aliasing)
        for q in mixed:
            account(await run_case(m, b, renv, q, None, None))
        for di in range(ndocs):
            dg = DocGen(sg, rng, op_kinds=("query", "mutation") if sg.mutation else ("query",))
            dg.nested_vars = prof.get("nested_vars", False)
            dg.bad_var_defaults = prof.get("bad_var_defaults", 0.0)
            dg.null_condition_vars = pid in ("C01", "C05")
            q, ops, opvars = dg.document(n_ops=rng.choice([1, 1, 1, 2]))
            k = rng.randrange(len(ops))
            variables, _ = dg.variables_for(opvars[k], invalid=prof["inv"])
            c = await run_case(m, b, renv, q, ops[k][1], variables)
            for kk, vv in dg.stats.items(): stats["dist"][kk] = stats["dist"].get(kk, 0) + vv
            account(c)
    stats["wall"] = time.time() - t0
    return stats

def match_known(known, pid, c, problems):
    import classes
    for kf in known:
        if kf.get("status") != "known" or kf["property"] != pid: continue
        pred = getattr(classes, kf["class"].replace("-", "_"), None)
        if pred and pred(c, problems): return kf
    return None

def decide(pid, v, b, stats, seed, model_ran):
    for c, problems in stats["oracle_failures"][:3]:
        v.violation(replay_payload(pid, c, seed, problems[:5], {"undischarged_theorems": b["failing"]}))
    if not stats["oracle_failures"]:
        broken = (not b["sound"]) or stats["disagreements"] or not model_ran
        if broken:
            first = stats["disagreements"][0] if stats["disagreements"] else None
            payload = {"property": pid, "seed": seed,
                       "what": "proof obligation or model/implementation correspondence broken; no input violating the property found",
                       "undischarged_theorems": b["failing"], "failed_dependency": b.get("failed_dependency"),
                       "untranslatable": b["gen"].get("untranslatable"), "bad_axioms": b["bad_axioms"], "forbidden_tokens": b["forbidden_tokens"],
                       "build_log_tail": b["build_log"][-1500:], "driver_log_tail": b["driver_log"][-800:],
                       "requests_checked_against_property_oracle": stats["evaluations"]}
            if first:
                payload["first_disagreement"] = replay_payload(pid, first[0], seed, first[1])
            v.violation(payload, no_input=True)

def coverage(pid, b, stats, model_ran, rule):
    return fw.proof_coverage(b, {
        "evaluations": stats["evaluations"], "distinct_nontrivial": len(stats["nontrivial"]), "rule": rule,
        "correspondence": {"compared_with_model": stats["evaluations"] if model_ran else 0, "disagreements": len(stats["disagreements"])},
        "oracle_failures": len(stats["oracle_failures"]), "known_finding_hits": stats["known_hits"],
        "corpus_cases_run_first": len([f for f in os.listdir(os.path.join(env.VERIF, "corpus", pid))]) if os.path.isdir(os.path.join(env.VERIF, "corpus", pid)) else 0,
        "distribution": {"requests_with_errors": stats["with_errors"], "data_null": stats["data_null"], "resolver_calls": stats["calls"], "generator": stats["dist"]},
        "samples": stats["samples"] or [{"note": "no non-trivial sample"}]})

def main(pid, rule, assumptions, extra=None):
    tier = sys.argv[1] if len(sys.argv) > 1 else "quick"
    seed = int(sys.argv[2]) if len(sys.argv) > 2 else 0
    if tier == "replay":
        return replay(pid, sys.argv[3])
    v = fw.Verdict(pid, tier, seed)
    b = fw.build(pid, thorough=(tier == "thorough"))
    known = fw.load_known()
    m = Model() if b["driver_ok"] else None
    async def corpus_cases():
        """requests on which seeded changes were caught earlier (corpus/<pid>/*.json): they run first, in every tier"""
        out = []
        d = os.path.join(env.VERIF, "corpus", pid)
        for fn in sorted(os.listdir(d)) if os.path.isdir(d) else []:
            try:
                p = json.load(open(os.path.join(d, fn)))
                b2 = await er.build_engine(p["schema_model"], p["env"])
                out.append(await run_case(m, b2, p["env"], p["query"], p.get("operation_name"), p.get("variables"), p.get("root")))
            except Exception as e:
                print(f"corpus case {fn} could not be run: {type(e).__name__}: {e}", file=sys.stderr)
        return out
    async def go():
        extra_cases = (await corpus_cases()) + (await extra(m, seed, tier) if extra else [])
        return await explore(pid, tier, seed, m, v, known, 100 if tier == "quick" else 900, extra_cases)
    stats = er.run(go())
    if m: m.close()
    for kf in known:
        if kf["property"] == pid and kf.get("status") == "known" and stats["known_hits"].get(kf["id"]):
            v.known(kf["line"].split(" ", 2)[2] if kf["line"].startswith("known:") else kf["line"])
    decide(pid, v, b, stats, seed, m is not None)
    return v.finish("proof", coverage(pid, b, stats, m is not None, rule), assumptions)

def replay(pid, path):
    p = json.load(open(path))
    if "first_disagreement" in p: p = p["first_disagreement"]
    async def go():
        b = await er.build_engine(p["schema_model"], p["env"])
        m = Model()
        c = await run_case(m, b, p["env"], p["query"], p["operation_name"], p["variables"], p.get("root"))
        m.close()
        return c
    c = er.run(go())
    problems = ORACLES[pid](c)
    d = diff_resp(c.real, c.mod)
    print(json.dumps({"oracle_problems": problems, "model_vs_engine": d, "observed": {"data": c.real["data"], "errors": c.real["errors"]}}, indent=1)[:4000])
    if problems or d:
        kf = match_known(fw.load_known(), pid, c, problems)
        if kf:
            print(f"KNOWN-FINDING: property={pid} " + (kf["line"].split(" ", 2)[2] if kf["line"].startswith("known:") else kf["line"])); return 0
    if problems:
        print(f"VIOLATION property={pid} replay={path}"); return 1
    if d:
        print(f"VIOLATION property={pid} replay={path} no-failing-input-found"); return 1
    return 0
