"""C14 — subscriptions answer every source event once, in order."""
import env, sys, json, random, time, hashlib
import framework as fw
import engine_runner as er
import execcheck as xc
import oracles as orc
from gen import SchemaGen, DocGen, base, is_nn, print_sdl, base
from model import Model
from pyval import enc, dec, same, strings_in, stf_table

SHARED_PAYLOAD = [False]

async def build(sg, renv, sources, log):
    """engine with one @Subscription source per Subscription field, replaying `sources[field]`"""
    from tartiflette import Subscription
    import itertools
    def mk(field):
        async def source(parent, args, ctx, info):
            log.append(("start", field, enc(dict(args))))
            if isinstance(ctx, dict): ctx["source_saw"] = ctx.get("source_saw", 0) + 1     # the caller's context object, also when it is empty
            shared = {}
            for ev in sources[field]:
                log.append(("event", field))
                v = dec(ev)
                if SHARED_PAYLOAD[0] and isinstance(v, dict):
                    # one payload object re-used for every event and changed in place between events (a legitimate way to
                    # write a source): response k must be computed from the state at the time event k was produced
                    shared.clear(); shared.update(v); v = shared
                yield v
            log.append(("end", field))
        return source
    name = f"case{next(er._counter)}"
    # registration must use the same schema name as build_engine: temporarily patch the counter
    er._counter = itertools.chain([int(name[4:])], er._counter)
    for field in sources:
        Subscription(f"Subscription.{field}", schema_name=name)(mk(field))
    b = await er.build_engine(sg.model(), renv)
    assert b.schema_name == name
    return b

def sub_document(sg, rng, dg):
    f = rng.choice(sg.subscription["fields"])
    import re
    for _ in range(50):
        vars_ = {}
        dg.frags = []; dg.nfrag = 0
        body = dg.field_text(f, 0, vars_)
        depth, cut = 0, len(body)
        for i, ch in enumerate(body):      # up to the selection set's brace (braces inside the argument list do not count)
            if ch == "(": depth += 1
            elif ch == ")": depth -= 1
            elif ch == "{" and depth == 0: cut = i; break
        head = re.sub(r"\([^()]*\)", "", body[:cut]) if "(" not in re.sub(r"\([^()]*\)", "", body[:cut]) else body[:cut]
        if "@" not in head: break          # no @skip/@include on the single root field (it must always be collected)

    frag_text = {fr[0]: fr[2] for fr in dg.frags}
    seen = set()
    def reach(t):
        for m in re.finditer(r"\.\.\.(F\d+)", t):
            if m.group(1) not in seen:
                seen.add(m.group(1)); reach(frag_text[m.group(1)])
    reach(body)
    alltext = body + " ".join(frag_text[x] for x in seen)
    names = sorted(set(re.findall(r"\$(v\d+)", alltext)), key=lambda s: int(s[1:]))
    from gen import tstr, print_value
    decl = ("(" + ", ".join(f"${n}: {tstr(vars_[n][0])}" + (f" = {print_value(vars_[n][1])}" if vars_[n][1] else "") for n in names) + ")") if names else ""
    extra = "query Other { __typename }\n" if rng.random() < 0.35 else ""
    # the single root field may be reached through fragments at the operation root (still one root field)
    root_frag = ""
    k = rng.random()
    if k < 0.15: body = "... { " + body + " }"
    elif k < 0.3: body = "... on Subscription { " + body + " }"
    elif k < 0.45:
        root_frag = "\nfragment RootF on Subscription { " + body + " }"; body = "...RootF"
    elif k < 0.52:
        root_frag = "\nfragment RootF on Subscription { ... on Subscription { " + body + " } }"; body = "... { ...RootF }"
    q = extra + f"subscription S{decl} {{ {body} }}" + "".join(f"\nfragment {fr[0]} on {fr[1]} {fr[2]}" for fr in dg.frags if fr[0] in seen) + root_frag
    return q, f, {n: vars_[n] for n in names}

async def explore(tier, seed, m):
    rng = random.Random(seed * 101 + 14)
    stats = {"evaluations": 0, "nontrivial": set(), "problems": [], "disagreements": [], "samples": [], "events": 0, "refused": 0}
    nschemas, ndocs = (fw.scale(24), 40) if tier == "quick" else (fw.scale(150), 80)
    t0 = time.time()
    for si in range(nschemas):
        if time.time() - t0 > (100 if tier == "quick" else 1500): break
        sg = SchemaGen(rng, with_subscription=True, custom_scalar=(True if si % 4 == 3 else None))
        renv = sg.gen_env(adv=0.05, fail=0.15)
        for coord in list(renv["resolvers"]):
            if coord.startswith("Subscription."):
                del renv["resolvers"][coord]     # root fields read the event payload
                renv["fieldTypeResolvers"].pop(coord, None)
        sources = {}
        for f in sg.subscription["fields"]:
            evs = []
            for _ in range(rng.randint(0, 4)):
                k = rng.random()
                if k < 0.7: evs.append({"d": [[f["name"], sg.value_for(f["type"], 1, 0.1)]]})
                elif k < 0.8: evs.append(None)
                elif k < 0.9: evs.append({"o": "Payload", "a": [[f["name"], sg.value_for(f["type"], 1, 0.3)]]})
                else: evs.append({"d": [["other", {"i": "1"}]]})
            if evs and rng.random() < 0.4:
                import copy as _cp2
                j_ = rng.randrange(len(evs)); evs.insert(j_, _cp2.deepcopy(evs[j_]))      # two consecutive EQUAL events are two events
            sources[f["name"]] = evs
        log = []
        # every fourth schema: the custom scalar's input coercion is NOT idempotent (it wraps strings): coercing the caller's
        # variables once per event must start from the caller's values every time (no comparison with the model there)
        nonidem = si % 4 == 3
        saved_scalar = er.CustomScalar
        if nonidem:
            class WrappingScalar(saved_scalar):
                def coerce_input(self, v):
                    v = super().coerce_input(v)
                    return f"in<{v}>" if isinstance(v, str) else v
            er.CustomScalar = WrappingScalar
        try:
            b = await build(sg, renv, sources, log)
        finally:
            er.CustomScalar = saved_scalar
        done_alone = []
        for di in range(ndocs):
            dg = DocGen(sg, rng)
            # no nullable variable at a non-null argument position: a null there fails ARGUMENT coercion while the source is
            # created, which the statement leaves open (only validation / variable-coercion failures are specified)
            dg.nullable_default_vars = 0.0
            q, f, vars_ = sub_document(sg, rng, dg)
            variables, _ = dg.variables_for(vars_, invalid=0.2)
            kind = "valid"
            r = rng.random()
            opn = "S"
            if r < 0.08: opn = "Nope"; kind = "unknown-operation"
            elif r < 0.16: q = q.replace("{", "{ nope_field ", 1); kind = "validation-error"
            elif r < 0.2: q = q[: len(q) // 2] + " {"; kind = "syntax-error"
            elif r < 0.27 and len(sg.subscription["fields"]) >= 2:
                # two root fields hidden behind a root-level fragment with the SAME NAME valid documents use
                def sel(x): return x["name"] + (" { __typename }" if base(x["type"]) not in sg.leaf_names else "")
                fa, fb = sg.subscription["fields"][0], sg.subscription["fields"][1]
                if not any(is_nn(a["type"]) and not a.get("default") for x in (fa, fb) for a in x["args"]):
                    q = "subscription S { ...RootF }\nfragment RootF on Subscription { " + sel(fa) + " " + sel(fb) + " }"; variables = None; kind = "validation-error"
                    if rng.random() < 0.5:
                        # ...and the offending operation is NOT the first subscription operation of the document
                        q = "subscription First { " + sel(fa) + " }\nquery Between { __typename k: __typename }\n" + (q if rng.random() < 0.5 else "subscription S { " + sel(fa) + " second: " + sel(fb) + " }")
            SHARED_PAYLOAD[0] = rng.random() < 0.4
            log.clear(); b.calls.clear()
            resps = []
            init = None
            if rng.random() < 0.3:
                init = {"d": [[f["name"], sg.value_for(f["type"], 1, 0.0)]]}
            import copy as _copy
            pristine = _copy.deepcopy(variables)
            caller_ctx = {} if rng.random() < 0.5 else None        # an EMPTY dict is a context like any other
            try:
                async for payload in b.engine.subscribe(q, operation_name=opn, variables=variables, initial_value=dec(init) if init is not None else None, context=caller_ctx):
                    resps.append(payload)
            except Exception as e:
                stats["problems"].append({"what": [f"subscribe raised {type(e).__name__}: {e}"[:300]], "query": q, "variables": variables, "kind": kind}); continue
            stats["evaluations"] += 1
            changed_vars = variables != pristine or repr(variables) != repr(pristine)
            if changed_vars: variables = pristine      # (the reference below is computed from the request as it was sent)
            events = sources[f["name"]]
            starts = [x for x in log if x[0] == "start"]
            pr = []
            # independent oracle: the engine's own `execute` with each event as initial value
            try:
                doc = er.parse_doc(q); syntax_ok = True
            except Exception:
                doc, syntax_ok = None, False
            if caller_ctx is not None and starts and caller_ctx.get("source_saw") != len(starts):
                pr.append("the source function did not receive the context object the caller passed (an empty dict)")
            if changed_vars: pr.append("the variables object the caller passed was modified while the stream was consumed: the variables are coerced again for every event, so later events are answered from other values than the request's")
            sv = orc.SchemaView(b.model)
            refused = (not syntax_ok) or kind in ("validation-error", "unknown-operation", "syntax-error")
            if syntax_ok and not refused:
                op = orc.operation_of(doc, opn)
                _, bad = orc.coerce_variables_spec(sv, op, variables)
                refused = bool(bad)
            if refused:
                stats["refused"] += 1
                if len(resps) != 1: pr.append(f"refused request yielded {len(resps)} responses instead of one")
                elif resps[0].get("data") is not None or not resps[0].get("errors"): pr.append("refused request: response is not errors-only")
                if starts: pr.append("source stream started for a refused request")
            else:
                if len(resps) != len(events): pr.append(f"{len(resps)} responses for {len(events)} source events")
                if len(starts) != 1: pr.append(f"source started {len(starts)} times")
                for i, (ev, got) in enumerate(zip(events, resps)):
                    exp = await b.engine.execute(q, operation_name=opn, variables=variables, initial_value=dec(ev))
                    if json.dumps(enc(exp.get("data"))) != json.dumps(enc(got.get("data"))) or len(exp.get("errors") or []) != len(got.get("errors") or []):
                        pr.append(f"response #{i} differs from executing the selection against event #{i}"); break
                # source arguments = spec-coerced arguments of the root field
                if starts and syntax_ok and not nonidem:
                    op = orc.operation_of(doc, opn)
                    coerced, _ = orc.coerce_variables_spec(sv, op, variables)
                    sub = orc.collect(sv, doc, sv.root("subscription"), op["selectionSet"], orc.effective_bool_vars(op, variables))
                    nodes = next(iter(sub.values()))
                    fd = sv.fields(sv.root("subscription"))[nodes[0]["name"]["value"]]
                    try:
                        exp_args = orc.coerce_arguments_spec(sv, fd["args"], nodes[0], coerced)
                        got_args = dec(starts[0][2])
                        if not orc.py_equal_typed(got_args, exp_args): pr.append(f"source function received {got_args!r}, specification prescribes {exp_args!r}")
                    except orc.Invalid:
                        pass
            h = hashlib.sha256(json.dumps([q, opn, variables, events], sort_keys=True, default=str).encode()).hexdigest()[:16]
            if len(resps) >= 2: stats["nontrivial"].add(h)
            stats["events"] += len(events)
            # model
            if m is not None and not pr and syntax_ok and kind != "validation-error" and not nonidem:
                req = er.model_request(b, q, opn, variables, None, renv)
                req["op"] = "subscribe"; req["events"] = events
                strs = set(req["stf"].keys())
                for ev in events: strings_in(ev, strs)
                req["stf"] = stf_table(strs)
                mod = m.ask(req)
                if "fail" in mod: stats["disagreements"].append({"query": q, "model": mod})
                else:
                    d = []
                    if len(mod["responses"]) != len(resps): d.append(f"model yields {len(mod['responses'])} responses, engine {len(resps)}")
                    else:
                        for i, (mr, rr) in enumerate(zip(mod["responses"], resps)):
                            real = {"data": enc(rr.get("data")), "errors": er.canon_errors(rr.get("errors")), "calls": []}
                            dd = [x for x in xc.diff_resp(real, {"data": mr["data"], "errors": mr["errors"], "calls": []}) if x != "calls"]
                            if mod["refused"]: dd = [x for x in dd if x == "data"]
                            if dd: d.append(f"response #{i}: {dd}"); break
                    if d: stats["disagreements"].append({"query": q, "operation_name": opn, "variables": variables, "events": events, "diff": d, "engine": [json.loads(json.dumps(r, default=str)) for r in resps][:3], "model": mod["responses"][:3], "sdl": print_sdl(b.model)})
            if pr:
                stats["problems"].append({"what": pr[:4], "query": q, "operation_name": opn, "variables": variables, "events": events, "kind": kind, "responses": [json.loads(json.dumps(r, default=str)) for r in resps][:4], "sdl": print_sdl(b.model), "env": renv})
            if len(stats["samples"]) < 3 and len(resps) >= 2:
                stats["samples"].append({"query": q, "events": events, "responses": [json.loads(json.dumps(r, default=str)) for r in resps]})
            # remembered for the interleaved run below: accepted requests with at least two events, and what each alone answered
            if not pr and kind == "valid" and len(resps) >= 2 and not changed_vars:
                done_alone.append((q, opn, _copy.deepcopy(pristine), [json.dumps(enc(r.get("data")), sort_keys=True) + "|" + str(len(r.get("errors") or [])) for r in resps]))
        # INTERLEAVED CONSUMPTION: two subscriptions of this engine open at the same time, their events pulled alternately -
        # each stream answers with ITS OWN document, variables and context
        rng.shuffle(done_alone)
        for (qa, oa, va, ra), (qb, ob, vb, rb) in list(zip(done_alone[0::2], done_alone[1::2]))[:6]:
            log.clear(); b.calls.clear()
            ga = b.engine.subscribe(qa, operation_name=oa, variables=_copy.deepcopy(va), context={"who": "a"})
            gb = b.engine.subscribe(qb, operation_name=ob, variables=_copy.deepcopy(vb), context={"who": "b"})
            got = {"a": [], "b": []}
            live = {"a": ga, "b": gb}
            try:
                while live:
                    for tag in list(live):
                        try:
                            r_ = await live[tag].__anext__()
                            got[tag].append(json.dumps(enc(r_.get("data")), sort_keys=True) + "|" + str(len(r_.get("errors") or [])))
                        except StopAsyncIteration:
                            del live[tag]
            except Exception as e:
                stats["problems"].append({"what": [f"interleaved consumption raised {type(e).__name__}: {e}"[:300]], "queries": [qa, qb]}); continue
            stats["evaluations"] += 1; stats["interleaved_pairs"] = stats.get("interleaved_pairs", 0) + 1
            if got["a"] != ra or got["b"] != rb:
                which = "first" if got["a"] != ra else "second"
                stats["problems"].append({"what": [f"two subscriptions consumed alternately: the {which} stream's responses differ from what the same subscription answers alone"],
                                          "queries": [qa, qb], "operation_names": [oa, ob], "variables": [va, vb], "alone": [ra, rb], "interleaved": [got["a"], got["b"]], "sdl": print_sdl(b.model)})
    return stats

if __name__ == "__main__":
    tier = sys.argv[1] if len(sys.argv) > 1 else "quick"
    seed = int(sys.argv[2]) if len(sys.argv) > 2 else 0
    v = fw.Verdict("C14", tier, seed)
    b = fw.build("C14", thorough=(tier == "thorough"))
    m = Model() if b["driver_ok"] else None
    stats = er.run(explore(tier, seed, m))
    if m: m.close()
    for p in stats["problems"][:3]:
        v.violation({"property": "C14", "seed": seed, **p, "undischarged_theorems": b["failing"]})
    if not stats["problems"] and (not b["sound"] or stats["disagreements"] or m is None):
        v.violation({"property": "C14", "seed": seed, "what": "proof obligation or model/implementation correspondence broken; no mis-answered event stream found",
                     "undischarged_theorems": b["failing"], "failed_dependency": b.get("failed_dependency"), "build_log_tail": b["build_log"][-1500:],
                     "first_disagreement": stats["disagreements"][:1], "streams_checked": stats["evaluations"]}, no_input=True)
    cov = fw.proof_coverage(b, {
        "evaluations": stats["evaluations"], "distinct_nontrivial": len(stats["nontrivial"]),
        "rule": "generated subscription requests (one root field, arguments with literals and variables, nested selections, fragments) over schemas with a Subscription type; the source replays a finite event list (well-formed payloads, null, objects, payloads lacking the field, error-provoking values); variations: invalid variables, unknown operation name, validation error, syntax error; oracle: one response per event in order, each equal to `execute` with that event as initial value; refused requests yield one errors-only response and never start the source; source arguments = spec-coerced arguments; non-trivial = stream with at least two responses",
        "source_events": stats["events"], "refused_requests": stats["refused"], "correspondence": {"disagreements": len(stats["disagreements"])},
        "problems": len(stats["problems"]), "samples": stats["samples"] or [{"note": "none"}]})
    sys.exit(v.finish("proof", cov, ["finite event lists", "exceptions raised while creating the source after variable coercion escape subscribe (outside the statement; never produced by the generator)",
                                     "text -> JSON AST by the parser substitute"]))
