"""Generators: schema models, SDL rendering, valid-by-construction documents, variables,
resolver environments.  One PRNG (`random.Random(seed)`), everything type-directed."""
import json, random

BUILTIN_SCALARS = ["Int", "Float", "String", "Boolean", "ID"]

# ---- type refs --------------------------------------------------------------------------
def N(n): return {"n": n}
def L(t): return {"l": t}
def NN(t): return {"nn": t}
def base(t):
    while "n" not in t: t = t.get("l") or t.get("nn")
    return t["n"]
def is_nn(t): return "nn" in t
def unwrap_nn(t): return t["nn"] if "nn" in t else t
def tstr(t):
    if "n" in t: return t["n"]
    if "l" in t: return "[" + tstr(t["l"]) + "]"
    return tstr(t["nn"]) + "!"

# ---- AST const values (libgraphqlparser node format, used for defaults and literals) -----
def vint(i): return {"kind": "IntValue", "value": str(i)}
def vfloat(lex): return {"kind": "FloatValue", "value": lex}
def vstr(s): return {"kind": "StringValue", "value": s}
def vbool(b): return {"kind": "BooleanValue", "value": b}
def vnull(): return {"kind": "NullValue"}
def venum(n): return {"kind": "EnumValue", "value": n}
def vlist(xs): return {"kind": "ListValue", "values": xs}
def vobj(kvs): return {"kind": "ObjectValue", "fields": [{"kind": "ObjectField", "name": {"value": k}, "value": v} for k, v in kvs]}
def vvar(n): return {"kind": "Variable", "name": {"value": n}}

def print_value(v):
    k = v["kind"]
    if k in ("IntValue", "FloatValue"): return v["value"]
    if k == "StringValue": return json.dumps(v["value"], ensure_ascii=False)
    if k == "BooleanValue": return "true" if v["value"] else "false"
    if k == "NullValue": return "null"
    if k == "EnumValue": return v["value"]
    if k == "ListValue": return "[" + ", ".join(print_value(x) for x in v["values"]) + "]"
    if k == "ObjectValue": return "{" + ", ".join(f["name"]["value"] + ": " + print_value(f["value"]) for f in v["fields"]) + "}"
    if k == "Variable": return "$" + v["name"]["value"]
    raise ValueError(k)

def value_to_json(v, variables=None):
    """the JSON value a const literal denotes (numbers via json.loads of the lexeme)"""
    k = v["kind"]
    if k in ("IntValue", "FloatValue"): return json.loads(v["value"])
    if k in ("StringValue", "BooleanValue", "EnumValue"): return v["value"]
    if k == "NullValue": return None
    if k == "ListValue": return [value_to_json(x, variables) for x in v["values"]]
    if k == "ObjectValue": return {f["name"]["value"]: value_to_json(f["value"], variables) for f in v["fields"]}
    if k == "Variable": return variables[v["name"]["value"]]
    raise ValueError(k)

# ---- SDL printer ------------------------------------------------------------------------
def print_args(args):
    if not args: return ""
    return "(" + ", ".join(a["name"] + ": " + tstr(a["type"]) + (" = " + print_value(a["default"]) if a.get("default") else "") for a in args) + ")"

def print_sdl(S):
    out = []
    for t in S["types"]:
        k = t["kind"]
        if k == "scalar":
            if t["name"] not in BUILTIN_SCALARS: out.append(f"scalar {t['name']}")
        elif k == "enum":
            # some values are deprecated (deterministic in the names): a deprecated value is still a value - as a literal, in a
            # variable, as a result
            import zlib as _z
            out.append(f"enum {t['name']} {{ " + " ".join(v + (' @deprecated(reason: "old")' if _z.crc32((t["name"] + v).encode()) % 3 == 0 and not S.get("no_extend") else "") for v in t["values"]) + " }")
        elif k in ("object", "interface"):
            # the same type is sometimes spelled with `extend` (deterministic in the type's content): some of its interfaces and /
            # or its last field arrive through an extension - execution may not tell the difference
            import zlib
            crc = zlib.crc32((t["name"] + "|" + ",".join(f["name"] for f in t["fields"]) + "|" + ",".join(t.get("interfaces") or [])).encode())
            ifs = list(t.get("interfaces") or [])
            ext_ifs = []
            if k == "object" and ifs and crc % 3 == 0 and not S.get("no_extend"):
                keep = (crc >> 3) % len(ifs) if len(ifs) >= 2 else 0
                ifs, ext_ifs = ifs[:keep], ifs[keep:]
            fields = list(t["fields"]); ext_fields = []
            if k == "object" and len(fields) >= 2 and crc % 4 == 1 and not S.get("no_extend"):
                fields, ext_fields = fields[:-1], fields[-1:]
            pf = lambda f: f"  {f['name']}{print_args(f['args'])}: {tstr(f['type'])}{f.get('sdl_directives', '')}"
            impl = (" implements " + " & ".join(ifs)) if ifs else ""
            kw = "type" if k == "object" else "interface"
            out.append(f"{kw} {t['name']}{impl} {{\n" + "\n".join(pf(f) for f in fields) + "\n}")
            if ext_ifs or ext_fields:
                out.append(f"extend type {t['name']}" + ((" implements " + " & ".join(ext_ifs)) if ext_ifs else "") + ((" {\n" + "\n".join(pf(f) for f in ext_fields) + "\n}") if ext_fields else ""))
        elif k == "union":
            out.append(f"union {t['name']} = " + " | ".join(t["members"]))
        elif k == "input":
            out.append(f"input {t['name']} {{\n" + "\n".join(f"  {f['name']}: {tstr(f['type'])}" + (" = " + print_value(f["default"]) if f.get("default") else "") for f in t["fields"]) + "\n}")
    roots = []
    if S["query"] != "Query" or (S.get("mutation") and S["mutation"] != "Mutation") or (S.get("subscription") and S["subscription"] != "Subscription"):
        roots = ["schema { query: " + S["query"] + (f" mutation: {S['mutation']}" if S.get("mutation") else "") + (f" subscription: {S['subscription']}" if S.get("subscription") else "") + " }"]
    return "\n".join(out + roots + list(S.get("sdl_extra", []))) + "\n"

# ---- schema generation --------------------------------------------------------------------
LEAF_FIELD_NAMES = ["id", "name", "x", "y", "z", "w", "score", "flag", "tag", "code", "kind", "label", "amount", "ratio", "scaled"]
OBJ_FIELD_NAMES = ["t", "u", "child", "node", "owner", "peer", "nodes", "friends", "parts", "any", "pick", "grid"]
ARG_NAMES = ["a", "b", "n", "q", "e", "l", "i", "f"]

class SchemaGen:
    def __init__(self, rng, with_mutation=None, with_subscription=False, custom_scalar=None):
        self.r = rng
        r = rng
        self.enums = [{"kind": "enum", "name": "E", "values": ["A", "B", "C"]}]
        if r.random() < 0.4: self.enums.append({"kind": "enum", "name": "Color", "values": ["RED", "GREEN"]})
        self.scalars = [{"kind": "scalar", "name": s} for s in BUILTIN_SCALARS]
        if custom_scalar if custom_scalar is not None else r.random() < 0.4:
            self.scalars.append({"kind": "scalar", "name": "Any"})
        self.leaf_names = [s["name"] for s in self.scalars] + [e["name"] for e in self.enums]
        # input objects
        self.inputs = []
        for nm in ["In", "Sub", "Rec"][: r.randint(1, 3)]:
            self.inputs.append({"kind": "input", "name": nm, "fields": []})
        for inp in self.inputs:
            names = r.sample(["x", "y", "s", "e", "l", "sub", "rec", "b", "f"], r.randint(1, 5))
            for fn in names:
                ty = self.rand_input_type(depth=0, allow_recursive_to=inp["name"])
                fld = {"name": fn, "type": ty, "default": None}
                if r.random() < 0.3 and base(ty) in self.leaf_names:
                    fld["default"] = self.const_literal(ty, 0)
                inp["fields"].append(fld)
        # global field signature pool: one signature per field name (guarantees mergeability)
        self.iface_names = ["Named", "Scored"][: r.randint(0, 2)]
        self.obj_names = ["T", "U", "V", "W"][: r.randint(2, 4)]
        self.union_names = ["Any1", "Any2"][: r.randint(0, 2)]
        self.unions = [{"kind": "union", "name": u, "members": r.sample(self.obj_names, r.randint(1, len(self.obj_names)))} for u in self.union_names]
        composite = self.obj_names + self.iface_names + self.union_names
        self.sigs = {}
        for fn in LEAF_FIELD_NAMES:
            ty = self.wrap_out(N(r.choice(self.leaf_names)))
            self.sigs[fn] = {"name": fn, "type": ty, "args": self.rand_args() if r.random() < 0.3 else []}
        # a field whose argument is non-null WITH a default: a nullable variable may stand there, and a null in it fails the
        # field while its arguments are coerced (once per parent object: inside lists, several times at once)
        self.sigs["scaled"] = {"name": "scaled", "type": N("Int"), "args": [{"name": "by", "type": NN(N("Int")), "default": vint(2)}]}
        if "Any" in self.leaf_names:
            # a leaf that may become null only during output coercion, at non-null and list-item positions
            self.sigs["tag"] = {"name": "tag", "type": NN(N("Any")), "args": []}
            self.sigs["code"] = {"name": "code", "type": L(NN(N("Any"))), "args": []}
        for fn in OBJ_FIELD_NAMES:
            ty = self.wrap_out(N(r.choice(composite)), lists=fn in ("nodes", "friends", "parts", "grid"))
            self.sigs[fn] = {"name": fn, "type": ty, "args": self.rand_args() if r.random() < 0.25 else []}
        self.ifaces = []
        for i in self.iface_names:
            fs = r.sample(LEAF_FIELD_NAMES, r.randint(1, 3)) + r.sample(OBJ_FIELD_NAMES, r.randint(0, 1))
            self.ifaces.append({"kind": "interface", "name": i, "fields": [dict(self.sigs[f]) for f in fs]})
        self.objs = []
        for o in self.obj_names:
            impl = [i["name"] for i in self.ifaces if r.random() < 0.6 or o == self.obj_names[0]]
            fs = []
            for i in self.ifaces:
                if i["name"] in impl:
                    for f in i["fields"]:
                        if f["name"] not in fs: fs.append(f["name"])
            for f in r.sample(LEAF_FIELD_NAMES, r.randint(1, 4)) + r.sample(OBJ_FIELD_NAMES, r.randint(1, 3)):
                if f not in fs: fs.append(f)
            self.objs.append({"kind": "object", "name": o, "fields": [dict(self.sigs[f]) for f in fs], "interfaces": impl})
        # interfaces need at least one implementer to be selectable; unions fine
        qfields = []
        for f in r.sample(OBJ_FIELD_NAMES, r.randint(3, 6)) + r.sample(LEAF_FIELD_NAMES, r.randint(1, 3)):
            qfields.append(dict(self.sigs[f]))
        # echo fields: make coerced arguments observable in `data`
        self.echo = []
        for k, ty in enumerate([N("Int"), N("Float"), N("String"), N("Boolean"), N("ID"), N("E"), L(N("Int")), NN(L(NN(N("String")))), L(L(N("Int"))), N(self.inputs[0]["name"]), L(N(self.inputs[0]["name"]))] + ([N("Any")] if "Any" in self.leaf_names else [])):
            nm = f"echo{k}"
            dflt = self.const_literal(ty, 0) if r.random() < 0.3 and base(ty) in self.leaf_names else None
            out_ty = ty if base(ty) not in [i["name"] for i in self.inputs] else N("String")
            sig = {"name": nm, "type": unwrap_nn(out_ty) if base(ty) in self.leaf_names else N("String"), "args": [{"name": "v", "type": ty, "default": dflt}]}
            self.sigs[nm] = sig
            self.echo.append(nm)
            qfields.append(dict(sig))
        # a list-typed input field with a default (a mutable coerced default: it must be a fresh value for every coercion)
        if not any(f["name"] == "dl" for f in self.inputs[0]["fields"]):
            self.inputs[0]["fields"].append({"name": "dl", "type": L(N("Int")), "default": vlist([vint(1), vint(2)])})
        # an input type whose field names resemble each other: a mistyped key has several "did you mean" candidates
        near = {"kind": "input", "name": "Near", "fields": [{"name": f"alpha{i}", "type": N("Int"), "default": None} for i in range(1, 5)]}
        self.inputs.append(near)
        self.sigs["echoNear"] = {"name": "echoNear", "type": N("String"), "args": [{"name": "v", "type": N("Near"), "default": None}]}
        self.echo.append("echoNear")
        qfields.append(dict(self.sigs["echoNear"]))
        # `mixed: [I]` for an interface with >= 2 runtime types and a composite field (see mixed_scenario)
        self.mixed = None
        for i in self.ifaces:
            impl = [o["name"] for o in self.objs if i["name"] in o["interfaces"]]
            comp = [f for f in i["fields"] if base(f["type"]) not in self.leaf_names and not any(is_nn(a["type"]) and not a.get("default") for a in f["args"])]
            if len(impl) >= 2 and comp:
                self.sigs["mixed"] = {"name": "mixed", "type": L(N(i["name"])), "args": []}
                qfields.append(dict(self.sigs["mixed"]))
                self.mixed = (i["name"], impl, comp[0])
                break
        self.query = {"kind": "object", "name": "Query", "fields": qfields, "interfaces": []}
        self.types = self.scalars + self.enums + self.inputs + self.ifaces + self.objs + self.unions + [self.query]
        self.mutation = None
        if with_mutation if with_mutation is not None else r.random() < 0.3:
            mf = [dict(self.sigs[f]) for f in r.sample(OBJ_FIELD_NAMES, 2) + r.sample(LEAF_FIELD_NAMES, 3) + r.sample(self.echo, 2)]
            # the mutation root type is not always called "Mutation" (`schema { mutation: Writes }`)
            self.mutation = {"kind": "object", "name": r.choice(["Mutation", "Mutation", "Writes"]), "fields": mf, "interfaces": []}
            if with_mutation == "shared":
                # `schema { query: Query mutation: Query }`: ONE object type serves both operations (the engine accepts it);
                # what makes root fields run serially is the operation being a mutation, not the type it starts from
                self.mutation = self.query
            else:
                self.types.append(self.mutation)
        self.subscription = None
        if with_subscription:
            sf = [dict(self.sigs[f]) for f in r.sample(OBJ_FIELD_NAMES, 2) + r.sample(LEAF_FIELD_NAMES, 2)]
            self.subscription = {"kind": "object", "name": "Subscription", "fields": sf, "interfaces": []}
            self.types.append(self.subscription)

    def model(self):
        return {"types": self.types, "query": "Query", "mutation": self.mutation["name"] if self.mutation else None,
                "subscription": "Subscription" if self.subscription else None}

    def wrap_out(self, t, lists=False):
        r = self.r
        if lists or r.random() < 0.25:
            if r.random() < 0.4: t = NN(t)
            t = L(t)
            if r.random() < 0.15: t = L(NN(t)) if r.random() < 0.5 else L(t)
        if r.random() < 0.25: t = NN(t)
        return t

    def rand_input_type(self, depth, allow_recursive_to=None):
        r = self.r
        names = list(self.leaf_names)
        inames = [i["name"] for i in self.inputs]
        if r.random() < 0.3: names += inames
        b = r.choice(names)
        t = N(b)
        rec = b in inames
        if r.random() < 0.3:
            if r.random() < 0.4 and not rec: t = NN(t)
            t = L(t)
            if r.random() < 0.2: t = L(t)
        if r.random() < 0.2 and not rec: t = NN(t)
        return t

    def rand_args(self):
        r = self.r
        out = []
        for a in r.sample(ARG_NAMES, r.randint(1, 2)):
            ty = self.rand_input_type(0)
            d = None
            if r.random() < 0.35 and base(ty) in self.leaf_names: d = self.const_literal(ty, 0)
            if is_nn(ty) and d is None and r.random() < 0.5: ty = unwrap_nn(ty)   # keep most args optional
            out.append({"name": a, "type": ty, "default": d})
        return out

    def tdef(self, n):
        for group in ("types", "scalars", "enums", "inputs", "ifaces", "objs", "unions"):
            for t in getattr(self, group, []):
                if t["name"] == n: return t
        return None

    # ---- literals -----------------------------------------------------------------------
    def const_literal(self, ty, depth, allow_null=True):
        """a const literal valid for input type `ty`"""
        r = self.r
        if "nn" in ty: return self.const_literal(ty["nn"], depth, allow_null=False)
        if allow_null and r.random() < 0.1: return vnull()
        if "l" in ty:
            if r.random() < 0.2 and "l" not in ty["l"] and "l" not in unwrap_nn(ty["l"]):
                return self.const_literal(ty["l"], depth + 1, allow_null=False)      # single value for a list
            return vlist([self.const_literal(ty["l"], depth + 1) for _ in range(r.randint(0, 3))])
        b = ty["n"]
        if b == "Int": return vint(r.choice([0, 1, -1, 7, 42, 2147483647, -2147483648, r.randint(-10**6, 10**6)]))
        if b == "Float": return r.choice([vfloat("1.5"), vfloat("-0.25"), vfloat("1e3"), vint(3), vfloat("12.0"), vfloat("6.02e23")])
        if b == "String": return vstr(r.choice(["", "a", "hello", "é", "12", "a\"b", "BAD" if False else "ok", "C:\\new\\table"]))   # (a backslash before n / t: must be un-escaped exactly once)
        if b == "Boolean": return vbool(r.random() < 0.5)
        if b == "ID": return r.choice([vstr("id1"), vint(4), vstr("4"), vint(0)])
        if b == "Any": return r.choice([vstr("s"), vint(5), vbool(True)])
        t = self.tdef(b)
        if t["kind"] == "enum": return venum(r.choice(t["values"]))
        if t["kind"] == "input":
            if depth > 3:
                req = [f for f in t["fields"] if is_nn(f["type"]) and not f.get("default")]
                return vobj([(f["name"], self.const_literal(f["type"], depth + 1)) for f in req])
            kvs = []
            for f in t["fields"]:
                if (is_nn(f["type"]) and not f.get("default")) or r.random() < 0.6:
                    kvs.append((f["name"], self.const_literal(f["type"], depth + 1)))
            return vobj(kvs)
        raise ValueError(b)

    # ---- resolver data --------------------------------------------------------------------
    def good_leaf(self, b):
        r = self.r
        if b == "Int": return r.choice([0, 1, -5, 42, 2147483647, r.randint(-1000, 1000)])
        if b == "Float": return r.choice([0.5, -1.25, 3.0, 1e10, 7])
        if b == "String": return r.choice(["", "s", "héllo", "12"])
        if b == "Boolean": return r.random() < 0.5
        if b == "ID": return r.choice(["id", "7", 7])
        if b == "Any": return r.choice(["s", 5, True, [1, "a"], {"k": 1}, "NULLME", "NULLME"])
        t = self.tdef(b)
        if t["kind"] == "enum": return r.choice(t["values"])
        raise ValueError(b)

    def bad_leaf(self):
        r = self.r
        return r.choice([float("nan"), float("inf"), 2**31, -2**31 - 1, 1.5, "abc", "12", "", True, [], [1], {}, {"a": 1}, (1, 2), 10**400,
                         "BAD", "A", "Z", 0, -0.0, 2.0, "1e400", {"x": False, "m": "as value", "e": []}, {"o": "Weird", "a": []}, {"o": "BaseSignal", "a": []}, {"o": "BytesLike", "a": []}, None,
                         {"x": False, "m": "", "e": [], "multi": 1}])

    def targeted_bad(self, ty):
        """values aimed at the declared type of the position (boundary / look-alike garbage)"""
        r = self.r
        t = ty
        while "nn" in t: t = t["nn"]
        if "l" in t:
            # look-alikes of a list, including the EMPTY / falsy ones (an `if not result` shortcut must not let them through)
            return r.choice([(1, 2), {"a": 1}, "notalist", 5, {"o": "Gen", "a": []}, [None], [[None]], (), {}, "", 0, False])
        b = t["n"]
        if b == "Int": return r.choice(["2147483648", "-2147483649", "1e10", 2**31, -2**31 - 1, 1.5, "1.5", "12", 12.0, float("nan"), True, "", " 7 ", 10**400, "0x10"])
        if b == "Float": return r.choice(["1e999", "-1e999", "nan", "inf", "-Infinity", float("inf"), float("nan"), 10**400, "1.5", "abc", True, [], "1e-999"])
        if b == "String": return r.choice([12, 1.5, True, [], {"a": 1}, (1,), None, {"o": "Obj", "a": []}, float("nan"), {"o": "BytesLike", "a": []}, {"o": "BytesLike", "a": []}])
        if b == "Boolean": return r.choice(["true", "false", "", 0, 1, 2, 1.5, float("nan"), float("inf"), [], "yes", 10**400])
        if b == "ID": return r.choice([1.5, True, False, 7.0, float("inf"), [], {"a": 1}, 10**30, -0.0, {"o": "BytesLike", "a": []}])
        td = self.tdef(b)
        if td and td["kind"] == "enum": return r.choice(["a", "Z", td["values"][0].lower(), 0, True, [td["values"][0]], "", td["values"][0] + " ",
                                                         # objects that merely CARRY a declared value (a record / Python Enum member with .name, .value)
                                                         {"o": "Member", "a": [["name", td["values"][0]]]}, {"o": "Member", "a": [["value", td["values"][-1]], ["name", td["values"][-1]]]},
                                                         {"d": [["name", td["values"][0]]]}])
        if td and td["kind"] in ("object", "interface", "union"):
            return r.choice([5, "str", [], [1], True, {"d": [["_typename", "Nope"]]}, {"d": [["_typename", {"i": "5"}]]}, {"o": "Nope", "a": []}, {"d": [["_typename", "Query"]]},
                             {"d": [["_typename", r.choice(self.obj_names)]]}, {"o": r.choice(self.obj_names), "a": []}, {"d": [["_typename", "E"]]}])
        return r.choice(["BAD", {"o": "X", "a": []}, float("nan")])

    def possible(self, n):
        t = self.tdef(n)
        if t["kind"] == "object": return [n]
        if t["kind"] == "union": return list(t["members"])
        if t["kind"] == "interface": return [o["name"] for o in self.objs if n in o["interfaces"]]
        return []

    exc_items = 0.0      # probability that a list item is an exception instance (set by fault-oriented profiles)

    long_lists = 0.03

    def value_for(self, ty, depth, adv, typename_style=None):
        """Python-side *wire* value (see pyval.py) for output type `ty`; adv = probability of garbage"""
        r = self.r
        if r.random() < adv:
            v = self.bad_leaf() if r.random() < 0.5 else self.targeted_bad(ty)
            from pyval import enc
            return v if isinstance(v, dict) and ("x" in v or "o" in v or "d" in v) else enc(v)
        from pyval import enc
        if "nn" in ty:
            return self.value_for(ty["nn"], depth, adv)
        if r.random() < 0.08: return None
        if "l" in ty:
            n = r.randint(0, 3) if depth < 4 else 0
            # lists of an abstract type: several items, so that different runtime types meet under the same field nodes
            if depth < 3 and "n" in unwrap_nn(ty["l"]) and base(ty) not in self.leaf_names and len(self.possible(base(ty))) >= 2 and r.random() < 0.6:
                n = r.randint(2, 4)
            # now and then a LONG list (the quantifier says all finite lists: positions beyond any batch / chunk size an
            # implementation may use internally; round 9, C02-r9-4: indices restarted every 32 items)
            if depth <= 1 and r.random() < self.long_lists:
                n = r.randint(33, 44) if base(ty) in self.leaf_names else r.randint(33, 36)
            items = [self.value_for(ty["l"], depth + 1, adv) for _ in range(n)]
            if len(items) > 32 and self.exc_items and r.random() < 0.7:
                items[r.randrange(32, len(items))] = {"x": False, "m": "late item failure", "e": []}
            if items and isinstance(items[0], dict) and "d" in items[0] and r.random() < 0.25:
                import copy as _cp
                items.insert(r.randrange(len(items) + 1), _cp.deepcopy(items[0]))       # the same record twice in one list
            if items and r.random() < self.exc_items:
                tart = r.random() < 0.5
                items[r.randrange(len(items))] = {"x": tart, "m": "item failure", "e": [["code", {"i": "9"}]] if tart and r.random() < 0.5 else []}
                if r.random() < 0.15: items[r.randrange(len(items))] = {"x": False, "m": "", "e": [], "multi": 1}
            return items
        b = ty["n"]
        if b in self.leaf_names: return enc(self.good_leaf(b))
        t = self.tdef(b)
        poss = self.possible(b)
        if not poss: return None
        on = r.choice(poss)
        ot = self.tdef(on)
        if depth > 5: return None if r.random() < 0.7 else {"d": []}
        kvs = []
        for f in ot["fields"]:
            if r.random() < 0.85:
                kvs.append([f["name"], self.value_for(f["type"], depth + 1, adv)])
        style = r.choice(["key", "attr", "class"]) if t["kind"] != "object" else r.choice(["key", "class", "plain", "falsy"])
        if style == "falsy": return {"o": "FalsyRow", "a": kvs}
        if style == "key": return {"d": [["_typename", on]] + kvs}
        if style == "attr": return {"o": "Row", "a": [["_typename", on]] + kvs}
        if style == "class": return {"o": on, "a": kvs}
        return {"d": kvs}

    def mixed_scenario(self, renv):
        """a list of one interface holding several runtime types, whose composite field `f` is selected on the
        interface AND again inside a type-conditioned fragment: the merged field nodes of `f` differ per runtime type.
        Installs the value in `renv`; returns query texts (or [])."""
        if not self.mixed: return []
        r = self.r
        iname, impl, f = self.mixed
        items = []
        for k in range(r.randint(3, 5)):
            on = impl[k % len(impl)]
            kvs = [["_typename", on]]
            for g in self.tdef(on)["fields"]:
                if g["name"] == f["name"]:
                    v = None
                    for _ in range(20):
                        v = self.value_for(g["type"], 2, 0.0)
                        if v not in (None, []) and not (isinstance(v, list) and all(x is None for x in v)): break
                    kvs.append([g["name"], v])
                elif r.random() < 0.85:
                    kvs.append([g["name"], self.value_for(g["type"], 3, 0.0)])
            items.append({"d": kvs})
        renv["resolvers"]["Query.mixed"] = {"k": "const", "v": items}
        rt = self.tdef(base(f["type"]))
        def sels():
            fs = [g["name"] for g in rt.get("fields", []) if base(g["type"]) in self.leaf_names and not g["args"]]
            return fs + ["__typename"]
        out = []
        for _ in range(3):
            a, b2 = r.choice(sels()), r.choice(sels())
            narrow = r.choice(impl)
            first = f"{f['name']} {{ {a} }}"
            again = f"... on {narrow} {{ {f['name']} {{ k2: {b2} }} }}"
            body = f"{first} {again}" if r.random() < 0.6 else f"{again} {first}"
            out.append("{ mixed { __typename " + body + " } }")
        return out

    def gen_env(self, adv=0.0, fail=0.0):
        """resolver environment: root fields of Query/Mutation get explicit resolvers"""
        r = self.r
        res = {}
        roots = [self.query] + ([self.mutation] if self.mutation and self.mutation is not self.query else []) + ([self.subscription] if self.subscription else [])
        for root in roots:
            for f in root["fields"]:
                coord = f"{root['name']}.{f['name']}"
                if f["name"] in self.echo:
                    res[coord] = {"k": "argEcho", "arg": "v"} if base(f["args"][0]["type"]) in self.leaf_names else {"k": "const", "v": "called"}
                elif r.random() < fail:
                    res[coord] = r.choice([{"k": "raise", "v": {"x": False, "m": "boom", "e": []}},
                                           {"k": "raise", "v": {"x": False, "m": "boom", "e": [], "cls": r.choice(["TimeoutError", "TimeoutError", "TimeoutError", "AssertionError", "NotImplementedError", "RuntimeError", "LookupError", "OSError"])}},
                                           {"k": "raise", "v": {"x": False, "m": "", "e": [], "noargs": 1, "cls": r.choice(["ValueError", "TimeoutError", "AssertionError"])}},
                                           {"k": "raise", "v": {"x": False, "m": "42", "e": [], "cls": "KeyErrorInt"}},
                                           {"k": "raise", "v": {"x": True, "m": "tart boom", "e": [["code", {"i": "42"}]]}},
                                           {"k": "raise", "v": {"x": True, "m": "tart boom for the user", "e": [], "um": 1}},
                                           {"k": "const", "v": {"x": False, "m": "returned exc", "e": []}}, {"k": "const", "v": None}])
                else:
                    res[coord] = {"k": "const", "v": self.value_for(f["type"], 0, adv)}
        # a few nested explicit resolvers
        for o in self.objs:
            for f in o["fields"]:
                if r.random() < 0.12:
                    coord = f"{o['name']}.{f['name']}"
                    if r.random() < fail * 2:
                        res[coord] = {"k": "raise", "v": {"x": r.random() < 0.5, "m": "nested boom", "e": []}}
                        if not res[coord]["v"]["x"] and r.random() < 0.4: res[coord]["v"]["cls"] = r.choice(["TimeoutError", "AssertionError", "RuntimeError", "OSError"])
                        if not res[coord]["v"]["x"] and r.random() < 0.15: res[coord]["v"].update({"m": "", "noargs": 1})
                    elif f["args"] and base(f["args"][0]["type"]) == base(f["type"]) and base(f["type"]) in self.leaf_names and r.random() < 0.5 and tstr(unwrap_nn(f["args"][0]["type"])) == tstr(unwrap_nn(f["type"])):
                        res[coord] = {"k": "argEcho", "arg": f["args"][0]["name"]}
                    else: res[coord] = {"k": "const", "v": self.value_for(f["type"], 2, adv)}
        env = {"resolvers": res, "fieldTypeResolvers": {}, "typeResolvers": {}}
        for root in roots + self.objs:
            for f in root["fields"]:
                coord = f"{root['name']}.{f['name']}"
                b = base(f["type"])
                if coord in res and res[coord]["k"] == "const" and b in self.iface_names + self.union_names and self.possible(b) and r.random() < 0.35:
                    env["fieldTypeResolvers"][coord] = r.choice([{"k": "const", "name": self._rt_name(b)}, {"k": "key", "key": "_typename"}])
                    env["fieldTypeResolvers"][coord]["obj"] = r.random() < 0.4
        for a in self.iface_names + self.union_names:
            if r.random() < 0.4 and self.possible(a):
                env["typeResolvers"][a] = r.choice([{"k": "const", "name": self._rt_name(a)}, {"k": "key", "key": "_typename"}])
                env["typeResolvers"][a]["obj"] = r.random() < 0.4      # hands back the schema's type OBJECT instead of its name
        return env

    def _rt_name(self, abstract):
        """runtime type a constant type resolver answers: usually a possible type, sometimes an object type that is NOT one"""
        r = self.r
        others = [o for o in self.obj_names if o not in self.possible(abstract)]
        if others and r.random() < 0.15: return r.choice(others)
        return r.choice(self.possible(abstract))

# ---- document generation -------------------------------------------------------------------
class DocGen:
    """valid-by-construction documents over a SchemaGen"""
    def __init__(self, sg, rng, op_kinds=("query",)):
        self.sg, self.r = sg, rng
        self.frags = []            # (name, typeCond, text)
        self.nfrag = 0
        self.vars = {}             # per operation: name -> (type, default literal or None)
        self.alias_of = {}         # (field, argtext) -> alias
        self.nalias = 0
        self.op_kinds = op_kinds
        self.stats = {"fields": 0, "aliases": 0, "fragments": 0, "inline": 0, "directives": 0, "vars": 0, "merged": 0, "depth": 0}
        self.pending_var_uses = []   # variables used inside fragments, must be declared by every op spreading them
        self.frag_heads = {}         # fragment name -> directive text on its definition

    def_directive = None          # name of a custom directive usable on QUERY / MUTATION / FRAGMENT_DEFINITION (declared + registered by the check)
    share_names = 0.12            # probability that one used fragment is given the NAME of one of the document's operations
    null_condition_vars = False   # let @skip/@include conditions be nullable variables with a default too (KF-C01-1; C01/C05 only)
    nullable_default_vars = 0.2   # probability of declaring the variable of a non-null leaf position nullable WITH a default
    bad_var_defaults = 0.0    # probability of a variable default literal of the WRONG KIND with a look-alike text (C04 / C16)

    stricter_vars = 0.15          # probability that a variable is declared with a STRICTER type than its position ([[Int]!] for [[Int]] ...)

    def stricten(self, ty):
        """`ty` with non-null added at some levels (never removed): every value of the result fits a `ty` position"""
        r = self.r
        if "nn" in ty:
            st = self.stricten(ty["nn"])
            return st if "nn" in st else {"nn": st}
        inner = {"l": self.stricten(ty["l"])} if "l" in ty else dict(ty)
        return {"nn": inner} if r.random() < 0.5 else inner

    def new_var(self, ty, vars_):
        name = f"v{len(vars_)}"
        d = None
        if self.stricter_vars and self.r.random() < self.stricter_vars:
            st = self.stricten(ty)
            if st != ty:
                vars_[name] = (st, None); self.stats["vars"] += 1
                return name
        if is_nn(ty) and self.nullable_default_vars and base(ty) in self.sg.leaf_names and "l" not in unwrap_nn(ty) and self.r.random() < self.nullable_default_vars:
            # `$v: T = literal` used where T! is expected (legal: the default is non-null); an explicit null at run time
            # must fail the field, never reach the resolver
            vars_[name] = (unwrap_nn(ty), self.sg.const_literal(ty, 0))
            self.stats["vars"] += 1
            return name
        if not is_nn(ty) and self.r.random() < 0.3 and base(ty) in self.sg.leaf_names:
            d = self.sg.const_literal(ty, 0)
        elif is_nn(ty) and self.r.random() < 0.2 and base(ty) in self.sg.leaf_names:
            d = self.sg.const_literal(ty, 0)          # `$v: T! = literal`: omitted -> default, explicit null -> refused
        if not is_nn(ty) and "n" in ty and self.bad_var_defaults and self.r.random() < self.bad_var_defaults:
            wrong = {"String": [vint(12), vint(1), vfloat("1.5"), vbool(True)], "Int": [vstr("12"), vstr("1"), vfloat("1.5"), vbool(True)],
                     "Float": [vstr("1.5"), vstr("12"), vbool(False)], "Boolean": [vstr("true"), vint(1), vint(0)], "ID": [vfloat("1.5"), vbool(True)]}.get(ty["n"])
            if wrong: d = self.r.choice(wrong)
        if not is_nn(ty) and "l" in ty and self.bad_var_defaults and self.r.random() < self.bad_var_defaults and base(ty) in ("Int", "String", "Boolean", "Float"):
            # a list-typed variable whose default is a SINGLE value of the wrong kind, or a list holding one
            w1 = {"String": vint(12), "Int": vstr("a"), "Float": vstr("1.5"), "Boolean": vint(1)}[base(ty)]
            inner = unwrap_nn(ty["l"])
            if "l" in inner: d = self.r.choice([vlist([w1]), vlist([vlist([w1])]), w1])
            else: d = self.r.choice([w1, vlist([w1]), vlist([self.sg.const_literal({"nn": {"n": base(ty)}}, 0), w1])])
        vars_[name] = (ty, d)
        self.stats["vars"] += 1
        return name

    def arg_value(self, ty, vars_, depth=0, has_default=False):
        """a literal (possibly containing variables) valid at input position `ty`"""
        r = self.r
        if vars_ is not None and r.random() < 0.3:
            # a non-null position WITH a default also admits a nullable variable (omitted -> default, explicit null -> error)
            if has_default and is_nn(ty) and self.nullable_default_vars and r.random() < 0.6:
                return vvar(self.new_var(unwrap_nn(ty), vars_))
            return vvar(self.new_var(ty, vars_))
        lit = self.sg.const_literal(ty, depth)
        if vars_ is not None and self.nested_vars and r.random() < (0.35 if self.nested_vars is True else self.nested_vars):
            lit = self.nest_vars(ty, lit, vars_)
        return lit

    nested_vars = False      # place correctly typed variables INSIDE list / object literals (C05)
    repeat_with_directive = False   # select a key twice, the later occurrence under a variable @skip/@include

    def nest_vars(self, ty, lit, vars_):
        """replace some sub-literals of `lit` (valid at `ty`) by variables declared with the exact position type"""
        r = self.r
        t = unwrap_nn(ty)
        k = lit["kind"]
        if k == "ListValue" and "l" in t:
            return vlist([vvar(self.new_var(t["l"], vars_)) if r.random() < 0.4 else self.nest_vars(t["l"], x, vars_) for x in lit["values"]])
        if k == "ObjectValue":
            td = self.sg.tdef(base(t)) if "n" in t else (self.sg.tdef(base(t)) if "l" in t and "l" not in unwrap_nn(t["l"]) else None)
            if td is None or td["kind"] != "input": return lit
            fts = {f["name"]: f["type"] for f in td["fields"]}
            dft = {f["name"] for f in td["fields"] if f.get("default")}
            def fvar(fname):
                fty = fts[fname]
                if fname in dft and is_nn(fty) and self.nullable_default_vars and r.random() < 0.6: fty = unwrap_nn(fty)
                return vvar(self.new_var(fty, vars_))
            return vobj([(f["name"]["value"], fvar(f["name"]["value"]) if r.random() < 0.4 else self.nest_vars(fts[f["name"]["value"]], f["value"], vars_)) for f in lit["fields"]])
        return lit

    def args_text(self, f, vars_):
        parts = []
        for a in f["args"]:
            required = is_nn(a["type"]) and not a.get("default")
            if required or self.r.random() < 0.6:
                parts.append(f"{a['name']}: {print_value(self.arg_value(a['type'], vars_, has_default=bool(a.get('default'))))}")
        return ("(" + ", ".join(parts) + ")") if parts else ""

    note_directive = False   # emit the custom query-side directive @note(t: $var) (must be declared + registered by the check)

    def directives_text(self, vars_):
        r = self.r
        if self.note_directive and vars_ is not None and r.random() < 0.2:
            if r.random() < 0.4: return ' @note(t: "k")', True          # no variable involved
            v = self.new_var(N("String"), vars_)
            return f" @note(t: ${v})", True
        if r.random() > 0.15: return "", True
        self.stats["directives"] += 1
        if r.random() < 0.3:
            # BOTH directives on one selection, in either order (@skip wins whatever the order)
            parts = []
            for name in r.sample(["skip", "include"], 2):
                if vars_ is not None and r.random() < 0.3:
                    keep = self.nullable_default_vars
                    if not self.null_condition_vars: self.nullable_default_vars = 0.0
                    v = self.new_var(NN(N("Boolean")), vars_)
                    self.nullable_default_vars = keep
                    parts.append(f" @{name}(if: ${v})")
                else:
                    parts.append(f" @{name}(if: {'true' if r.random() < 0.5 else 'false'})")
            return "".join(parts), None
        name = r.choice(["skip", "include"])
        if vars_ is not None and r.random() < 0.4:
            keep = self.nullable_default_vars
            if not self.null_condition_vars: self.nullable_default_vars = 0.0
            v = self.new_var(NN(N("Boolean")), vars_)
            self.nullable_default_vars = keep
            return f" @{name}(if: ${v})", None
        b = r.random() < 0.5
        return f" @{name}(if: {'true' if b else 'false'})", (not b if name == "skip" else b)

    def hot_fields(self, fields):
        """fields returning an interface with >= 2 runtime types and a composite field: where per-runtime-type
        collection and merged sub-selections meet"""
        out = []
        for f in fields:
            b = base(f["type"])
            if b in self.sg.iface_names and len(self.sg.possible(b)) >= 2 and any(base(g["type"]) not in self.sg.leaf_names for g in self.sg.tdef(b)["fields"]):
                out.append(f)
        return out

    def selection_set(self, tn, depth, vars_):
        """text of a selection set on composite type `tn` (object / interface / union)"""
        r = self.r
        self.stats["depth"] = max(self.stats["depth"], depth)
        t = self.sg.tdef(tn)
        items = []
        fields = t["fields"] if t["kind"] in ("object", "interface") else []
        n = r.randint(1, 4)
        for _ in range(n):
            k = r.random()
            if depth > 4 or self.stats["fields"] > 60:
                leafs = [f for f in fields if base(f["type"]) in self.sg.leaf_names]
                items.append(self.field_text(r.choice(leafs), depth, vars_) if leafs else "__typename")
            elif fields and k < 0.6:
                items.append(self.field_text(r.choice(fields + self.hot_fields(fields) * 3), depth, vars_))
            elif k < 0.7:
                items.append("__typename")
            elif k < 0.85 and depth <= 4:
                # inline fragment: no condition, same type, or an overlapping type
                cands = [None, tn] + [c for c in self.sg.obj_names + self.sg.iface_names + self.sg.union_names if set(self.sg.possible(c)) & set(self.sg.possible(tn))]
                tc = r.choice(cands)
                d, _ = self.directives_text(vars_)
                self.stats["inline"] += 1
                items.append("... " + (f"on {tc}" if tc else "") + d + " " + self.selection_set(tc or tn, depth + 1, vars_))
            elif depth <= 4:
                items.append(self.spread_text(tn, depth, vars_))
        # merge booster: select an already selected composite field again, with another sub-selection,
        # plainly or under a narrower type condition (merged sub-selections, per-runtime-type collection)
        comp = [f for f in fields if base(f["type"]) not in self.sg.leaf_names and not any(is_nn(a["type"]) and not a.get("default") for a in f["args"])]
        abstract = t["kind"] == "interface" and len(self.sg.possible(tn)) >= 2
        if comp and depth <= (3 if abstract else 2) and self.stats["fields"] < 40 and r.random() < (0.7 if abstract else 0.3):
            f = r.choice(comp)
            again = f"{f['name']} " + self.selection_set(base(f["type"]), depth + 1, vars_)
            first = f"{f['name']} " + self.selection_set(base(f["type"]), depth + 1, vars_)
            narrower = [c for c in self.sg.possible(tn) if c != tn]
            if narrower and r.random() < (0.85 if abstract else 0.6):
                again = f"... on {r.choice(narrower)} {{ {again} }}"
            items += [first, again] if r.random() < 0.7 else [again, first]
            self.stats["merged"] += 1
            if abstract and again.startswith("..."): self.stats["abstract_merged"] = self.stats.get("abstract_merged", 0) + 1
        # the same leaf key selected again later with a (variable) directive: merged nodes with different directives
        if fields and vars_ is not None and self.repeat_with_directive and r.random() < 0.35:
            leafs = [f for f in fields if base(f["type"]) in self.sg.leaf_names and not f["args"]]
            if leafs:
                f = r.choice(leafs)
                v = self.new_var(NN(N("Boolean")), vars_)
                d = r.choice(["skip", "include"])
                items = [f["name"]] + items + [f"...  {{ {f['name']} @{d}(if: ${v}) }}" if r.random() < 0.5 else f"{f['name']} @{d}(if: ${v})"]
        if not items: items.append("__typename")
        return "{ " + " ".join(items) + " }"

    def field_text(self, f, depth, vars_):
        r = self.r
        self.stats["fields"] += 1
        at = self.args_text(f, vars_)
        sig = (f["name"], at)
        alias = ""
        if at and "$" not in at:
            # same response key must mean same field + same arguments: derive the alias from the signature
            if sig not in self.alias_of:
                self.nalias += 1; self.alias_of[sig] = f"k{self.nalias}"
            alias = self.alias_of[sig] + ": "; self.stats["aliases"] += 1
        elif at:
            self.nalias += 1; alias = f"k{self.nalias}: "; self.stats["aliases"] += 1
        elif r.random() < 0.1:
            self.nalias += 1; alias = f"k{self.nalias}: "; self.stats["aliases"] += 1
        d, _ = self.directives_text(vars_)
        b = base(f["type"])
        sub = ""
        if b not in self.sg.leaf_names:
            sub = " " + self.selection_set(b, depth + 1, vars_)
        return f"{alias}{f['name']}{at}{d}{sub}"

    def spread_text(self, tn, depth, vars_):
        r = self.r
        # reuse an existing fragment whose condition overlaps, or make a new one (fragments take no variables
        # of their own: variable uses inside fragments are recorded and declared by the operation)
        usable = [f for f in self.frags if set(self.sg.possible(f[1])) & set(self.sg.possible(tn)) and f[3] >= depth]
        if usable and r.random() < 0.5:
            f = r.choice(usable)
            self.stats["merged"] += 1
        else:
            cands = [c for c in self.sg.obj_names + self.sg.iface_names + self.sg.union_names + ([tn] if self.sg.tdef(tn)["kind"] == "object" else []) if set(self.sg.possible(c)) & set(self.sg.possible(tn))]
            if not cands: return "__typename"
            tc = r.choice(cands)
            self.nfrag += 1
            name = f"F{self.nfrag}"
            self.stats["fragments"] += 1
            entry = [name, tc, None, depth + 1]
            body = self.selection_set(tc, depth + 1, vars_)     # built BEFORE registration: no cycles, only DAG sharing
            entry[2] = body
            if self.def_directive and vars_ is not None and r.random() < 0.3:
                # a custom directive on the fragment DEFINITION, its argument a variable (declared by every operation reaching it)
                hv = self.new_var(N("String"), vars_)
                self.frag_heads[name] = f" @{self.def_directive}(t: ${hv})" if r.random() < 0.7 else f' @{self.def_directive}(t: "lit")' 
            self.frags.append(entry)
            f = entry
        d, _ = self.directives_text(vars_)
        return f"...{f[0]}{d}"

    def operation(self, kind, name):
        sg = self.sg
        root = {"query": "Query", "mutation": self.sg.mutation["name"] if self.sg.mutation else "Mutation", "subscription": "Subscription"}[kind]
        vars_ = {}
        body = self.selection_set(root, 0, vars_)
        return kind, name, vars_, body

    def document(self, n_ops=1):
        r = self.r
        ops = []
        shared_vars = {}
        for i in range(n_ops):
            kind = r.choice(self.op_kinds)
            name = f"Op{i}" if (n_ops > 1 or r.random() < 0.5) else None
            root = {"query": "Query", "mutation": self.sg.mutation["name"] if self.sg.mutation else "Mutation", "subscription": "Subscription"}[kind]
            body = self.selection_set(root, 0, shared_vars)
            ophead = ""
            if self.def_directive and r.random() < 0.25:
                hv = self.new_var(N("String"), shared_vars)
                ophead = f" @{self.def_directive}(t: ${hv})"
            ops.append((kind, name, body, ophead))
        # every operation declares every variable (fragments are shared, so uses are shared)
        # -> only spread fragments count for "used"; to stay valid each op must USE all it declares:
        # we therefore emit, per op, only variables that textually occur in its body or in fragments it reaches.
        frag_text = {f[0]: self.frag_heads.get(f[0], "") + f[2] for f in self.frags}
        def reach(body, seen):
            import re
            for m in re.finditer(r"\.\.\.(F\d+)", body):
                if m.group(1) not in seen:
                    seen.add(m.group(1)); reach(frag_text[m.group(1)], seen)
            return seen
        texts = []
        used_frags = set()
        op_vars = []
        for kind, name, body, ophead in ops:
            import re
            seen = reach(body, set())
            used_frags |= seen
            alltext = ophead + body + " ".join(frag_text[f] for f in seen)
            names = sorted(set(re.findall(r"\$(v\d+)", alltext)), key=lambda s: int(s[1:]))
            decl = ""
            if names:
                decl = "(" + ", ".join(f"${n}: {tstr(shared_vars[n][0])}" + (f" = {print_value(shared_vars[n][1])}" if shared_vars[n][1] else "") for n in names) + ")"
            head = "" if (kind == "query" and name is None and not decl and not ophead) else f"{kind} {name or ''}{decl}{ophead} "
            texts.append(head + body)
            op_vars.append({n: shared_vars[n] for n in names})
        for f in self.frags:
            if f[0] in used_frags:
                texts.append(f"fragment {f[0]} on {f[1]}{self.frag_heads.get(f[0], '')} {f[2]}")
        if r.random() < 0.5: texts.reverse()        # fragments defined before use, operations last
        doc_text = "\n".join(texts)
        # operation names and fragment names are separate namespaces: a used fragment may carry the name of an operation
        named_ops = [n for _, n, _, _ in ops if n]
        if self.share_names and named_ops and used_frags and r.random() < self.share_names:
            import re
            fr_ = r.choice(sorted(used_frags)); on_ = r.choice(named_ops)
            doc_text = re.sub(r"\.\.\." + fr_ + r"\b", "..." + on_, doc_text)
            doc_text = re.sub(r"^fragment " + fr_ + r" on ", "fragment " + on_ + " on ", doc_text, flags=re.M)
        return doc_text, [(k, n) for k, n, _, _ in ops], op_vars

    def floatify(self, ty, val):
        """the same valid JSON value with some integers at Int positions spelled as integral floats (3 -> 3.0): accepted for
        Int, and what reaches the resolver is the integer"""
        r = self.r
        t0 = unwrap_nn(ty)
        if val is None: return None
        if "l" in t0:
            return [self.floatify(t0["l"], x) for x in val] if isinstance(val, list) else self.floatify(t0["l"], val)
        b = t0["n"]
        if b == "Int" and isinstance(val, int) and not isinstance(val, bool) and r.random() < 0.6: return float(val)
        td = self.sg.tdef(b) if b not in ("Int", "Float", "String", "Boolean", "ID", "Any") else None
        if td is not None and td["kind"] == "input" and isinstance(val, dict):
            fts = {f["name"]: f["type"] for f in td["fields"]}
            return {k: (self.floatify(fts[k], v) if k in fts else v) for k, v in val.items()}
        return val

    def spoil_json(self, ty, val):
        """(value, what) with exactly one position of the valid JSON `val` for type `ty` made invalid, or None"""
        r = self.r
        sites = []
        def walk(t, v, setter):
            nn = is_nn(t); t0 = unwrap_nn(t)
            if v is None: return
            if nn: sites.append((setter, None, "null at non-null"))
            if "l" in t0:
                if isinstance(v, list):
                    for i, x in enumerate(v): walk(t0["l"], x, (lambda c, i=i, v=v: v.__setitem__(i, c)))
                else:
                    walk(t0["l"], v, setter)
                return
            b = t0["n"]
            td = self.sg.tdef(b) if b not in ("Int", "Float", "String", "Boolean", "ID", "Any") else None
            if td is not None and td["kind"] == "input" and isinstance(v, dict):
                for f in td["fields"]:
                    if f["name"] in v: walk(f["type"], v[f["name"]], (lambda c, k=f["name"], v=v: v.__setitem__(k, c)))
                    if f["name"] in v and is_nn(f["type"]) and not f.get("default"): sites.append(((lambda c, k=f["name"], v=v: v.pop(k)), "POP", "required field dropped"))
                sites.append(((lambda c, v=v: v.__setitem__("zz_unknown", 1)), 1, "unknown field"))
            elif b != "Any":
                wrong = {"Int": ["1", 1.5, True, 2**31], "Float": ["1.5", True], "String": [1, True], "Boolean": [1, "true"], "ID": [1.5, True]}.get(b, [1, "NOPE_VALUE", True])
                sites.append((setter, r.choice(wrong), "leaf of the wrong kind"))
        box = [json.loads(json.dumps(val))]
        walk(ty, box[0], (lambda c: box.__setitem__(0, c)))
        if not sites: return None
        setter, c, what = r.choice(sites)
        setter(c)
        return box[0], what

    def variables_for(self, vars_, invalid=0.0):
        """a JSON variables object for declared variables: valid unless `invalid` strikes"""
        r = self.r
        out = {}
        bad = False
        for n, (ty, d) in vars_.items():
            if r.random() < invalid:
                bad = True
                k = r.random()
                if k < 0.3 and is_nn(ty): continue                     # missing required
                if k < 0.5 and is_nn(ty): out[n] = None; continue
                out[n] = r.choice(["notanumber", 1.5, True, [1, "x"], {"zz": 1}, 2**31, -1, {"x": "a"}, [[None]], "Z"])
                if r.random() < 0.5:
                    # near-valid: a valid value with ONE position spoiled (null at a non-null place, required field dropped,
                    # unknown field added, leaf of the wrong kind) at any depth
                    spoiled = self.spoil_json(ty, value_to_json(self.sg.const_literal(ty, 0, allow_null=False)))
                    if spoiled is not None: out[n] = spoiled[0]
                if base(ty) == "Near" and r.random() < 0.7:      # a mistyped key close to several declared ones
                    out[n] = r.choice([{"alpha": 1}, {"alpha1": 1, "alpah2": 2}, {"alpha5": 3}])
                    if "l" in unwrap_nn(ty): out[n] = [out[n]]
                continue
            if not is_nn(ty) and (d is not None or True) and r.random() < 0.25: continue     # omitted (default or absent)
            if is_nn(ty) and d is not None:
                k = r.random()
                if k < 0.4: continue                                   # omitted: the default applies
                if k < 0.6 and invalid > 0: bad = True; out[n] = None; continue    # explicit null for a non-null variable: refused despite the default
            if not is_nn(ty) and r.random() < (0.3 if d is not None else 0.1): out[n] = None; continue      # explicit null for a nullable variable (default NOT applied)
            lit = self.sg.const_literal(ty, 0)
            out[n] = value_to_json(lit)
            if r.random() < 0.3: out[n] = self.floatify(ty, out[n])
            t0_ = unwrap_nn(ty)
            if "l" in t0_ and "l" in unwrap_nn(t0_["l"]) and r.random() < 0.35:
                # a bare (non-list) value for a list of lists: wrapped once PER LEVEL ([[5]] for [[Int]])
                leaf_t = t0_
                while "l" in unwrap_nn(leaf_t): leaf_t = unwrap_nn(leaf_t)["l"]
                out[n] = value_to_json(self.sg.const_literal({"nn": unwrap_nn(leaf_t)}, 0))
                if r.random() < 0.3: out[n] = [out[n]]      # ... or a flat list for it: each item wrapped
        if r.random() < 0.2: out["extra_undeclared"] = 1
        return out, bad
