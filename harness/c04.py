import env, sys
import execcheck
RULE = {
 "C01": "type-directed valid documents (aliases, merged keys, fragment DAGs with sharing, inline fragments, @skip/@include with literals and variables, several operations) over generated schemas with resolver data trees; non-trivial = data non-null and >= 2 resolver calls; distinct by hash of (query, operation, variables, environment)",
 "C02": "as C01 with ~35% failing root resolvers, failing nested resolvers and 8% garbage values; non-trivial = at least one error while data is not null (a failure was contained); distinct by input hash",
 "C03": "as C01 with 35% adversarial resolver values at every position (NaN, inf, huge ints, strings for numbers, wrong containers, exceptions as values, unknown runtime types); non-trivial = non-null data together with errors; distinct by input hash",
 "C04": "as C01 with 35% of the variables made invalid (missing required, null for non-null, wrong kinds, unknown / missing input fields, out-of-range numbers); non-trivial = request carries variables; distinct by input hash",
 "C05": "as C01; echo fields of every input type shape make coerced arguments observable; non-trivial = some resolver received a non-empty argument dictionary; distinct by input hash",
}["C04"]
ASSUME = ["the Lean executor model (Impl/Exec.lean, Impl/Input.lean) is hand-written: its agreement with the engine is established on the generated requests only",
          "text -> JSON AST is done by harness/gqlshim.py (the native parser is absent in this sandbox)",
          "resolver values are restricted to the modelled Python universe (Base/PyVal.lean)"]
if __name__ == "__main__":
    sys.exit(execcheck.main("C04", RULE, ASSUME))
