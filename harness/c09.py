"""C09 — mutation root fields run serially, in document order."""
import env, sys, json
import framework as fw
import engine_runner as er
import oracles as orc
import c08
from model import Model
from pyval import enc

def serial_oracle(b, q, opn, variables, hub, resp):
    doc = er.parse_doc(q)
    op = orc.operation_of(doc, opn)
    if op is None or op["operation"] != "mutation": return []
    sv = orc.SchemaView(b.model)
    keys = list(orc.collect(sv, doc, sv.root("mutation"), op["selectionSet"], orc.effective_bool_vars(op, variables)).keys())
    rank = {k: i for i, k in enumerate(keys)}
    pr = []
    open_ = set()
    max_started = -1
    for ev, (coord, path) in hub.events:
        r = rank.get(path[0])
        if r is None: pr.append(f"resolver at {list(path)} outside the collected root keys"); continue
        if ev == "start":
            # nothing belonging to an EARLIER root field may still be in flight, nothing of a LATER one may have started
            for (c2, p2) in open_:
                if rank.get(p2[0], -1) < r: pr.append(f"root field {path[0]!r} started while {list(p2)} of the previous root field {p2[0]!r} was still running")
            if r < max_started: pr.append(f"resolver under root field {path[0]!r} started after the later root field {keys[max_started]!r} had started")
            max_started = max(max_started, r)
            open_.add((coord, path))
        else:
            open_.discard((coord, path))
    data = resp.get("data")
    if isinstance(data, dict):
        got = list(data.keys())
        # every collected root field is listed (a null one as null), in document order
        if got != keys: pr.append(f"root fields listed as {got}, the collected root fields in document order are {keys}")
    # "a failing non-null root field nulls data": no null may stand at a non-null position of the answer
    try:
        pr += [x for x in orc.check_conforms(b.model, doc, opn, variables, enc(data)) if x.startswith("null at non-null")][:1]
    except Exception:
        pass
    return pr[:3]

RULE = "generated MUTATION requests (several root fields, aliases, fragments at the root, nested gated resolvers, failing nullable and non-null roots) on engines built with 4-8 concurrency configurations, under first / last / random / (few gates) all schedules; oracle on the real start/finish event log: no resolver of root field j starts while anything of an earlier root field is in flight; root keys in document order; non-trivial = at least two resolvers awaited at the same time"
if __name__ == "__main__":
    tier = sys.argv[1] if len(sys.argv) > 1 else "quick"
    seed = int(sys.argv[2]) if len(sys.argv) > 2 else 0
    T0 = __import__("time").time()
    b = fw.build("C09", thorough=(tier == "thorough"))
    m = Model() if b["driver_ok"] else None
    stats = c08.main_explore("C09", tier, seed + 9, m, mutation_only=True, extra_oracle=serial_oracle)
    if m: m.close()
    sys.exit(c08.finish("C09", tier, seed, b, m, stats, RULE, c08.ASSUME, T0))
