"""Process environment for every harness entry point: repository path, parser substitute."""
import os, sys
HERE = os.path.dirname(os.path.abspath(__file__))
VERIF = os.path.dirname(HERE)
REPO = os.environ.get("VERIF_REPO", "/repo")
os.environ.setdefault("TARTIFLETTE_VERIF", "1")
if HERE not in sys.path: sys.path.insert(0, HERE)
if REPO not in sys.path: sys.path.insert(0, REPO)
import gqlshim
gqlshim.install()
sys.dont_write_bytecode = True
