"""Known-finding class predicates (harness side of DESIGN §6.1): (case, problems) -> bool.
A violation is suppressed only when its input satisfies the class predicate of a listed
`known` finding."""
import re

def _has_nested_variable(j):
    """a Variable node inside a ListValue / ObjectValue of some argument"""
    found = False
    def walk(x, inside):
        nonlocal found
        if isinstance(x, dict):
            k = x.get("kind")
            if k == "Variable" and inside: found = True
            ins = inside or k in ("ListValue", "ObjectValue")
            for v in x.values(): walk(v, ins)
        elif isinstance(x, list):
            for v in x: walk(v, inside)
    walk(j, False)
    return found

def nested_variable_untyped(c, problems):
    """document has a variable nested in a list/object literal and every complaint is about the
    argument value delivered for it"""
    return _has_nested_variable(c.doc) and bool(problems) and all(
        ("a value of another type" in p) or ("do not coerce" in p) for p in problems)


def _embedded_exc_messages(j, acc, depth=0):
    if isinstance(j, dict):
        if "x" in j and "m" in j and depth > 0 and j["m"]: acc.add(j["m"])      # (the model reports every non-resolver error with an empty message)
        for v in j.values(): _embedded_exc_messages(v, acc, depth + 1)
    elif isinstance(j, list):
        for v in j: _embedded_exc_messages(v, acc, depth + 1)
    return acc

def shared_exception_instance(c, problems):
    """an exception INSTANCE embedded in resolver data is reached through two response keys: the engine
    patches path/locations into the instance only once, so the second report repeats the first path"""
    msgs = set()
    for spec in (c.renv.get("resolvers") or {}).values():
        if "v" in spec: _embedded_exc_messages(spec["v"], msgs)
    if not msgs: return False
    seen = {}
    for e in c.real["errors"]:
        if e["message"] in msgs:
            k = (e["message"], str(e["path"]))
            seen[k] = seen.get(k, 0) + 1
    if not any(n >= 2 for n in seen.values()): return False
    # nothing else may be wrong: data must agree with the model and every other error too
    from pyval import same
    if c.mod is None or "fail" in c.mod or not same(c.mod["data"], c.real["data"]): return False
    other_r = sorted(str([e["path"], e["locations"]]) for e in c.real["errors"] if e["message"] not in msgs)
    other_m = sorted(str([e["path"], sorted([l["line"], l["column"]] for l in e["locations"])]) for e in c.mod["errors"] if e["message"] not in msgs)
    return set(other_r) == set(other_m) and len([e for e in c.real["errors"] if e["message"] in msgs]) == len([e for e in c.mod["errors"] if e["message"] in msgs])


def null_condition_variable(c, problems):
    """a selection carries @skip / @include whose `if` is a (nullable, defaulted) variable given an explicit null, and every
    complaint is about that selection having vanished (missing response key / resolver never called)"""
    names = set(re.findall(r"@(?:skip|include)\(if: \$(\w+)\)", c.query if isinstance(c.query, str) else ""))
    vs = c.variables if isinstance(c.variables, dict) else {}
    if not any(n in vs and vs[n] is None for n in names): return False
    return bool(problems) and all(("!= selected" in p) or ("called 0 times" in p) or ("but no error is reported for that field" in p) for p in problems)
