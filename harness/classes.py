"""Known-finding class predicates (harness side of DESIGN §6.1): (case, problems) -> bool.
A violation is suppressed only when its input satisfies the class predicate of a listed
`known` finding."""
import re

def _has_nested_variable(j):
    """a Variable node inside a ListValue / ObjectValue of some argument"""
    found = False
    def walk(x, inside):
        nonlocal found
        if isinstance(x, dict):
            k = x.get("kind")
            if k == "Variable" and inside: found = True
            ins = inside or k in ("ListValue", "ObjectValue")
            for v in x.values(): walk(v, ins)
        elif isinstance(x, list):
            for v in x: walk(v, inside)
    walk(j, False)
    return found

def nested_variable_untyped(c, problems):
    """document has a variable nested in a list/object literal and every complaint is about the
    argument value delivered for it"""
    return _has_nested_variable(c.doc) and bool(problems) and all(
        ("a value of another type" in p) or ("specification prescribes" in p) or ("do not coerce" in p) for p in problems)
