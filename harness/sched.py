"""Controlled event loop: every explicit resolver awaits a gate; the driver runs the loop to
quiescence, reads the set of awaited gates, lets the schedule choose one, completes it, repeats."""
import asyncio, itertools
from asyncio import events

class Hub:
    def __init__(self):
        self.pending = {}      # (coord, path tuple) -> future
        self.started = []      # every gate ever awaited, in order
        self.finished = []
        self.events = []       # ("start"|"finish", key) in real order
    async def gate(self, coord, path, ctx=None):
        key = (coord, tuple(path))
        fut = asyncio.get_running_loop().create_future()
        self.started.append(key); self.events.append(("start", key))
        self.pending[key] = fut
        await fut
        self.finished.append(key); self.events.append(("finish", key))

def gate_sort_key(k):
    return (k[0], tuple((0, s) if isinstance(s, str) else (1, s) for s in k[1]))

def drive(loop, coro_factory, hubs, choose, max_steps=10000):
    """run coroutine(s) under a schedule. `hubs`: list of Hub (one per request); `choose(pend)` gets the
    sorted list of (hub index, coord, path) and returns an index.  Returns (results, trace, leftovers)."""
    old = events._get_running_loop()
    events._set_running_loop(loop)
    try:
        tasks = [loop.create_task(c) for c in coro_factory()]
        trace = []
        steps = 0
        while True:
            while loop._ready:
                loop._run_once()
            if all(t.done() for t in tasks): break
            pend = sorted(((i, k[0], k[1]) for i, h in enumerate(hubs) for k in h.pending), key=lambda x: (x[0],) + gate_sort_key((x[1], x[2])))
            if not pend:
                if loop._scheduled:      # timers (should not happen): let them fire
                    loop._run_once(); continue
                raise RuntimeError("quiescent with unfinished request and nothing awaited (lost wake-up)")
            trace.append(pend)
            k = choose(pend)
            i, coord, path = pend[k]
            fut = hubs[i].pending.pop((coord, path))
            fut.set_result(None)
            steps += 1
            if steps > max_steps: raise RuntimeError("schedule does not terminate")
        results = []
        for t in tasks:
            try: results.append(("ok", t.result()))
            except BaseException as e: results.append(("raised", e))
        leftovers = [t for t in asyncio.all_tasks(loop) if not t.done()]
        return results, trace, leftovers
    finally:
        events._set_running_loop(old)


class MultiHub:
    """dispatches gates to one Hub per request; the request index travels in the resolver `ctx`"""
    def __init__(self, n): self.hubs = [Hub() for _ in range(n)]
    async def gate(self, coord, path, ctx=None):
        await self.hubs[ctx["req"]].gate(coord, path)
