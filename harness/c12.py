"""C12 — an engine is never built from an SDL that breaks a checked schema rule."""
import env, sys, json, random, time, hashlib, copy, itertools
import framework as fw
import engine_runner as er
import c11
from gen import base
from model import Model

def wrap(t, rng):
    k = rng.randrange(4)
    if k == 0: return t
    if k == 1: return {"nn": t}
    if k == 2: return {"l": t}
    return {"nn": {"l": {"nn": t}}}

def set_base(t, name):
    if "n" in t: return {"n": name}
    if "l" in t: return {"l": set_base(t["l"], name)}
    return {"nn": set_base(t["nn"], name)}

def mutations(M, rng):
    """(intent, mutated model, options) — options: implemented scalars to withhold, sync hook"""
    out = []
    objs = [d for d in M["defs"] if d["kind"] == "object"]
    ifaces = [d for d in M["defs"] if d["kind"] == "interface"]
    inputs = [d for d in M["defs"] if d["kind"] == "input"]
    enums = [d for d in M["defs"] if d["kind"] == "enum"]
    unions = [d for d in M["defs"] if d["kind"] == "union"]
    def clone(): return copy.deepcopy(M)
    def pick_def(m, kind, where="defs"):
        c = [d for d in m[where] if d["kind"] == kind and (d.get("fields") or d.get("values") or d.get("members"))]
        return rng.choice(c) if c else None
    # undefined types
    for where in ("defs", "exts"):
        for kind in ("object", "interface"):
            m = clone(); d = pick_def(m, kind, where)
            if d and d["fields"]:
                f = rng.choice(d["fields"]); f["type"] = wrap({"n": "GhostType"}, rng); out.append((f"undefined-field-type/{where}/{kind}", m, {}))
            m = clone(); d = pick_def(m, kind, where)
            if d and d["fields"]:
                f = rng.choice(d["fields"]); f["args"] = f["args"] + [{"name": "zz", "type": wrap({"n": "GhostType"}, rng), "default": None}]; out.append((f"undefined-argument-type/{where}/{kind}", m, {}))
        m = clone(); d = pick_def(m, "input", where)
        if d and d["fields"]:
            d["fields"].append({"name": "zz", "type": wrap({"n": "GhostType"}, rng), "default": None}); out.append((f"undefined-input-field-type/{where}", m, {}))
    if M["directives"]:
        m = clone(); m["directives"][0]["args"].append({"name": "zz", "type": {"n": "GhostType"}, "default": None}); out.append(("undefined-type/directive-argument", m, {}))
    # non-input types in input positions
    if objs:
        on = rng.choice(objs)["name"]
        m = clone(); d = pick_def(m, "object")
        if d: rng.choice(d["fields"])["args"].append({"name": "zz", "type": wrap({"n": on}, rng), "default": None}); out.append(("object-type-as-argument", m, {}))
        m = clone(); d = pick_def(m, "input")
        if d: d["fields"].append({"name": "zz", "type": wrap({"n": on}, rng), "default": None}); out.append(("object-type-as-input-field", m, {}))
        if inputs:
            m = clone(); d = pick_def(m, "object")
            if d: d["fields"].append({"name": "zz", "args": [], "type": wrap({"n": inputs[0]["name"]}, rng), "deprecated": None, "hidden": False}); out.append(("input-type-as-field-type", m, {}))
    # interface conformance
    full = {}
    for d in M["defs"] + M["exts"]:
        if d["kind"] == "object":
            e = full.setdefault(d["name"], {"fields": [], "interfaces": []}); e["fields"] += d["fields"]; e["interfaces"] += d.get("interfaces") or []
    ifull = {}
    for d in M["defs"] + M["exts"]:
        if d["kind"] == "interface": ifull.setdefault(d["name"], []).extend(d["fields"])
    impl = [(o, i) for o, e in full.items() for i in e["interfaces"] if i in ifull and ifull[i]]
    if impl:
        o, i = rng.choice(impl); fname = rng.choice(ifull[i])["name"]
        def edit_obj_field(m, fn):
            for d in m["defs"] + m["exts"]:
                if d["kind"] == "object" and d["name"] == o:
                    for f in list(d["fields"]):
                        if f["name"] == fname: fn(d, f)
        m = clone(); edit_obj_field(m, lambda d, f: d["fields"].remove(f)); out.append(("interface-field-missing", m, {}))
        m = clone(); edit_obj_field(m, lambda d, f: f.__setitem__("type", {"n": "Boolean"} if base(f["type"]) != "Boolean" else {"n": "Int"})); out.append(("interface-field-type-incompatible", m, {}))
        # same named type, other list / non-null shape (covariant shapes are not violations: the Lean specification decides)
        def reshape(t):
            b_ = {"n": base(t)}
            shapes = [b_, {"nn": b_}, {"l": b_}, {"nn": {"l": b_}}, {"l": {"nn": b_}}, {"nn": {"l": {"nn": b_}}}, {"l": {"l": b_}}]
            return rng.choice([x for x in shapes if x != t])
        for _ in range(3):
            m = clone(); edit_obj_field(m, lambda d, f: f.__setitem__("type", reshape(f["type"]))); out.append(("interface-field-type-rewrapped", m, {}))
        # an abstract field type narrowed to one of its possible types AND re-wrapped ([Impl] where Iface is declared ...)
        absf = [(o2, i2, f) for o2, i2 in impl for f in ifull[i2] if any(dd["kind"] in ("interface", "union") and dd["name"] == base(f["type"]) for dd in M["defs"])]
        for (o, i, f0) in absf[:2]:
            fname = f0["name"]; ab = base(f0["type"])
            members = [o3 for o3, e3 in full.items() if ab in e3["interfaces"]] + [m_ for dd in M["defs"] + M["exts"] if dd["kind"] == "union" and dd["name"] == ab for m_ in dd["members"]]
            if members:
                for _ in range(2):
                    nb = rng.choice(members)
                    def narrow(d, f, nb=nb):
                        t = reshape(f["type"]); js = json.dumps(t).replace(json.dumps({"n": ab}), json.dumps({"n": nb})); f["type"] = json.loads(js)
                    m = clone(); edit_obj_field(m, narrow); out.append(("interface-field-type-narrowed-rewrapped", m, {}))
        # the same on a synthesised self-referencing field (always available): the interface declares `selfRef: I`, every
        # implementer follows, except one that answers with a LIST (or a list of non-null ...) of itself
        for shape in rng.sample(["l", "lnn", "nnl", "ll"], 2):
            m = clone(); o_, i_ = rng.choice(impl)
            for d in m["defs"]:
                if d["kind"] == "interface" and d["name"] == i_:
                    d["fields"].append({"name": "selfRef", "args": [], "type": {"n": i_}, "deprecated": None, "hidden": False})
            done = set()
            for d in m["defs"]:
                if d["kind"] == "object" and d["name"] in full and i_ in full[d["name"]]["interfaces"] and d["name"] not in done:
                    done.add(d["name"])
                    b_ = {"n": d["name"]}
                    ty = {"n": i_} if d["name"] != o_ else {"l": {"l": b_}, "lnn": {"l": {"nn": b_}}, "nnl": {"nn": {"l": b_}}, "ll": {"l": {"l": b_}}}[shape]
                    d["fields"].append({"name": "selfRef", "args": [], "type": ty, "deprecated": None, "hidden": False})
            out.append(("interface-field-type-narrowed-rewrapped", m, {}))
        m = clone(); edit_obj_field(m, lambda d, f: f.__setitem__("args", f["args"] + [{"name": "extraRequired", "type": {"nn": {"n": "Int"}}, "default": None}])); out.append(("interface-extra-required-argument", m, {}))
        withargs = [(o2, i2, f) for o2, i2 in impl for f in ifull[i2] if f["args"]]
        if withargs:
            o, i, f0 = rng.choice(withargs); fname = f0["name"]
            m = clone(); edit_obj_field(m, lambda d, f: f.__setitem__("args", f["args"][1:])); out.append(("interface-argument-missing", m, {}))
            m = clone(); edit_obj_field(m, lambda d, f: f["args"][0].__setitem__("type", {"n": "Boolean"} if base(f["args"][0]["type"]) != "Boolean" else {"n": "Int"})); out.append(("interface-argument-mistyped", m, {}))
            for _ in range(2):
                m = clone(); edit_obj_field(m, lambda d, f: f["args"][0].__setitem__("type", reshape(f["args"][0]["type"]))); out.append(("interface-argument-rewrapped", m, {}))
    if objs and len(objs) >= 2:
        m = clone(); d = pick_def(m, "object"); other = rng.choice([x["name"] for x in objs if x["name"] != d["name"]] + ([enums[0]["name"]] if enums else []))
        d["interfaces"] = (d.get("interfaces") or []) + [other]; out.append(("implements-non-interface", m, {}))
    # roots
    m = clone()
    for d in m["defs"]:
        if d["name"] == m["query"]: d["name"] = "NotTheRoot"
    m["exts"] = [e for e in m["exts"] if e["name"] != M["query"]]
    out.append(("no-query-root", m, {}))
    m = clone(); m["mutation"] = "GhostMutation"; out.append(("undefined-mutation-root", m, {"force_schema_def": True}))
    # an undefined root that carries the DEFAULT name of another operation (mutation: Subscription ...)
    defined = {d["name"] for d in M["defs"]}
    for op_, nm_ in (("mutation", "Subscription"), ("mutation", "Query"), ("subscription", "Mutation")):
        if nm_ not in defined:
            m = clone(); m[op_] = nm_; out.append((f"undefined-{op_}-root/default-name-of-another", m, {"force_schema_def": True}))
    # empty object
    cand = [d for d in objs if d["name"] not in (M["query"], M["mutation"], M["subscription"])]
    if cand:
        m = clone()
        nm = rng.choice(cand)["name"]
        for d in m["defs"]:
            if d["name"] == nm: d["fields"] = []
        m["exts"] = [e for e in m["exts"] if e["name"] != nm]
        out.append(("object-without-fields", m, {}))
    # ...the same for each ROOT type (the engine injects __schema / __type / __typename there: they do not count as fields)
    for rootn in [x for x in (M["query"], M["mutation"]) if x]:
        m = clone()
        for d in m["defs"]:
            if d["name"] == rootn: d["fields"] = []; d["interfaces"] = []
        m["exts"] = [e for e in m["exts"] if e["name"] != rootn]
        out.append(("root-object-without-fields", m, {}))
    if unions:
        m = clone(); d = pick_def(m, "union"); d["members"].append(d["name"]); out.append(("union-containing-itself", m, {}))
        m = clone(); d = pick_def(m, "union"); d["members"].append(d["members"][0]); out.append(("duplicate-union-member", m, {}))
    if enums:
        m = clone(); d = pick_def(m, "enum"); d["values"].append(dict(d["values"][0])); out.append(("duplicate-enum-value", m, {}))
        # ... the second occurrence decorated differently (deprecated / not): still the same NAME twice
        m = clone(); d = pick_def(m, "enum"); dup = dict(d["values"][0]); dup["deprecated"] = None if dup.get("deprecated") is not None else "use the other one"
        d["values"].insert(rng.randrange(1, len(d["values"]) + 1), dup); out.append(("duplicate-enum-value/other-decoration", m, {}))
        m = clone(); d = pick_def(m, "enum"); dup = dict(d["values"][-1]); dup["deprecated"] = None if dup.get("deprecated") is not None else "No longer supported"
        m["exts"].append({"kind": "enum", "name": d["name"], "values": [dup]}); out.append(("extension-duplicate-enum-value/other-decoration", m, {}))
        m = clone(); d = pick_def(m, "enum"); m["exts"].append({"kind": "enum", "name": d["name"], "values": [dict(d["values"][0])]}); out.append(("extension-duplicate-enum-value", m, {}))
    m = clone(); m["defs"].append(copy.deepcopy(rng.choice(m["defs"]))); out.append(("duplicate-type-definition", m, {}))
    # the same NAME defined twice with DIFFERENT kinds, in both orders (a later enum / input / union / scalar / object of that name)
    victims = [d for d in M["defs"] if d["name"] not in (M["query"], M["mutation"], M["subscription"])]
    if victims:
        for mk in ("enum", "input", "union", "scalar", "object"):
            v = rng.choice(victims)
            if v["kind"] == mk: continue
            other = {"enum": {"kind": "enum", "name": v["name"], "values": [{"name": "DUPA", "deprecated": None}, {"name": "DUPB", "deprecated": None}]},
                     "input": {"kind": "input", "name": v["name"], "fields": [{"name": "dupf", "type": {"n": "Int"}, "default": None}]},
                     "union": {"kind": "union", "name": v["name"], "members": [objs[0]["name"]] if objs else []},
                     "scalar": {"kind": "scalar", "name": v["name"]},
                     "object": {"kind": "object", "name": v["name"], "interfaces": [], "fields": [{"name": "dupf", "args": [], "type": {"n": "Int"}, "deprecated": None, "hidden": False}]}}[mk]
            if mk == "union" and not objs: continue
            m = clone()
            pos = rng.choice(["after", "before"])
            if pos == "after": m["defs"].append(other)
            else: m["defs"].insert(0, other)
            out.append((f"duplicate-type-name-across-kinds/{v['kind']}-then-{mk}" if pos == "after" else f"duplicate-type-name-across-kinds/{mk}-then-{v['kind']}", m, {"withhold": []}))
    if M["directives"]:
        m = clone(); m["directives"].append(copy.deepcopy(m["directives"][0])); out.append(("duplicate-directive-definition", m, {}))
    m = clone(); m["defs"].append({"kind": "scalar", "name": "Unimplemented"}); out.append(("scalar-without-implementation", m, {"withhold": ["Unimplemented"]}))
    # extensions
    m = clone(); m["exts"].append({"kind": "object", "name": "GhostTarget", "fields": [{"name": "x", "args": [], "type": {"n": "Int"}, "deprecated": None, "hidden": False}], "interfaces": []}); out.append(("extend-unknown-target", m, {}))
    if enums and objs:
        m = clone(); m["exts"].append({"kind": "enum", "name": objs[0]["name"], "values": [{"name": "ZZ", "deprecated": None}]}); out.append(("extend-wrong-kind", m, {}))
    if objs:
        m = clone(); d = pick_def(m, "object"); m["exts"].append({"kind": "object", "name": d["name"], "fields": [copy.deepcopy(d["fields"][0])], "interfaces": []}); out.append(("extension-duplicate-field", m, {}))
    if unions:
        m = clone(); d = pick_def(m, "union"); m["exts"].append({"kind": "union", "name": d["name"], "members": [d["members"][0]]}); out.append(("extension-duplicate-union-member", m, {}))
    if inputs:
        m = clone(); d = pick_def(m, "input")
        if d: m["exts"].append({"kind": "input", "name": d["name"], "fields": [copy.deepcopy(d["fields"][0])]}); out.append(("extension-duplicate-input-field", m, {}))
    if impl:
        o, i = rng.choice(impl)
        m = clone(); m["exts"].append({"kind": "object", "name": o, "fields": [], "interfaces": [i]}); out.append(("extension-duplicate-interface", m, {}))
    if ifaces:
        m = clone(); d = pick_def(m, "interface")
        if d: m["exts"].append({"kind": "interface", "name": d["name"], "fields": [copy.deepcopy(d["fields"][0])]}); out.append(("extension-duplicate-interface-field", m, {}))
    # the same NEW member added by two different extensions of one type
    def newfield(name="fresh"): return {"name": name, "args": [], "type": {"n": "Int"}, "deprecated": None, "hidden": False}
    for kind in ("object", "interface", "input"):
        m = clone(); d = pick_def(m, kind)
        if d:
            mk = (lambda: {"name": "fresh", "type": {"n": "Int"}, "default": None}) if kind == "input" else newfield
            for _ in range(2):
                e = {"kind": kind, "name": d["name"], "fields": [mk()]}
                if kind == "object": e["interfaces"] = []
                m["exts"].insert(rng.randrange(len(m["exts"]) + 1), e)
            if kind == "interface":     # keep implementers conforming: the only broken rule is the duplicate
                for o in m["defs"]:
                    if o["kind"] == "object" and d["name"] in (full.get(o["name"], {}).get("interfaces") or []): o["fields"].append(newfield())
            out.append((f"two-extensions-add-same-field/{kind}", m, {}))
    if unions and len(objs) >= 1:
        m = clone(); d = pick_def(m, "union")
        cand = [o["name"] for o in objs if o["name"] not in full_union_members(M, d["name"])]
        if cand:
            x = rng.choice(cand)
            for _ in range(2): m["exts"].append({"kind": "union", "name": d["name"], "members": [x]})
            out.append(("two-extensions-add-same-union-member", m, {}))
    if enums:
        m = clone(); d = pick_def(m, "enum")
        for _ in range(2): m["exts"].append({"kind": "enum", "name": d["name"], "values": [{"name": "FRESH", "deprecated": None}]})
        out.append(("two-extensions-add-same-enum-value", m, {}))
    # rules broken on an interface that NO object implements (no implementer can mask or double the violation)
    lonely = lambda fields: {"kind": "interface", "name": "Lonely", "fields": fields}
    m = clone(); m["defs"].append(lonely([{"name": "f", "args": [{"name": "a", "type": wrap({"n": "GhostType"}, rng), "default": None}], "type": {"n": "Int"}, "deprecated": None, "hidden": False}]))
    out.append(("undefined-argument-type/unimplemented-interface", m, {}))
    m = clone(); m["defs"].append(lonely([{"name": "f", "args": [], "type": wrap({"n": "GhostType"}, rng), "deprecated": None, "hidden": False}]))
    out.append(("undefined-field-type/unimplemented-interface", m, {}))
    if objs:
        m = clone(); m["defs"].append(lonely([{"name": "f", "args": [{"name": "a", "type": wrap({"n": rng.choice(objs)["name"]}, rng), "default": None}], "type": {"n": "Int"}, "deprecated": None, "hidden": False}]))
        out.append(("object-type-as-argument/unimplemented-interface", m, {}))
    # an object implementing TWO interfaces that declare a same-named field differently, honouring only the first
    for variant in ("type", "argument-missing", "argument-type", "via-extension"):
        m = clone()
        fa = {"name": "shared", "args": [], "type": {"n": "Int"}, "deprecated": None, "hidden": False}
        fb = copy.deepcopy(fa)
        if variant in ("type", "via-extension"): fb["type"] = {"n": "String"}
        elif variant == "argument-missing": fb["args"] = [{"name": "q", "type": {"n": "Int"}, "default": None}]
        else:
            fa["args"] = [{"name": "q", "type": {"n": "Int"}, "default": None}]; fb["args"] = [{"name": "q", "type": {"n": "String"}, "default": None}]
        m["defs"] += [{"kind": "interface", "name": "IfA", "fields": [fa]}, {"kind": "interface", "name": "IfB", "fields": [fb]}]
        both = {"kind": "object", "name": "Both", "fields": [copy.deepcopy(fa)], "interfaces": ["IfA"] if variant == "via-extension" else ["IfA", "IfB"]}
        m["defs"].append(both)
        if variant == "via-extension": m["exts"].append({"kind": "object", "name": "Both", "fields": [], "interfaces": ["IfB"]})
        out.append((f"second-interface-not-honoured/{variant}", m, {}))
    for kind in ("object", "interface", "input"):
        m = clone(); d = pick_def(m, kind)
        if d:
            f = copy.deepcopy(d["fields"][0]); f["name"] = "dupz"; f2 = copy.deepcopy(f)
            e = {"kind": kind, "name": d["name"], "fields": [f, f2]}
            if kind == "object": e["interfaces"] = []
            m["exts"].append(e); out.append((f"extension-internal-duplicate-field/{kind}", m, {}))
    if M["directives"]:
        out.append(("non-awaitable-directive-hook", clone(), {"sync_hook": True}))
        # the same at every implementable hook, in several spellings of "not awaitable"
        for style in ("plain", "wrapped", "lambda", "callable-object"):
            out.append((f"non-awaitable-directive-hook/{style}", clone(), {"sync_hook": style}))
    return out

def full_union_members(M, name):
    out = []
    for d in M["defs"] + M["exts"]:
        if d["kind"] == "union" and d["name"] == name: out += d["members"]
    return out

def internal_dup_only(Mx, impl, m):
    """known class KF-C12-2: the only broken rule is a field repeated inside the body of one extension
    (removing the repetition inside each extension body gives a model without violation)"""
    M2 = copy.deepcopy(Mx); changed = False
    for e in M2["exts"]:
        if "fields" in e:
            seen, keep = set(), []
            for f in e["fields"]:
                if f["name"] in seen: changed = True; continue
                seen.add(f["name"]); keep.append(f)
            e["fields"] = keep
    if not changed: return False
    v = m.ask({"op": "schema_check", "model": M2, "implemented": impl})
    return v.get("violations") == []

class SyncMark:
    def on_field_execution(self, da, nxt, parent, args, ctx, info): return None
class AsyncMark:
    async def on_field_execution(self, da, nxt, parent, args, ctx, info): return await nxt(parent, args, ctx, info)

HOOKS = ("on_post_bake", "on_pre_output_coercion", "on_introspection", "on_post_input_coercion", "on_argument_execution", "on_field_execution",
         "on_field_collection", "on_fragment_spread_collection", "on_inline_fragment_collection", "on_schema_execution")
_hook_turn = itertools.count()
def sync_impl(style):
    """an implementation whose hook (one of the ten function hooks, in turn) is not awaitable; the others are fine"""
    import functools
    hook = HOOKS[next(_hook_turn) % len(HOOKS)]
    async def proper(self, *a, **k): return None
    if style == "plain":
        def bad(self, *a, **k): return None
    elif style == "wrapped":
        @functools.wraps(proper)                       # looks like the coroutine function it decorates, returns a plain value
        def bad(self, *a, **k): return "not awaitable"
    elif style == "lambda":
        bad = lambda self, *a, **k: None
    else:
        class _Obj:
            def __call__(self, *a, **k): return None
        bad = _Obj()
    ns = {"on_field_execution": AsyncMark.on_field_execution, hook: bad}
    return type("SyncAt_" + hook, (), ns)()

_uid = itertools.count()
async def try_build(M, opts, seed):
    from tartiflette import create_engine, Scalar, Directive
    name = f"c12_{seed}_{next(_uid)}"
    for d in M["defs"]:
        if d["kind"] == "scalar" and d["name"] not in opts.get("withhold", []):
            try: Scalar(d["name"], schema_name=name)(er.CustomScalar())
            except Exception: pass
    # the implementation CLASSES are shared by every build of the run (a verdict remembered per class must not leak
    # from one schema name to the next)
    Mark = SyncMark if opts.get("sync_hook") else AsyncMark
    reg_error = None
    dds = list({d["name"]: d for d in M["directives"]}.values())
    for i, dd in enumerate(dds):
        try:
            if isinstance(opts.get("sync_hook"), str):
                # only ONE of the directives is badly implemented
                Directive(dd["name"], schema_name=name)(sync_impl(opts["sync_hook"]) if i == len(dds) - 1 else AsyncMark())
            else:
                Directive(dd["name"], schema_name=name)(Mark())
        except Exception as e: reg_error = e
    chunks = c11.sdl_chunks(M)
    if opts.get("force_schema_def") and not any(c.startswith("schema {") for c in chunks):
        chunks.append("schema { query: " + M["query"] + (f" mutation: {M['mutation']}" if M["mutation"] else "") + (f" subscription: {M['subscription']}" if M.get("subscription") else "") + " }")
    sdl = opts.get("raw_sdl") or "\n".join(chunks)
    try:
        e = await create_engine(sdl, schema_name=name)
    except Exception as ex:
        usable = False
        return ("raised", f"{type(ex).__name__}: {ex}"[:200], sdl, usable)
    return ("built", None, sdl, True)

async def explore(tier, seed, m):
    rng = random.Random(seed * 71 + 12)
    st = {"evaluations": 0, "nontrivial": set(), "problems": [], "by_intent": {}, "by_rule": {}, "samples": [], "valid_built": 0, "not_breaking": 0, "beyond": {}, "beyond_built": 0, "known": {}}
    n = fw.scale(10 if tier == "quick" else 200)
    t0 = time.time()
    for i in range(n):
        if time.time() - t0 > (100 if tier == "quick" else 1500): break
        M = c11.make_model(rng)
        base_impl = [d["name"] for d in M["defs"] if d["kind"] == "scalar"]
        cases = [("valid", M, {})] + mutations(M, rng)
        # syntactically invalid SDL (text level)
        text = "\n".join(c11.sdl_chunks(M))
        for k in range(3):
            j = rng.randrange(len(text))
            cases.append(("syntax-invalid", M, {"raw_sdl": rng.choice([text[:j], text[:j] + rng.choice("{}()[]!@:") * 2 + text[j:], text.replace("{", "", 1), text.replace(": ", " ", 1), text + "\ntype {"])}))
        for intent, Mx, opts in cases:
            impl = [x for x in [d["name"] for d in Mx["defs"] if d["kind"] == "scalar"] if x not in opts.get("withhold", [])]
            if opts.get("force_schema_def"): pass
            v = m.ask({"op": "schema_check", "model": Mx, "implemented": impl})
            if "fail" in v: st["problems"].append({"what": ["model failed: " + v["fail"]], "intent": intent}); continue
            viol = v["violations"]
            for t in v.get("beyond", []): st["beyond"][t] = st["beyond"].get(t, 0) + 1
            if intent == "syntax-invalid": viol = viol or ["syntax"]          # classified by construction: the harness cannot parse SDL itself
            if intent.startswith("non-awaitable-directive-hook"): viol = viol or ["non-awaitable-hook"]
            res, msg, sdl, usable = await try_build(Mx, opts, seed)
            st["evaluations"] += 1
            st["by_intent"][intent] = st["by_intent"].get(intent, 0) + 1
            for t in viol: st["by_rule"][t] = st["by_rule"].get(t, 0) + 1
            h = hashlib.sha256((sdl + intent).encode()).hexdigest()[:16]
            if viol:
                st["nontrivial"].add(h)
                if res == "built" and intent == "syntax-invalid":
                    # a text mutation may by chance still be valid SDL: rebuild expectation impossible without an SDL parser of our own -> skip silently
                    st["not_breaking"] += 1; continue
                if res == "built" and viol == ["extension-duplicate-member"] and internal_dup_only(Mx, impl, m):
                    st["known"]["KF-C12-2"] = st["known"].get("KF-C12-2", 0) + 1
                elif res == "built":
                    st["problems"].append({"what": [f"an engine was built from an SDL that breaks {viol}"], "intent": intent, "violated_rules": viol, "sdl": sdl})
            else:
                if intent != "valid": st["not_breaking"] += 1
                else: st["valid_built"] += res == "built"
                if v.get("beyond"):
                    # rules of the specification the property does not list: whatever the engine does is accepted
                    st["beyond_built"] += res == "built"
                elif res != "built" and not intent.endswith("-rewrapped"):     # (a covariant re-wrapping is refused by the engine: KF-C11-1, not this property's direction)
                    st["problems"].append({"what": [f"SDL without violation does not build ({msg})"], "intent": intent, "sdl": sdl})
            if len(st["samples"]) < 5 and viol and res == "raised" and i == 0:
                st["samples"].append({"intent": intent, "violated_rules": viol, "engine_error": msg})
    return st

if __name__ == "__main__":
    tier = sys.argv[1] if len(sys.argv) > 1 else "quick"
    seed = int(sys.argv[2]) if len(sys.argv) > 2 else 0
    v = fw.Verdict("C12", tier, seed)
    b = fw.build("C12", thorough=(tier == "thorough"))
    if not b["driver_ok"]:
        v.violation({"property": "C12", "what": "model driver does not build", "log": b["driver_log"][-1500:]}, no_input=True)
        sys.exit(v.finish("proof", fw.proof_coverage(b, {"evaluations": 0, "distinct_nontrivial": 0, "samples": [{"note": "driver failed"}]}), []))
    m = Model()
    st = er.run(explore(tier, seed, m))
    m.close()
    known = {k["id"]: k for k in fw.load_known()}
    for kid in st["known"]:
        k = known.get(kid)
        if k and k["status"] == "known": v.known(k["line"].split(" ", 2)[2])
        else: st["problems"].append({"what": [f"known-finding class {kid} hit but not listed as known"]})
    for p in st["problems"][:3]:
        v.violation({"property": "C12", "seed": seed, **p, "undischarged_theorems": b["failing"]})
    if not st["problems"] and not b["sound"]:
        v.violation({"property": "C12", "seed": seed, "what": "proof obligation broken; no wrongly built engine found", "undischarged_theorems": b["failing"],
                     "failed_dependency": b.get("failed_dependency"), "build_log_tail": b["build_log"][-1500:], "sdl_checked": st["evaluations"]}, no_input=True)
    cov = fw.proof_coverage(b, {
        "evaluations": st["evaluations"], "distinct_nontrivial": len(st["nontrivial"]),
        "rule": "every generated valid SDL-level model (as in C11: definitions + extensions) is rewritten by ~30 rule-breaking edits (undefined type in field / argument / input field / directive argument, in definitions and in extensions, on objects and interfaces, behind random list / non-null wrappers; non-input type in input position and vice versa; interface field missing / incompatible / argument missing / mistyped / extra required; implements non-interface; missing or undefined roots; object without fields; union containing itself; duplicate enum value / union member / type / directive definition; scalar without implementation; extend unknown target / wrong kind / duplicate member; non-awaitable directive hook) plus text-level syntax breakage; each edit is classified by the Lean specification Spec.TS.violations; create_engine must raise exactly when a rule is violated; non-trivial = distinct rule-violating SDL",
        "by_intent": st["by_intent"], "violations_by_rule": st["by_rule"], "valid_models_built": st["valid_built"], "edits_not_breaking_any_rule": st["not_breaking"],
        "rules_beyond_the_property_seen (information only, never required)": st["beyond"], "of_which_engine_built": st["beyond_built"],
        "known_finding_hits": st["known"], "problems": len(st["problems"]), "samples": st["samples"] or [{"note": "none"}]})
    sys.exit(v.finish("proof", cov, ["the engine's schema validators are not modelled: the Lean specification of the rules is the oracle",
                                     "syntactically invalid SDL is classified by construction (no SDL parser in the harness): partial"]))
