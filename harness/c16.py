"""C16 — the query cache and request history never change a response."""
import env, sys, json, random, time, hashlib, re
from functools import lru_cache
import framework as fw
import engine_runner as er
import oracles as orc
from gen import SchemaGen, DocGen, print_sdl
from pyval import enc

def _msg(m): return re.sub(r"0x[0-9a-fA-F]+", "0x?", m or "")
def canon(resp):
    return _msg(json.dumps({"data": enc(resp.get("data")), "has_errors_key": "errors" in resp,
                       "errors": [[e.get("path"), _msg(e.get("message")), e.get("locations"), e.get("extensions")] for e in resp.get("errors") or []]}, sort_keys=True, default=str))

def dict_decorator(fn):
    store = {}
    def wrapper(query, schema):
        key = (query, id(schema))
        if key not in store: store[key] = fn(query, schema)
        return store[key]
    wrapper.store = store
    return wrapper

CONFIGS = [("default-lru-512", {}), ("lru-1", {"query_cache_decorator": lru_cache(maxsize=1)}), ("lru-2", {"query_cache_decorator": lru_cache(maxsize=2)}),
           ("custom-dict", {"query_cache_decorator": dict_decorator}), ("disabled", {"query_cache_decorator": None})]

async def explore(tier, seed):
    rng = random.Random(seed * 7 + 16)
    stats = {"evaluations": 0, "histories": 0, "nontrivial": set(), "problems": [], "samples": [], "kinds": {}}
    nschemas, nhist = (fw.scale(6), 8) if tier == "quick" else (fw.scale(40), 30)
    t0 = time.time()
    for si in range(nschemas):
        if time.time() - t0 > (100 if tier == "quick" else 1500): break
        sg = SchemaGen(rng)
        renv = sg.gen_env(adv=0.05, fail=0.15)
        # a field whose resolver memoises in the request's context (requests are sent without one: nothing to memoise in)
        sg.query["fields"].append({"name": "ctxProbe", "args": [], "type": {"n": "String"}})
        renv["resolvers"]["Query.ctxProbe"] = {"k": "ctxCount"}
        nonintro = si % 3 == 0       # every third schema forbids introspection at schema level
        def model_():
            mdl = sg.model()
            if nonintro: mdl["sdl_extra"] = list(mdl.get("sdl_extra", [])) + ["extend schema @nonIntrospectable"]
            return mdl
        # on every other schema the engines enrich their errors IN PLACE (the documented use of an error coercer) with a
        # message-specific key: what is written for one request may not show up in the errors of a later one
        async def stamping(exception, error):
            key = "m-" + hashlib.sha256(str(error.get("message")).encode()).hexdigest()[:6]
            if isinstance(error.get("extensions"), dict): error["extensions"][key] = 1
            else: error["extensions"] = {key: 1}
            return error
        ckw = {"error_coercer": stamping} if si % 2 == 1 else {}
        pool = []
        for _ in range(6):
            dg = DocGen(sg, rng, op_kinds=("query", "mutation") if sg.mutation else ("query",))
            dg.bad_var_defaults = 0.08
            dg.nested_vars = True; dg.repeat_with_directive = True
            q, ops, opvars = dg.document(n_ops=rng.choice([1, 2, 2]))
            for k in range(len(ops)):
                for _ in range(3):
                    variables, _ = dg.variables_for(opvars[k], invalid=0.2)
                    pool.append(("valid", q, ops[k][1], variables))
                # the same variable alternating between look-alike values (1 / true / 1.0 / "1"), flipped booleans
                from gen import base as _base
                for n, (ty, d) in opvars[k].items():
                    b_ = _base(ty)
                    if b_ in ("Int", "Float", "ID", "Boolean") and "l" not in json.dumps(ty):
                        basev, _ = dg.variables_for(opvars[k], invalid=0.0)
                        for alt in ([1, True, 0, False, 1.0] if b_ != "Boolean" else [True, False, 1, 0]):
                            vv = dict(basev); vv[n] = alt
                            pool.append(("lookalike", q, ops[k][1], vv))
                        break
            pool.append(("bytes", q.encode("utf-8"), ops[0][1], dg.variables_for(opvars[0])[0]))
            pool.append(("unknown-op", q, "Nope", None))
            pool.append(("invalid", q.replace("{", "{ nope_field ", 1), ops[0][1], None))
            pool.append(("syntax", q[: len(q) // 2] + " {", None, None))
            # documents refused for a fragment cycle (validators keep per-rule state between documents)
            try:
                from violations import Catalogue
                for q2 in (Catalogue(sg, rng).m_fragment_cycle(q) or [])[:4]: pool.append(("cyclic", q2, ops[0][1], None))
            except Exception:
                pass
        # the SAME fragment name with another type condition in another document (names are local to a document)
        from gen import base as _b, is_nn as _nn
        for f_ in sg.query["fields"]:
            tb = _b(f_["type"])
            if tb in sg.iface_names + sg.union_names and len(sg.possible(tb)) >= 2 and not any(_nn(a["type"]) and not a.get("default") for a in f_["args"]):
                for cond in list(sg.possible(tb))[:3] + [tb]:
                    pool.append(("frag-retarget", f"{{ {f_['name']} {{ ...Fz }} }}\nfragment Fz on {cond} {{ __typename }}", None, None))
                    pool.append(("frag-retarget", f"{{ {f_['name']} {{ __typename ... on {cond} {{ ...Fz }} }} }}\nfragment Fz on {cond} {{ k: __typename }}", None, None))
                break
        # bytes documents that are NOT valid UTF-8 (a latin-1 comment / a stray byte in a name): whatever the uncached engine answers
        pool.append(("bytes-not-utf8", "{ __typename } # caf\xe9".encode("latin-1"), None, None))
        pool.append(("bytes-not-utf8", b"{ __typename n\xffme }", None, None))
        # refused documents whose errors point at SEVERAL nodes (duplicate argument, unused variable, two anonymous operations)
        pool.append(("invalid-multinode", "{ __typename @skip(if: true, if: false) }", None, None))
        pool.append(("invalid-multinode", "query Q($u: Int, $u: Int) { __typename }", "Q", None))
        pool.append(("invalid-multinode", "{ __typename }\n{ a: __typename }", None, None))
        pool.append(("ctx", "{ ctxProbe again: ctxProbe }", None, None)); pool.append(("ctx", "{ __typename ctxProbe }", None, None))
        # the SAME operation text, another definition of the root-level fragment it spreads
        for body_ in ("x1: __typename", "x2: __typename y: __typename", "__typename"):
            pool.append(("root-frag-redefined", f"query Qr {{ ...Fr }}\nfragment Fr on Query {{ {body_} }}", "Qr", None))
        pool.append(("junk", "", None, None)); pool.append(("junk", "{", None, None))
        # introspection selections under different response keys / positions (refused as a field error when the schema forbids it)
        for q_ in ("{ a: __schema { queryType { name } } }", '{ __typename b: __type(name: "T") { name } }', '{ c: __type(name: "Query") { name } d: __schema { queryType { name } } }'):
            pool.append(("introspection", q_, None, None))
        for hi in range(nhist):
            # generated valid requests (several operations / variables per document) make up most of a history; the special
            # entries of the pool are sprinkled in
            core = [x for x in pool if x[0] in ("valid", "lookalike", "bytes")]
            refused_ = [x for x in pool if x[0] in ("cyclic", "invalid", "invalid-multinode", "syntax", "unknown-op")]
            special_ = [x for x in pool if x[0] in ("frag-retarget", "root-frag-redefined", "ctx", "introspection", "bytes-not-utf8")]
            style = hi % 4      # 0: mostly valid requests (repeated documents, cache hits); 1: anything; 2: runs of REFUSED documents; 3: the look-alike pairs
            src_, p_ = {0: (core, 0.8), 1: (pool, 0.0), 2: (refused_, 0.75), 3: (special_, 0.75)}[style]
            hist = [rng.choice(src_) if (src_ and rng.random() < p_) else rng.choice(pool) for _ in range(rng.randint(6, 25))]
            # repetition on purpose
            hist += [hist[rng.randrange(len(hist))] for _ in range(4)]
            # reference: every distinct request of the history on ITS OWN fresh uncached engine (no history at all), once in a
            # shuffled order and once in the reverse order: state that survives outside the engine (validator singletons, memoised
            # helper results) would make the two reference passes disagree, or the history differ from them
            def hkey(h): return json.dumps([h[1] if isinstance(h[1], str) else repr(h[1]), h[2], h[3]], sort_keys=True, default=str)
            uniq = {}
            for h in hist: uniq.setdefault(hkey(h), h)
            order = list(uniq); rng.shuffle(order)
            passes = []
            for od in (order, order[::-1]):
                res = {}
                for k_ in od:
                    kind, q, opn, variables = uniq[k_]
                    ref = await er.build_engine(model_(), renv, engine_kwargs={"query_cache_decorator": None, **ckw})
                    try:
                        res[k_] = canon(await ref.engine.execute(q, operation_name=opn, variables=variables))
                    except Exception as e:
                        res[k_] = f"raised {type(e).__name__}: {e}"
                passes.append(res)
            for k_ in order:
                if passes[0][k_] != passes[1][k_]:
                    stats["problems"].append({"what": ["the same request on a fresh uncached engine is answered differently depending on which requests the process answered before"],
                                              "request": {"query": uniq[k_][1] if isinstance(uniq[k_][1], str) else repr(uniq[k_][1]), "operation_name": uniq[k_][2], "variables": uniq[k_][3]},
                                              "first_pass": passes[0][k_][:600], "second_pass": passes[1][k_][:600], "sdl": print_sdl(sg.model()) if False else None})
                    break
            expected = [passes[0][hkey(h)] for h in hist]
            for cname, kw in (CONFIGS if tier != "quick" else rng.sample(CONFIGS, 3)):
                kw = dict(kw)
                if cname.startswith("lru-"): kw["query_cache_decorator"] = lru_cache(maxsize=int(cname[4:]))
                kw.update(ckw)
                b = await er.build_engine(model_(), renv, engine_kwargs=kw)
                b.share_values = True        # one data object per resolver for the whole history (the reference engines are per request)
                stats["histories"] += 1
                for i, (kind, q, opn, variables) in enumerate(hist):
                    try:
                        r = await b.engine.execute(q, operation_name=opn, variables=variables)
                        got = canon(r)
                    except Exception as e:
                        got = f"raised {type(e).__name__}: {e}"
                    stats["evaluations"] += 1
                    stats["kinds"][kind] = stats["kinds"].get(kind, 0) + 1
                    # every error must speak about THIS request: its path exists in this response's data (state kept from an
                    # earlier request shows up as a path / location of another document)
                    if isinstance(q, str) and not got.startswith("raised") and r.get("errors"):
                        try:
                            doc_ = er.parse_doc(q)
                            shape = [x for x in orc.check_errors(doc_, enc(r.get("data")), er.canon_errors(r.get("errors")), r.get("errors")) if "does not exist in data" in x or "absent from data" in x or "outside the field" in x]
                        except Exception:
                            shape = []
                        if shape:
                            stats["problems"].append({"what": shape[:3], "cache": cname, "position": i, "query": q, "operation_name": opn, "variables": variables, "response": json.loads(json.dumps(r, default=str))})
                            break
                    # the answer speaks about THIS document: its root keys are the root fields this document selects (a memo
                    # shared by the whole process would fool every comparison between engines of this process)
                    if kind in ("valid", "lookalike", "root-frag-redefined", "frag-retarget", "ctx") and isinstance(q, str) and not got.startswith("raised") and isinstance(r.get("data"), dict):
                        try:
                            keyp = [x for x in orc.check_conforms(b.model, er.parse_doc(q), opn, variables, enc(r.get("data"))) if x.startswith("keys ")]
                        except Exception:
                            keyp = []
                        if keyp:
                            stats["problems"].append({"what": keyp[:2], "cache": cname, "position": i, "query": q, "operation_name": opn, "variables": variables, "response": json.loads(json.dumps(r, default=str))})
                            break
                    repeated = any(h[1] == q for h in hist[:i])
                    if repeated: stats["nontrivial"].add(hashlib.sha256(repr((si, hi, cname, i)).encode()).hexdigest()[:16])
                    if got != expected[i]:
                        stats["problems"].append({"what": [f"response #{i} of the history differs from the fresh uncached engine's (cache: {cname})"],
                                                  "cache": cname, "position": i, "history": [{"kind": h[0], "query": h[1] if isinstance(h[1], str) else repr(h[1]), "operation_name": h[2], "variables": h[3]} for h in hist[: i + 1]],
                                                  "expected": json.loads(expected[i]) if expected[i].startswith("{") else expected[i], "observed": json.loads(got) if got.startswith("{") else got,
                                                  "sdl": print_sdl(b.model), "env": renv})
                        break
            if len(stats["samples"]) < 2:
                stats["samples"].append({"history": [{"kind": h[0], "query": (h[1] if isinstance(h[1], str) else repr(h[1]))[:120], "operation_name": h[2]} for h in hist[:8]], "length": len(hist)})
    return stats

if __name__ == "__main__":
    tier = sys.argv[1] if len(sys.argv) > 1 else "quick"
    seed = int(sys.argv[2]) if len(sys.argv) > 2 else 0
    v = fw.Verdict("C16", tier, seed)
    b = fw.build("C16", thorough=(tier == "thorough"))
    stats = er.run(explore(tier, seed))
    for p in stats["problems"][:3]:
        v.violation({"property": "C16", "seed": seed, **p, "undischarged_theorems": b["failing"]})
    if not stats["problems"] and not b["sound"]:
        v.violation({"property": "C16", "seed": seed, "what": "proof obligation broken; no history-dependent response found", "undischarged_theorems": b["failing"],
                     "build_log_tail": b["build_log"][-1500:], "responses_checked": stats["evaluations"]}, no_input=True)
    cov = fw.proof_coverage(b, {
        "evaluations": stats["evaluations"], "distinct_nontrivial": len(stats["nontrivial"]),
        "rule": "request histories (6-29 requests with deliberate repetitions) over a pool of valid requests (several operations / variables per document), bytes spellings, unknown operation names, validation-refused (unknown field, fragment cycles) and syntactically broken texts, on engines with the default LRU(512), lru_cache(1), lru_cache(2), a custom dict decorator and a disabled cache; every response compared position by position with the answer of a fresh uncached engine that has seen NO other request (reference computed twice, in two different orders, which must agree); non-trivial = response to a text already seen earlier in the same history (a potential cache hit)",
        "histories": stats["histories"], "kinds": stats["kinds"], "problems": len(stats["problems"]), "samples": stats["samples"] or [{"note": "none"}]})
    sys.exit(v.finish("proof", cov, ["parse_and_validate_query is deterministic and its cached results are never mutated: established by this differential run, not proved (partial)",
                                     "functools.lru_cache modelled from its documented behaviour"]))
