import sys, valcheck
if __name__ == "__main__":
    sys.exit(valcheck.main("C07"))
