"""C08 — results do not depend on resolver scheduling or concurrency settings."""
import env, sys, json, random, time, hashlib, asyncio, itertools, warnings
warnings.simplefilter('ignore', RuntimeWarning)
import framework as fw
import engine_runner as er
import execcheck as xc
from gen import SchemaGen, DocGen, print_sdl
from model import Model
from pyval import same, enc
from sched import Hub, drive

CONFIGS = [
    {}, {"coerce_parent_concurrently": False}, {"coerce_list_concurrently": False},
    {"coerce_parent_concurrently": False, "coerce_list_concurrently": False, "parent_concurrently": False, "list_concurrently": False},
    {"sync_arguments": True}, {"parent_concurrently": False}, {"list_concurrently": False, "sync_arguments": True},
    {"coerce_parent_concurrently": False, "parent_concurrently": True, "list_concurrently": False},
    {"mixed": 1}, {"mixed": 2, "coerce_list_concurrently": False}, {"mixed": 3, "coerce_parent_concurrently": False},   # per-field settings differ from field to field
]

def canon_resp(resp):
    return (json.dumps(enc(resp.get("data")), sort_keys=False),
            tuple(sorted(json.dumps([e.get("path"), sorted([l["line"], l["column"]] for l in e.get("locations") or [])]) for e in resp.get("errors") or [])))

def null_positions(w, path=()):
    out = []
    if w is None: out.append(path)
    elif isinstance(w, list):
        for i, x in enumerate(w): out += null_positions(x, path + (i,))
    elif isinstance(w, dict) and "d" in w:
        for k, x in w["d"]: out += null_positions(x, path + (k,))
    return out

def explained_nulls(resp):
    """null positions of `data` that some error explains (its path passes through / ends at the position)"""
    data = enc(resp.get("data"))
    paths = [tuple(e.get("path") or ()) for e in resp.get("errors") or []]
    out = set()
    for p in null_positions(data):
        if any(ep[:len(p)] == p for ep in paths): out.add(p)
    return out

def exhaustive_ok(tier, di):
    return True

def run_under(loop, b, hub, q, opn, variables, choose):
    b.gate = hub.gate
    b.calls.clear()
    with er.guard(query=q, operation_name=opn, variables=variables, sdl=print_sdl(b.model)):
        (res,), trace, left = drive(loop, lambda: [b.engine.execute(q, operation_name=opn, variables=variables)], [hub], choose)
    b.gate = None
    return res, trace, left

def main_explore(pid, tier, seed, m, mutation_only=False, extra_oracle=None):
    rng = random.Random(seed * 131 + 8)
    loop = asyncio.new_event_loop()
    stats = {"evaluations": 0, "schedules": 0, "nontrivial": set(), "problems": [], "disagreements": [], "samples": [], "max_gates": 0,
             "exhaustive_requests": 0, "tree_direct_mismatch": 0}
    nschemas, ndocs, nrandom = (fw.scale(10), 14, 6) if tier == "quick" else (fw.scale(60), 40, 25)
    t0 = time.time()
    for si in range(nschemas):
        sg = SchemaGen(rng, with_mutation=("shared" if si % 5 == 3 else True) if mutation_only else None)
        renv = sg.gen_env(adv=0.05, fail=0.25)
        # more nested explicit resolvers so that several gates are in flight
        for o in sg.objs:
            for f in o["fields"]:
                coord = f"{o['name']}.{f['name']}"
                if coord not in renv["resolvers"] and rng.random() < 0.35:
                    renv["resolvers"][coord] = {"k": "const", "v": sg.value_for(f["type"], 3, 0.05)} if rng.random() < 0.7 else {"k": "raise", "v": ({"x": False, "m": "nested boom", "e": []} if rng.random() < 0.6 else {"x": False, "m": "timed out", "e": [], "cls": "TimeoutError"})}
        mixed = [] if mutation_only else sg.mixed_scenario(renv)
        if mixed:
            # the merged composite field gets a gated resolver on every runtime type: its completion order is scheduled
            for on in sg.mixed[1]:
                renv["resolvers"][f"{on}.{sg.mixed[2]['name']}"] = {"k": "parentKey", "key": sg.mixed[2]["name"]}
        engines = []
        # one field hidden from introspection (no effect on execution): what introspection shows may not depend on the settings
        import copy as _copy
        mdl = _copy.deepcopy(sg.model())
        hid = [f for t in mdl["types"] if t["kind"] == "object" and t["name"] != "Query" and len(t["fields"]) > 1 for f in t["fields"][:1]]
        if hid: hid[0]["sdl_directives"] = hid[0].get("sdl_directives", "") + " @nonIntrospectable"
        for cfg in (CONFIGS if tier != "quick" else rng.sample([c_ for c_ in CONFIGS[:8] if not c_.get("sync_arguments")], 2) + [rng.choice([c_ for c_ in CONFIGS[:8] if c_.get("sync_arguments")])] + [rng.choice(CONFIGS[8:])]):
            engines.append((cfg, loop.run_until_complete(er.build_engine(mdl, renv, cfg=cfg))))
        if not mutation_only:
            tn0 = sg.obj_names[0]
            for iq in ("{ __schema { queryType { name fields { name } } types { name kind fields { name args { name } type { name kind ofType { name } } } possibleTypes { name } } } }",
                       f'{{ a: __type(name: "{tn0}") {{ name fields(includeDeprecated: true) {{ name }} interfaces {{ name fields {{ name }} }} }} b: __typename }}'):
                seen = {}
                for cfg, b in engines:
                    try: rr = loop.run_until_complete(b.engine.execute(iq))
                    except Exception as e: rr = {"raised": f"{type(e).__name__}: {e}"}
                    seen.setdefault(json.dumps(rr, sort_keys=True, default=str), []).append(cfg)
                stats["evaluations"] += len(engines)
                if len(seen) > 1:
                    stats["problems"].append({"what": ["an introspection request is answered differently under different concurrency settings"], "query": iq,
                                              "answers": [{"configs": v_, "response": json.loads(k_)} for k_, v_ in list(seen.items())[:3]], "sdl": print_sdl(mdl)})
        # targeted: a field whose ARGUMENT COERCION fails at execution time (null for `by: Int! = 2` through a nullable
        # variable), selected below a list: it fails once per item, concurrently or one by one depending on the settings
        targeted = []
        if not mutation_only:
            from gen import base as _b, is_nn as _nn
            def has_scaled(tn):
                td = sg.tdef(tn); return bool(td) and td["kind"] == "object" and any(f["name"] == "scaled" for f in td["fields"])
            def okf(f): return not any(_nn(a["type"]) and not a.get("default") for a in f["args"])
            def inner(tn):
                """selection text on composite type tn that reaches `scaled(by: $b)` on some object type, or None"""
                td = sg.tdef(tn)
                if td["kind"] == "object": return "__typename scaled(by: $b) again: scaled" if has_scaled(tn) else None
                hit = [o for o in sg.possible(tn) if has_scaled(o)]
                return f"__typename ... on {hit[0]} {{ scaled(by: $b) }}" if hit else None
            paths = []
            for f in sg.query["fields"]:
                tb = _b(f["type"])
                if tb in sg.leaf_names or not okf(f): continue
                l1 = "l" in json.dumps(f["type"])
                if l1 and inner(tb): paths.append(f"{f['name']} {{ {inner(tb)} }}")
                td = sg.tdef(tb)
                for o in ([tb] if td["kind"] == "object" else sg.possible(tb)):
                    for g in sg.tdef(o)["fields"]:
                        gb = _b(g["type"])
                        if gb in sg.leaf_names or not okf(g): continue
                        if (l1 or "l" in json.dumps(g["type"])) and inner(gb):
                            sel = f"{g['name']} {{ {inner(gb)} }}"
                            paths.append(f"{f['name']} {{ " + (sel if td["kind"] == "object" else f"... on {o} {{ {sel} }}") + " }")
            for ptxt in rng.sample(paths, min(2, len(paths))):
                targeted.append((f"query T($b: Int) {{ {ptxt} }}", {"b": None}, "T"))
                targeted.append((f"query T($b: Int = 4) {{ {ptxt} }}", {"b": None}, "T"))
        stats["targeted_argument_failure_docs"] = stats.get("targeted_argument_failure_docs", 0) + len(targeted)
        for di in range(ndocs):
            if time.time() - t0 > (110 if tier == "quick" else 1500): break
            if di < len(mixed):
                q, variables, opn = mixed[di], None, None
            elif di - len(mixed) < len(targeted):
                q, variables, opn = targeted[di - len(mixed)]
            else:
                dg = DocGen(sg, rng, op_kinds=("mutation",) if mutation_only else (("query", "mutation") if sg.mutation else ("query",)))
                q, ops, opvars = dg.document(n_ops=1)
                variables, _ = dg.variables_for(opvars[0], invalid=0.0)
                # more explicit nulls for nullable variables: at a non-null argument position (legal with a default) the field
                # fails while its arguments are coerced - once per list item, concurrently or not
                from gen import is_nn as _is_nn
                for vn, (vty, vd) in opvars[0].items():
                    if not _is_nn(vty) and rng.random() < 0.25: variables[vn] = None
                opn = ops[0][1]
            outcomes = {}
            per_cfg = {}
            for cfg, b in engines:
                # schedules: first, last, random; exhaustive when few gates
                def sched_first(p): return 0
                def sched_last(p): return len(p) - 1
                scheds = [("first", sched_first), ("last", sched_last)]
                for r in range(nrandom):
                    rr = random.Random(rng.getrandbits(32))
                    scheds.append((f"rand{r}", lambda p, rr=rr: rr.randrange(len(p))))
                first_trace = None
                work = [("exh", [])] if exhaustive_ok(tier, di) else []
                exh_runs = 0
                sched_iter = list(scheds)
                while sched_iter or work:
                    if sched_iter:
                        sname, choose = sched_iter.pop(0)
                        prefix = None
                    else:
                        sname, prefix = work.pop()
                        if exh_runs >= (60 if tier == "quick" else 720): work = []; continue
                        exh_runs += 1
                        pos = [0]
                        def choose(p, prefix=prefix, pos=pos):
                            k = prefix[pos[0]] if pos[0] < len(prefix) else 0
                            pos[0] += 1
                            return min(k, len(p) - 1)
                    hub = Hub()
                    chosen = []
                    def ch(p, choose=choose):
                        k = choose(p); chosen.append(p[k]); return k
                    try:
                        res, trace, left = run_under(loop, b, hub, q, opn, variables, ch)
                    except Exception as e:
                        stats["problems"].append({"what": [f"schedule driver: {e}"], "query": q, "config": cfg, "schedule": sname}); continue
                    stats["schedules"] += 1
                    pr = []
                    if res[0] != "ok": pr.append(f"execute raised {type(res[1]).__name__}")
                    if left: pr.append(f"{len(left)} task(s) still pending after execute returned")
                    if hub.pending: pr.append("resolvers still awaited after execute returned")
                    if len(set(hub.started)) != len(hub.started): pr.append("a resolver was started twice for the same path")
                    if sorted(hub.started) != sorted(hub.finished): pr.append("a started resolver did not finish")
                    if extra_oracle and res[0] == "ok": pr += extra_oracle(b, q, opn, variables, hub, res[1])
                    if res[0] == "ok":
                        cr = canon_resp(res[1])
                        outcomes.setdefault((cr[0], tuple(sorted(map(str, explained_nulls(res[1]))))), []).append((cfg, sname))
                        per_cfg.setdefault(json.dumps(cfg, sort_keys=True), set()).add(cr)
                    stats["max_gates"] = max(stats["max_gates"], len(hub.started))
                    if prefix is not None:
                        # branch on every later choice point of this run
                        if len(hub.started) > (5 if tier == "quick" else 6): work = []
                        else:
                            for j in range(len(prefix), len(trace)):
                                for k in range(1, len(trace[j])):
                                    work.append(("exh", prefix + [0] * (j - len(prefix)) + [k]))
                            if not work and exh_runs > 1: stats["exhaustive_requests"] += 1
                    if max((len(p) for p in trace), default=0) >= 2:
                        stats["nontrivial"].add(hashlib.sha256(json.dumps([q, variables, cfg, [list(map(str, c)) for c in chosen]], default=str).encode()).hexdigest()[:16])
                    # model: same choices -> same pending sets, same response
                    if m is not None and res[0] == "ok" and not pr:
                        req = er.model_request(b, q, opn, variables, None, renv)
                        req["op"] = "schedule"
                        req["choices"] = [list(c[2]) for c in chosen]
                        mod = m.ask(req)
                        if "fail" in mod: stats["disagreements"].append({"query": q, "config": cfg, "model": mod}); continue
                        if "refused" in mod:
                            if res[1].get("data") is not None: stats["disagreements"].append({"query": q, "config": cfg, "what": "model refuses, engine runs"})
                            continue
                        if not mod.get("tree_agrees_with_direct", True): stats["tree_direct_mismatch"] += 1
                        mp = [sorted((g["coord"], tuple(g["path"] or [])) for g in ps) for ps in mod["pending"]]
                        rp = [sorted((c, p) for _, c, p in ps) for ps in trace] + [[]]
                        d = []
                        if mp != rp: d.append("pending-sets")
                        if not mod["ok"] or mod["final"] is None: d.append("model-schedule-not-accepted")
                        else:
                            real = {"data": enc(res[1].get("data")), "errors": er.canon_errors(res[1].get("errors")), "calls": []}
                            dd = xc.diff_resp(real, {"data": mod["final"]["data"], "errors": mod["final"]["errors"], "calls": []})
                            d += [x for x in dd if x != "calls"]
                        if d:
                            stats["disagreements"].append({"query": q, "variables": variables, "config": cfg, "schedule": sname, "diff": d,
                                                           "engine_pending": [[list(map(str, x)) for x in ps] for ps in rp][:12], "model_pending": [[list(map(str, x)) for x in ps] for ps in mp][:12],
                                                           "engine": {"data": enc(res[1].get("data")), "errors": er.canon_errors(res[1].get("errors"))}, "model": mod["final"], "sdl": print_sdl(b.model), "env": renv})
                    if pr:
                        stats["problems"].append({"what": pr, "query": q, "variables": variables, "config": cfg, "schedule": sname, "chosen": [list(map(str, c)) for c in chosen], "sdl": print_sdl(b.model), "env": renv})
                stats["evaluations"] += 1
            for cj, crs in per_cfg.items():
                if len(crs) > 1:
                    stats["problems"].append({"what": [f"{len(crs)} different responses (data or error set) for one request under one configuration, depending on the schedule"],
                                              "query": q, "variables": variables, "config": json.loads(cj), "sdl": print_sdl(engines[0][1].model), "env": renv,
                                              "responses": [{"data": json.loads(k[0]), "errors": list(k[1])} for k in crs]})
            if len(outcomes) > 1:
                stats["problems"].append({"what": [f"{len(outcomes)} different (data, explained null positions) for one request across schedules / concurrency settings"],
                                          "query": q, "variables": variables, "sdl": print_sdl(engines[0][1].model), "env": renv,
                                          "responses": [{"data": json.loads(k[0]), "explained_nulls": list(k[1]), "seen_under": v[:4]} for k, v in outcomes.items()]})
            if len(stats["samples"]) < 4 and outcomes:
                k = next(iter(outcomes))
                stats["samples"].append({"query": q, "variables": variables, "schedules_and_configs": sum(len(v) for v in outcomes.values()), "response": {"data": json.loads(k[0]), "explained_nulls": list(k[1])}})
    loop.close()
    return stats

def finish(pid, tier, seed, b, m, stats, rule, assumptions, t0=None):
    v = fw.Verdict(pid, tier, seed)
    if t0: v.t0 = t0
    for p in stats["problems"][:3]:
        v.violation({"property": pid, "seed": seed, **p, "undischarged_theorems": b["failing"]})
    if not stats["problems"] and (not b["sound"] or stats["disagreements"] or m is None or stats["tree_direct_mismatch"]):
        v.violation({"property": pid, "seed": seed, "what": "proof obligation or model/implementation correspondence broken; no schedule- or setting-dependent response found",
                     "undischarged_theorems": b["failing"], "failed_dependency": b.get("failed_dependency"), "bad_axioms": b["bad_axioms"], "build_log_tail": b["build_log"][-1500:],
                     "tree_vs_direct_model_mismatches": stats["tree_direct_mismatch"], "first_disagreement": stats["disagreements"][:1], "schedules_run": stats["schedules"]}, no_input=True)
    cov = fw.proof_coverage(b, {
        "evaluations": stats["schedules"], "distinct_nontrivial": len(stats["nontrivial"]), "rule": rule,
        "requests_x_configs": stats["evaluations"], "max_gates_in_one_request": stats["max_gates"], "targeted_argument_failure_docs": stats.get("targeted_argument_failure_docs", 0),
        "correspondence": {"disagreements": len(stats["disagreements"]), "tree_vs_direct_model_mismatches": stats["tree_direct_mismatch"]},
        "problems": len(stats["problems"]), "samples": stats["samples"] or [{"note": "none"}]})
    return v.finish("proof", cov, assumptions)

RULE = "generated requests with gated explicit resolvers (root and nested), run on engines built with 4-8 concurrency configurations, each under the schedules first / last / N seeded random; every run: response, awaited-gate sets at every quiescent point, started/finished logs, leaked tasks; model replays the same choices; non-trivial = a run in which at least two resolvers were awaited at the same time; distinct by (request, config, choice sequence)"
ASSUME = ["asyncio is abstracted to: any awaited resolver may complete next, the engine's own progress runs to quiescence (real I/O, timeouts, cancellation by the caller are outside the model)",
          "resolvers are pure (the property's hypothesis)", "the task tree of a request (Impl/ExecT.lean) is hand-written: tied to the engine by the pending-set / response correspondence, and to the direct executor model by a per-request equality check in the driver (not yet a theorem)"]

if __name__ == "__main__":
    tier = sys.argv[1] if len(sys.argv) > 1 else "quick"
    seed = int(sys.argv[2]) if len(sys.argv) > 2 else 0
    T0 = __import__("time").time()
    b = fw.build("C08", thorough=(tier == "thorough"))
    m = Model() if b["driver_ok"] else None
    stats = main_explore("C08", tier, seed, m)
    if m: m.close()
    sys.exit(finish("C08", tier, seed, b, m, stats, RULE, ASSUME, T0))
