"""C17 — engines registered under different schema names are independent."""
import env, sys, json, random, time, hashlib, re, subprocess, os, asyncio, itertools
import framework as fw
import engine_runner as er
from gen import SchemaGen, DocGen, print_sdl, BUILTIN_SCALARS
from pyval import enc, dec

def _msg(m): return re.sub(r"0x[0-9a-fA-F]+", "0x?", m or "")
def canon(resp):
    return _msg(json.dumps({"data": enc(resp.get("data")), "errors": [[e.get("path"), _msg(e.get("message")), e.get("locations"), e.get("extensions")] for e in resp.get("errors") or []]}, sort_keys=True, default=str))

def stamping_coercer(tag):
    """enriches every reported error IN PLACE with a bundle- and message-specific key (the documented way to add data to an
    error): what one engine writes may never show up in an error of another engine, or of another request"""
    async def coercer(exception, error):
        key = "m-" + hashlib.sha256(str(error.get("message")).encode()).hexdigest()[:6]
        if isinstance(error.get("extensions"), dict): error["extensions"][key] = tag
        else: error["extensions"] = {key: tag}
        return error
    return coercer

class TaggedScalar(er.CustomScalar):
    """bundle-specific scalar implementation: makes cross-talk between schema names visible"""
    def __init__(self, tag): self.tag = tag
    def coerce_output(self, v):
        v = super().coerce_output(v)
        return f"{self.tag}:{v}" if isinstance(v, str) else v
    def coerce_input(self, v):
        # variables of this type must be coerced by THIS schema name's implementation
        v = super().coerce_input(v)
        return f"{self.tag}<{v}" if isinstance(v, str) else v
    def parse_literal(self, ast):
        v = super().parse_literal(ast)
        return f"{self.tag}<{v}" if isinstance(v, str) else v

class CountingScalar(er.CustomScalar):
    """a STATEFUL scalar implementation registered as a class (the library instantiates it): every schema name gets its own
    instance, also when one class is decorated for two names at once"""
    def __init__(self): self.n = 0
    def coerce_output(self, v):
        v = super().coerce_output(v)
        self.n += 1
        return f"{v}#{self.n}" if isinstance(v, str) else v

class MarkDirective:
    """stateful, bundle-specific directive instance (same class under every schema name)"""
    def __init__(self, tag): self.tag = tag
    async def on_field_execution(self, directive_args, next_resolver, parent, args, ctx, info):
        r = await next_resolver(parent, args, ctx, info)
        return f"{self.tag}[{r}]" if isinstance(r, str) else r

class SeenDirective:
    """a STATEFUL directive implementation registered as a CLASS (the library instantiates it): every schema name gets its
    own instance and therefore its own count (round 9, C17-r9-4: one memoised instance per class)"""
    def __init__(self): self.n = 0
    async def on_field_execution(self, directive_args, next_resolver, parent, args, ctx, info):
        r = await next_resolver(parent, args, ctx, info)
        self.n += 1
        return f"{r}~{self.n}" if isinstance(r, str) else r

def registrations(bundle):
    """the individual registration actions of a bundle, as thunks"""
    from tartiflette import Resolver, Scalar, TypeResolver
    name, model, renv, tag = bundle["name"], bundle["model"], bundle["env"], bundle["tag"]
    built = er.Built(); built.schema_name = name
    acts = []
    for t in model["types"]:
        if t["kind"] == "scalar" and t["name"] not in BUILTIN_SCALARS:
            if bundle.get("counting_scalar"):
                # registered as a CLASS: alone by a single decorator, co-resident by STACKED decorators together with the bundle
                # sharing its SDL (done before the interleaving starts, see explore)
                if not bundle.get("stacked_done"): acts.append(lambda t=t: Scalar(t["name"], schema_name=name)(CountingScalar))
            else:
                acts.append(lambda t=t: Scalar(t["name"], schema_name=name)(TaggedScalar(tag)))
    from tartiflette import Directive
    acts.append(lambda: Directive("mark", schema_name=name)(MarkDirective(tag)))
    acts.append(lambda: Directive("seen", schema_name=name)(SeenDirective))
    for coord, spec in renv["resolvers"].items():
        if spec["k"] == "default": continue
        def reg(coord=coord, spec=spec):
            kw = {}
            ftr = renv["fieldTypeResolvers"].get(coord)
            if ftr: kw["type_resolver"] = er.make_type_resolver(built, ftr, "field:" + coord)
            Resolver(coord, schema_name=name, **kw)(er.make_resolver(built, coord, spec))
        acts.append(reg)
    for tn, spec in renv["typeResolvers"].items():
        acts.append(lambda tn=tn, spec=spec: TypeResolver(tn, schema_name=name)(er.make_type_resolver(built, spec, "type:" + tn)))
    # a resolver that memoises "who is asking" in the request's context when there is one (probes are sent without context)
    async def whoami(parent, args, ctx, info):
        if isinstance(ctx, dict): return ctx.setdefault("viewer", tag)
        return tag
    acts.append(lambda: Resolver("Query.whoami", schema_name=name)(whoami))
    return acts

_PLUGIN_DIRS = []
SHARED_MODULES = {}      # plugin module name -> the ONE list object passed as `modules=` by every cook of this process

def ensure_plugin():
    """an importable, empty user module (no registrations) on sys.path"""
    import tempfile
    d = tempfile.mkdtemp(prefix="c17_plugin_")
    open(os.path.join(d, "c17_shared_plugin.py"), "w").write("# nothing to register\n")
    sys.path.insert(0, d)
    import atexit, shutil
    atexit.register(shutil.rmtree, d, True)         # (the main check leaves through os._exit: it removes the directory itself)
    _PLUGIN_DIRS.append(d)
    return "c17_shared_plugin", d

class CookFailed:
    def __init__(self, e): self.e = e

async def cook(bundle):
    from tartiflette import create_engine
    try:
        kw = {"error_coercer": stamping_coercer(bundle["tag"])} if bundle.get("stamping") else {}
        if bundle.get("plugin"):
            # a user module list shared by every cook of the process (a settings-level constant): each cook reads it, none owns it
            kw["modules"] = SHARED_MODULES.setdefault(bundle["plugin"], [bundle["plugin"]])
        return await create_engine(print_sdl(bundle["model"]), schema_name=bundle["name"], **kw)
    except Exception as e:
        return CookFailed(e)

async def probe(engine, bundle):
    out = []
    if isinstance(engine, CookFailed):
        return [f"cook failed: {type(engine.e).__name__}: {engine.e}"[:300]] * len(bundle["probes"])
    for q, opn, variables in bundle["probes"]:
        try:
            r = await engine.execute(q, operation_name=opn, variables=variables)
            out.append(canon(r))
        except Exception as e:
            out.append(f"raised {type(e).__name__}: {e}"[:300])
    return out

def make_bundle(rng, idx):
    sg = SchemaGen(rng, custom_scalar=True)
    renv = sg.gen_env(adv=0.0, fail=0.1)
    tag = f"B{idx}"
    # tag the constant values so that a resolver of another bundle answering is visible
    for coord, spec in renv["resolvers"].items():
        if spec["k"] == "const" and isinstance(spec["v"], str): spec["v"] = f"{tag}/{spec['v']}"
    probes = []
    for _ in range(6):
        dg = DocGen(sg, rng)
        q, ops, opvars = dg.document(n_ops=1)
        probes.append((q, ops[0][1], dg.variables_for(opvars[0])[0]))
    sg.query["fields"].append({"name": "whoami", "args": [], "type": {"n": "String"}})
    probes.append(("{ whoami }", None, None))
    model = sg.model()
    # a custom directive on some String fields, and a directive-adding type extension
    marked = 0
    for t in model["types"]:
        if t["kind"] == "object":
            for f in t["fields"]:
                if f["type"] == {"n": "String"} and rng.random() < 0.6:
                    f["sdl_directives"] = " @mark"; marked += 1
                if f["name"] == "whoami": f["sdl_directives"] = f.get("sdl_directives", "") + " @seen"
                if rng.random() < 0.25 and len(t["fields"]) > 1:
                    f["sdl_directives"] = f.get("sdl_directives", "") + (' @deprecated(reason: "old")' if rng.random() < 0.6 else " @deprecated")
    ext_target = sg.obj_names[0]
    # the same directive NAME is declared with different locations under different schema names: a document using
    # @mark on a query field is valid for a "wide" bundle and must be refused by a "narrow" one, whoever validated first
    wide = rng.random() < 0.5
    model["sdl_extra"] = ['directive @mark(tag: String = "d") on FIELD_DEFINITION | OBJECT' + (" | FIELD" if wide else ""), f"extend type {ext_target} @mark(tag: \"ext\")",
                          "directive @seen on FIELD_DEFINITION"]
    probes.append(("{ again: whoami }", None, None))
    for q, opn, variables in list(probes[:2]):
        probes.append((q.replace("{", '{ __typename @mark(tag: "q") ', 1), opn, variables))
    # a variable of the custom scalar type: it must be coerced by THIS schema name's implementation (identical text everywhere)
    if "echo11" in sg.echo:
        probes.append(("query PV($a: Any) { echo11(v: $a) lit: echo11(v: \"lit\") }", "PV", {"a": "val"}))
    # what each engine says about ITS OWN schema (type names are shared between bundles, their members are not)
    probes.append(("{ __schema { types { name kind fields { name args { name } } enumValues { name } possibleTypes { name } } directives { name locations } } }", None, None))
    probes.append(('{ a: __type(name: "T") { fields(includeDeprecated: true) { name } } b: __type(name: "Query") { fields { name type { name kind } } } }', None, None))
    # deprecated members are listed / hidden by THIS name's introspection resolvers
    for tn in sg.obj_names[:3]:
        probes.append((f'{{ __type(name: "{tn}") {{ shown: fields(includeDeprecated: false) {{ name }} dflt: fields {{ name }} all: fields(includeDeprecated: true) {{ name isDeprecated deprecationReason }} }} }}', None, None))
    if sg.enums:
        probes.append((f'{{ __type(name: "{sg.enums[0]["name"]}") {{ a: enumValues(includeDeprecated: false) {{ name }} b: enumValues(includeDeprecated: true) {{ name isDeprecated }} }} }}', None, None))
    # refused documents: the errors (and whatever this name's error coercer writes into them) stay with this engine
    probes.append(("{ nope_field }", None, None)); probes.append(("{ __typename @nopeDirective }", None, None))
    probes.append(("query A { __typename } query A { __typename }", "A", None)); probes.append(("{ __typename ...Ghost }", None, None))
    # some names forbid introspection at schema level: the refusal (a field error) speaks about the request at hand - its own
    # alias, its own position - whoever else was refused before in this process
    if rng.random() < 0.5:
        model["sdl_extra"] = list(model["sdl_extra"]) + ["extend schema @nonIntrospectable"]
        al = f"meta{idx}"
        # (asked FIRST: the first refusal of a process must not decide what later ones say)
        probes.insert(0, (f"{{ __typename\n\n   {al}: __schema {{ queryType {{ name }} }} }}", None, None))
        probes.insert(1, (f'{{ {al}b: __type(name: "Query") {{ name }} __typename }}', None, None))
    return {"name": f"name{idx}", "model": model, "env": renv, "tag": tag, "probes": probes, "stamping": rng.random() < 0.6}

def alone(bundle):
    """build the bundle alone in a fresh process"""
    p = subprocess.run([sys.executable, "-B", os.path.abspath(__file__), "alone"], input=json.dumps(bundle), capture_output=True, text=True, timeout=300, env=os.environ.copy())
    if p.returncode != 0: return [f"subprocess failed: {p.stderr[-400:]}"]
    return json.loads(p.stdout.strip().split("\n")[-1])

PLUGIN = [None]

def run_alone():
    PLUGIN[0], _d = ensure_plugin()
    bundle = json.load(sys.stdin)
    bundle["probes"] = [tuple(x) for x in bundle["probes"]]
    async def go():
        for a in registrations(bundle): a()
        e = await cook(bundle)
        return await probe(e, bundle)
    print(json.dumps(er.run(go())))

async def explore(tier, seed):
    rng = random.Random(seed * 3 + 17)
    PLUGIN[0], plugin_dir = ensure_plugin()
    stats = {"evaluations": 0, "nontrivial": set(), "problems": [], "samples": [], "configs": 0}
    nconf = fw.scale(12 if tier == "quick" else 120)
    t0 = time.time()
    uid = itertools.count()
    for ci in range(nconf):
        if time.time() - t0 > (100 if tier == "quick" else 1500): break
        k = rng.randint(2, 4)
        bundles = [make_bundle(rng, i) for i in range(k)]
        if rng.random() < 0.5:       # two names sharing the very same SDL and probes, different resolvers / scalars
            bundles[1]["model"] = bundles[0]["model"]; bundles[1]["probes"] = bundles[0]["probes"]
            sgenv = bundles[0]["env"]
            bundles[1]["env"] = json.loads(json.dumps(sgenv).replace("B0/", "B1/"))
        for i, bd in enumerate(bundles): bd["name"] = f"c{seed}_{ci}_{next(uid)}_{i}"
        if rng.random() < 0.5:
            for bd in bundles: bd["plugin"] = PLUGIN[0]
        shared_pair = bundles[1]["model"] is bundles[0]["model"]
        if shared_pair and rng.random() < 0.6:
            bundles[0]["counting_scalar"] = bundles[1]["counting_scalar"] = True
        if rng.random() < 0.3:
            # one of the names is the library's DEFAULT schema name (what is registered there belongs to it alone)
            try:
                from tartiflette.schema.registry import SchemaRegistry
                SchemaRegistry._schemas.pop("default", None)       # (left-overs of an earlier configuration of this run)
                bundles[rng.randrange(k)]["name"] = "default"
            except Exception:
                pass                                               # (registry not reachable this way: keep the generated names)
        solo = [alone(bd) for bd in bundles]
        if bundles[0].get("counting_scalar"):
            from tartiflette import Scalar as _Scalar
            for t in bundles[0]["model"]["types"]:
                if t["kind"] == "scalar" and t["name"] not in BUILTIN_SCALARS:
                    _Scalar(t["name"], schema_name=bundles[1]["name"])(_Scalar(t["name"], schema_name=bundles[0]["name"])(CountingScalar))
            bundles[0]["stacked_done"] = bundles[1]["stacked_done"] = True
        # interleave the registration actions of all bundles, cook in a random order (a cook needs its own registrations done)
        acts = []
        for i, bd in enumerate(bundles):
            for a in registrations(bd): acts.append((i, a))
        rng.shuffle(acts)
        # sometimes ANOTHER schema name fails to cook in the middle of it all (an SDL naming an unimplemented scalar): what was
        # registered for the names of this configuration is none of its business
        if rng.random() < 0.4:
            from tartiflette import create_engine as _ce
            async def failing_cook(nm=f"c{seed}_{ci}_broken_{next(uid)}"):
                try:
                    await _ce("scalar NeverImplemented\ntype Query { a: NeverImplemented }", schema_name=nm)
                except Exception:
                    pass
            acts.insert(rng.randrange(len(acts) + 1), (-1, failing_cook))
        remaining = {i: sum(1 for j, _ in acts if j == i) for i in range(k)}
        cooked = {}
        order = []
        pending_cook = []
        for i, a in acts:
            if i == -1:
                await a(); continue
            a(); remaining[i] -= 1
            if remaining[i] == 0: pending_cook.append(i)
            while pending_cook and rng.random() < 0.6:
                j = pending_cook.pop(rng.randrange(len(pending_cook)))
                cooked[j] = await cook(bundles[j]); order.append(j)
        for i in range(k):
            if remaining.get(i, 0) == 0 and i not in cooked and i not in pending_cook: pending_cook.append(i)
        rng.shuffle(pending_cook)
        for j in pending_cook:
            cooked[j] = await cook(bundles[j]); order.append(j)
        stats["configs"] += 1
        # probe in an interleaved order as well
        for i in rng.sample(range(k), k):
            got = await probe(cooked[i], bundles[i])
            stats["evaluations"] += len(got)
            stats["nontrivial"].add(hashlib.sha256(repr((seed, ci, i, order)).encode()).hexdigest()[:16])
            for pi, (g, e) in enumerate(zip(got, solo[i])):
                if g != e:
                    stats["problems"].append({"what": [f"engine for schema name #{i} (of {k} co-resident names) answers probe #{pi} differently from the same engine built alone in a fresh process"],
                                              "cook_order": order, "probe": {"query": bundles[i]["probes"][pi][0], "operation_name": bundles[i]["probes"][pi][1], "variables": bundles[i]["probes"][pi][2]},
                                              "alone": json.loads(e) if e.startswith("{") else e, "co_resident": json.loads(g) if g.startswith("{") else g,
                                              "sdl": print_sdl(bundles[i]["model"]), "other_sdls": [print_sdl(b["model"]) for j, b in enumerate(bundles) if j != i][:1]})
                    break
        if len(stats["samples"]) < 2:
            stats["samples"].append({"names": k, "cook_order": order, "registrations_interleaved": len(acts), "probe": bundles[0]["probes"][0][0][:200]})
    return stats

if __name__ == "__main__":
    if len(sys.argv) > 1 and sys.argv[1] == "alone":
        run_alone(); sys.exit(0)
    tier = sys.argv[1] if len(sys.argv) > 1 else "quick"
    seed = int(sys.argv[2]) if len(sys.argv) > 2 else 0
    v = fw.Verdict("C17", tier, seed)
    b = fw.build("C17", thorough=(tier == "thorough"))
    stats = er.run(explore(tier, seed))
    import shutil
    for d_ in _PLUGIN_DIRS: shutil.rmtree(d_, ignore_errors=True)
    for p in stats["problems"][:3]:
        v.violation({"property": "C17", "seed": seed, **p, "undischarged_theorems": b["failing"]})
    if not stats["problems"] and not b["sound"]:
        v.violation({"property": "C17", "seed": seed, "what": "proof obligation broken; no cross-talk between schema names found", "undischarged_theorems": b["failing"],
                     "build_log_tail": b["build_log"][-1500:], "probes_checked": stats["evaluations"]}, no_input=True)
    cov = fw.proof_coverage(b, {
        "evaluations": stats["evaluations"], "distinct_nontrivial": len(stats["nontrivial"]),
        "rule": "2-4 bundles (generated schemas with overlapping type and field names — in half of the configurations two names share the very same SDL — name-tagged resolver constants, a name-tagged custom scalar implementation, type resolvers) whose registration actions are interleaved action by action in one process and cooked in a random order; every engine answers 6 generated probe requests; compared with the same bundle built ALONE in a fresh subprocess; non-trivial = each (configuration, engine) pair (always co-resident with at least one other name)",
        "configurations": stats["configs"], "problems": len(stats["problems"]), "samples": stats["samples"] or [{"note": "none"}]})
    sys.exit(v.finish("proof", cov, ["`cook name` reads only what was registered under `name`: the model's registry; the Python is tied by this differential run", "import caching of user modules passed via `modules=` is not modelled"]))
