"""Prototype substitute for the absent native libgraphqlparser: pure-Python GraphQL
executable-document parser emitting the JSON AST that tartiflette's transformers expect.
Installed by faking the `cffi` module before tartiflette is imported."""
import json, re, sys, types

class GQLSyntaxError(Exception):
    pass

_PUNCT = {"!", "$", "(", ")", ":", "=", "@", "[", "]", "{", "}", "|", "&"}
_NAME_RE = re.compile(rb"[_A-Za-z][_0-9A-Za-z]*")
_NUM_RE = re.compile(rb"-?(?:0|[1-9][0-9]*)(\.[0-9]+)?([eE][+-]?[0-9]+)?")

class Tok:
    __slots__ = ("kind", "text", "value", "l1", "c1", "l2", "c2")
    def __init__(self, kind, text, value, l1, c1, l2, c2):
        self.kind, self.text, self.value = kind, text, value
        self.l1, self.c1, self.l2, self.c2 = l1, c1, l2, c2

def _lex(src: bytes):
    toks = []
    i, n, line, col = 0, len(src), 1, 1
    if src.startswith(b"\xef\xbb\xbf"):
        i = 3
    while i < n:
        c = src[i:i+1]
        if c in (b" ", b"\t", b","):
            i += 1; col += 1; continue
        if c == b"\n":
            i += 1; line += 1; col = 1; continue
        if c == b"\r":
            i += 1
            if src[i:i+1] == b"\n":
                i += 1
            line += 1; col = 1; continue
        if c == b"#":
            while i < n and src[i:i+1] not in (b"\n", b"\r"):
                i += 1; col += 1
            continue
        if src[i:i+3] == b"...":
            toks.append(Tok("...", "...", None, line, col, line, col + 3)); i += 3; col += 3; continue
        ch = c.decode("latin-1")
        if ch in _PUNCT:
            toks.append(Tok(ch, ch, None, line, col, line, col + 1)); i += 1; col += 1; continue
        m = _NAME_RE.match(src, i)
        if m:
            t = m.group().decode()
            toks.append(Tok("NAME", t, t, line, col, line, col + len(t))); i = m.end(); col += len(t); continue
        if c == b'"':
            if src[i:i+3] == b'"""':
                j = i + 3; l2, c2 = line, col + 3; raw = bytearray()
                while True:
                    if j >= n:
                        raise GQLSyntaxError(f"{line}.{col}: syntax error, unterminated block string")
                    if src[j:j+3] == b'"""':
                        j += 3; c2 += 3; break
                    if src[j:j+4] == b'\\"""':
                        raw += b'"""'; j += 4; c2 += 4; continue
                    if src[j:j+1] == b"\n":
                        raw += b"\n"; j += 1; l2 += 1; c2 = 1; continue
                    if src[j:j+1] == b"\r":
                        raw += b"\n"; j += 1
                        if src[j:j+1] == b"\n": j += 1
                        l2 += 1; c2 = 1; continue
                    raw += src[j:j+1]; j += 1; c2 += 1
                val = _block_string_value(raw.decode("utf-8", "replace"))
                toks.append(Tok("STRING", None, val, line, col, l2, c2)); i = j; line, col = l2, c2; continue
            j = i + 1; out = []
            while True:
                if j >= n or src[j:j+1] in (b"\n", b"\r"):
                    raise GQLSyntaxError(f"{line}.{col + (j - i)}: syntax error, unterminated string")
                d = src[j:j+1]
                if d == b'"':
                    j += 1; break
                if d == b"\\":
                    e = src[j+1:j+2]
                    mp = {b'"': '"', b"\\": "\\", b"/": "/", b"b": "\b", b"f": "\f", b"n": "\n", b"r": "\r", b"t": "\t"}
                    if e in mp:
                        out.append(mp[e]); j += 2; continue
                    if e == b"u" and re.fullmatch(rb"[0-9A-Fa-f]{4}", src[j+2:j+6]):
                        out.append(chr(int(src[j+2:j+6], 16))); j += 6; continue
                    raise GQLSyntaxError(f"{line}.{col + (j - i)}: syntax error, bad escape sequence")
                # raw byte(s): take one UTF-8 char
                k = j + 1
                while k < n and (src[k] & 0xC0) == 0x80:
                    k += 1
                out.append(src[j:k].decode("utf-8", "replace")); j = k
            ln = j - i
            toks.append(Tok("STRING", None, "".join(out), line, col, line, col + ln)); i = j; col += ln; continue
        m = _NUM_RE.match(src, i)
        if m and m.end() > i:
            t = m.group().decode()
            e = m.end()
            # GraphQL forbids a name-start or digit or '.' right after a number
            if e < n and (src[e:e+1].isalnum() or src[e:e+1] in (b"_", b".")):
                raise GQLSyntaxError(f"{line}.{col + len(t)}: syntax error, invalid number")
            kind = "FLOAT" if (m.group(1) or m.group(2)) else "INT"
            toks.append(Tok(kind, t, t, line, col, line, col + len(t))); i = e; col += len(t); continue
        raise GQLSyntaxError(f"{line}.{col}: syntax error, unrecognized character \\x{src[i]:02x}")
    toks.append(Tok("EOF", "EOF", None, line, col, line, col))
    return toks

def _block_string_value(raw):
    lines = raw.split("\n")
    common = None
    for ln in lines[1:]:
        ind = len(ln) - len(ln.lstrip(" \t"))
        if ind < len(ln) and (common is None or ind < common):
            common = ind
    if common:
        lines = [lines[0]] + [ln[common:] for ln in lines[1:]]
    while lines and not lines[0].strip(" \t"):
        lines.pop(0)
    while lines and not lines[-1].strip(" \t"):
        lines.pop()
    return "\n".join(lines)

def _loc(a, b):
    return {"start": {"line": a[0], "column": a[1]}, "end": {"line": b[0], "column": b[1]}}

class _Raw:
    """marks a JSON number emitted from its source lexeme"""
    def __init__(self, s): self.s = s

class Parser:
    def __init__(self, src: bytes):
        self.t = _lex(src); self.p = 0
    @property
    def cur(self): return self.t[self.p]
    def err(self, tok=None):
        tok = tok or self.cur
        name = {"NAME": "IDENTIFIER", "INT": "INTEGER", "FLOAT": "FLOAT", "STRING": "STRING", "EOF": "EOF"}.get(tok.kind, tok.kind)
        if tok.kind == "NAME" and tok.text in ("query", "mutation", "subscription", "fragment", "on", "true", "false", "null"):
            name = tok.text
        raise GQLSyntaxError(f"{tok.l1}.{tok.c1}: syntax error, unexpected {name}")
    def eat(self, kind, text=None):
        tok = self.cur
        if tok.kind != kind or (text is not None and tok.text != text):
            self.err()
        self.p += 1
        return tok
    def at(self, kind, text=None):
        tok = self.cur
        return tok.kind == kind and (text is None or tok.text == text)
    def prev_end(self):
        tok = self.t[self.p - 1]; return (tok.l2, tok.c2)
    def name(self):
        tok = self.eat("NAME")
        return {"kind": "Name", "loc": _loc((tok.l1, tok.c1), (tok.l2, tok.c2)), "value": tok.text}
    def document(self):
        defs = []
        if self.at("EOF"):
            self.err()
        while not self.at("EOF"):
            defs.append(self.definition())
        return {"kind": "Document", "loc": {"start": defs[0]["loc"]["start"], "end": defs[-1]["loc"]["end"]}, "definitions": defs}
    def definition(self):
        tok = self.cur
        if tok.kind == "{":
            return self.operation(None)
        if tok.kind == "NAME" and tok.text in ("query", "mutation", "subscription"):
            return self.operation(tok.text)
        if tok.kind == "NAME" and tok.text == "fragment":
            return self.fragment_def()
        self.err()
    def operation(self, op):
        start = (self.cur.l1, self.cur.c1)
        name = None; vdefs = None; dirs = None
        if op is not None:
            self.p += 1
            if self.at("NAME"):
                name = self.name()
            if self.at("("):
                vdefs = self.var_defs()
            dirs = self.directives()
        else:
            op = "query"
        ss = self.selection_set()
        return {"kind": "OperationDefinition", "loc": _loc(start, self.prev_end()), "operation": op, "name": name,
                "variableDefinitions": vdefs, "directives": dirs, "selectionSet": ss}
    def var_defs(self):
        self.eat("(")
        out = []
        if self.at(")"): self.err()
        while not self.at(")"):
            out.append(self.var_def())
        self.eat(")")
        return out
    def variable(self):
        tok = self.eat("$")
        nm = self.name()
        return {"kind": "Variable", "loc": _loc((tok.l1, tok.c1), self.prev_end()), "name": nm}
    def var_def(self):
        start = (self.cur.l1, self.cur.c1)
        v = self.variable(); self.eat(":"); ty = self.type_()
        dv = None
        if self.at("="):
            self.p += 1; dv = self.value(True)
        return {"kind": "VariableDefinition", "loc": _loc(start, self.prev_end()), "variable": v, "type": ty, "defaultValue": dv}
    def type_(self):
        start = (self.cur.l1, self.cur.c1)
        if self.at("["):
            self.p += 1; inner = self.type_(); self.eat("]")
            ty = {"kind": "ListType", "loc": _loc(start, self.prev_end()), "type": inner}
        else:
            nm = self.name()
            ty = {"kind": "NamedType", "loc": nm["loc"], "name": nm}
        if self.at("!"):
            self.p += 1
            ty = {"kind": "NonNullType", "loc": _loc(start, self.prev_end()), "type": ty}
        return ty
    def directives(self):
        out = []
        while self.at("@"):
            tok = self.eat("@"); nm = self.name()
            args = self.arguments() if self.at("(") else None
            out.append({"kind": "Directive", "loc": _loc((tok.l1, tok.c1), self.prev_end()), "name": nm, "arguments": args})
        return out or None
    def arguments(self):
        self.eat("(")
        out = []
        if self.at(")"): self.err()
        while not self.at(")"):
            start = (self.cur.l1, self.cur.c1)
            nm = self.name(); self.eat(":"); v = self.value(False)
            out.append({"kind": "Argument", "loc": _loc(start, self.prev_end()), "name": nm, "value": v})
        self.eat(")")
        return out
    def selection_set(self):
        tok = self.eat("{")
        sels = []
        if self.at("}"): self.err()
        while not self.at("}"):
            sels.append(self.selection())
        self.eat("}")
        return {"kind": "SelectionSet", "loc": _loc((tok.l1, tok.c1), self.prev_end()), "selections": sels}
    def selection(self):
        if self.at("..."):
            tok = self.eat("...")
            start = (tok.l1, tok.c1)
            if self.at("NAME") and self.cur.text != "on":
                nm = self.name(); dirs = self.directives()
                return {"kind": "FragmentSpread", "loc": _loc(start, self.prev_end()), "name": nm, "directives": dirs}
            tc = None
            if self.at("NAME", "on"):
                self.p += 1; n2 = self.name(); tc = {"kind": "NamedType", "loc": n2["loc"], "name": n2}
            dirs = self.directives(); ss = self.selection_set()
            return {"kind": "InlineFragment", "loc": _loc(start, self.prev_end()), "typeCondition": tc, "directives": dirs, "selectionSet": ss}
        start = (self.cur.l1, self.cur.c1)
        nm = self.name(); alias = None
        if self.at(":"):
            self.p += 1; alias = nm; nm = self.name()
        args = self.arguments() if self.at("(") else None
        dirs = self.directives()
        ss = self.selection_set() if self.at("{") else None
        return {"kind": "Field", "loc": _loc(start, self.prev_end()), "alias": alias, "name": nm, "arguments": args, "directives": dirs, "selectionSet": ss}
    def fragment_def(self):
        tok = self.eat("NAME", "fragment")
        if self.at("NAME", "on"): self.err()
        nm = self.name(); self.eat("NAME", "on"); n2 = self.name()
        tc = {"kind": "NamedType", "loc": n2["loc"], "name": n2}
        dirs = self.directives(); ss = self.selection_set()
        return {"kind": "FragmentDefinition", "loc": _loc((tok.l1, tok.c1), self.prev_end()), "name": nm, "typeCondition": tc, "directives": dirs, "selectionSet": ss}
    def value(self, const):
        tok = self.cur; start = (tok.l1, tok.c1)
        def L(): return _loc(start, self.prev_end())
        if tok.kind == "$":
            if const: self.err()
            return self.variable()
        if tok.kind == "INT":
            self.p += 1; return {"kind": "IntValue", "loc": L(), "value": tok.text}
        if tok.kind == "FLOAT":
            self.p += 1; return {"kind": "FloatValue", "loc": L(), "value": tok.text}
        if tok.kind == "STRING":
            self.p += 1; return {"kind": "StringValue", "loc": L(), "value": tok.value}
        if tok.kind == "NAME":
            self.p += 1
            if tok.text in ("true", "false"):
                return {"kind": "BooleanValue", "loc": L(), "value": tok.text == "true"}
            if tok.text == "null":
                return {"kind": "NullValue", "loc": L()}
            return {"kind": "EnumValue", "loc": L(), "value": tok.text}
        if tok.kind == "[":
            self.p += 1; vals = []
            while not self.at("]"):
                vals.append(self.value(const))
            self.eat("]")
            return {"kind": "ListValue", "loc": L(), "values": vals}
        if tok.kind == "{":
            self.p += 1; fields = []
            while not self.at("}"):
                s2 = (self.cur.l1, self.cur.c1)
                nm = self.name(); self.eat(":"); v = self.value(const)
                fields.append({"kind": "ObjectField", "loc": _loc(s2, self.prev_end()), "name": nm, "value": v})
            self.eat("}")
            return {"kind": "ObjectValue", "loc": L(), "fields": fields}
        self.err()

def _dump(o):
    if isinstance(o, _Raw): return o.s
    if isinstance(o, dict) and set(o) == {"start", "end"}:
        return '{"start": {"line": %d,"column":%d}, "end": {"line":%d,"column":%d}}' % (o["start"]["line"], o["start"]["column"], o["end"]["line"], o["end"]["column"])
    if isinstance(o, dict): return "{" + ",".join(json.dumps(k) + ":" + _dump(v) for k, v in o.items()) + "}"
    if isinstance(o, list): return "[" + ",".join(_dump(v) for v in o) + "]"
    return json.dumps(o)

def parse_to_json(src: bytes) -> bytes:
    return _dump(Parser(src).document()).encode("utf-8")

# ---- fake cffi -------------------------------------------------------------
class _Null: pass
_NULL = _Null()
class _Lib:
    def graphql_parse_string(self, text, errors):
        try:
            return parse_to_json(bytes(text))
        except GQLSyntaxError as e:
            errors[0] = str(e).encode(); return _NULL
        except RecursionError:
            errors[0] = b"1.1: syntax error, nesting too deep"; return _NULL
    def graphql_error_free(self, e): pass
    def graphql_node_free(self, n): pass
    def graphql_ast_to_json(self, node): return node
class FFI:
    NULL = _NULL
    def cdef(self, s): pass
    def dlopen(self, path): return _Lib()
    def new(self, decl, init=None):
        if decl == "char **": return [_NULL]
        return init
    def string(self, x): return x

def install():
    m = types.ModuleType("cffi"); m.FFI = FFI
    sys.modules["cffi"] = m
