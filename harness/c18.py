"""C18 — execute always answers with a well-formed GraphQL response."""
import env, sys, json, random, time, hashlib
import framework as fw
import engine_runner as er
import execcheck as xc
import oracles as orc
from gen import SchemaGen, DocGen, print_sdl
from model import Model
from pyval import same, enc

def shape_problems(query, resp, calls):
    pr = []
    if not isinstance(resp, dict): return ["response is not a dict"]
    if "data" not in resp: pr.append("response without `data`")
    extra = set(resp) - {"data", "errors"}
    if extra: pr.append(f"unexpected response keys {sorted(extra)}")
    if "errors" in resp:
        errs = resp["errors"]
        if not isinstance(errs, list) or not errs: pr.append("`errors` present but empty / not a list"); return pr
        qb = query.encode("utf-8") if isinstance(query, str) else bytes(query)
        lines = qb.split(b"\n")
        for e in errs:
            if not isinstance(e, dict): pr.append("error entry not a dict"); continue
            if not isinstance(e.get("message"), str): pr.append("error without string message")
            if "path" not in e or not (e["path"] is None or isinstance(e["path"], list)): pr.append("error path neither list nor null")
            locs = e.get("locations")
            if not isinstance(locs, list): pr.append("locations not a list"); continue
            for l in locs:
                ok = isinstance(l, dict) and isinstance(l.get("line"), int) and isinstance(l.get("column"), int) and l["line"] >= 1 and l["column"] >= 1
                if not ok: pr.append(f"bad location {l!r}"); continue
                if l["line"] > len(lines) or l["column"] > len(lines[l["line"] - 1]) + 1:
                    pr.append(f"location {l} outside the query text")
            if "extensions" in e and not e["extensions"]: pr.append("empty `extensions` emitted")
    if resp.get("data") is None and "errors" not in resp:
        pr.append("data null without errors")
    try:
        json.dumps(resp, allow_nan=False)
    except Exception as ex:
        pr.append(f"response not JSON-serialisable ({type(ex).__name__})")
    return pr

def mutate_text(rng, q):
    k = rng.randrange(8)
    if not q: return "{"
    i = rng.randrange(len(q))
    if k == 0: return q[:i] + q[i + 1:]
    if k == 1: return q[:i] + rng.choice("{}()[]:$@!|&=\"#,.\\\n\t\x00é") + q[i:]
    if k == 2: return q[:i]
    if k == 3: return q[i:]
    if k == 4: return q.replace("{", "", 1) if rng.random() < 0.5 else q.replace("}", "", 1)
    if k == 5: return q[:i] + q[i:][::-1]
    if k == 6: return q.replace(" ", "  \n", 3)
    return q[:i] + "\"" + q[i:]

def junk_text(rng):
    k = rng.randrange(9)
    if k == 0: return ""
    if k == 1: return " \n\t,,, "
    if k == 2: return "# only a comment"
    if k == 3: return "".join(chr(rng.randrange(32, 127)) for _ in range(rng.randint(1, 60)))
    if k == 4: return bytes(rng.getrandbits(8) for _ in range(rng.randint(1, 40)))
    if k == 5: return "{" * rng.randint(1, 50)
    if k == 6: return "{ a" + "{ a" * rng.choice([5, 50, 400, 2000]) + "}" * rng.choice([5, 50, 400, 2000]) + "}"
    if k == 7: return "﻿{ __typename }"
    return "query Q($a: [[[[Int]]]] = [[[[1" + "]" * rng.randint(0, 5) + ") { __typename }"

async def explore(tier, seed, m, v):
    rng = random.Random(seed * 31 + 18)
    stats = {"evaluations": 0, "nontrivial": set(), "problems": [], "disagreements": [], "raised": [], "kinds": {}, "samples": [], "coercer_calls_checked": 0}
    nschemas, nper = (fw.scale(10), 120) if tier == "quick" else (fw.scale(120), 400)
    t0 = time.time()
    for si in range(nschemas):
        if time.time() - t0 > (100 if tier == "quick" else 1200): break
        sg = SchemaGen(rng)
        renv = sg.gen_env(adv=0.1, fail=0.15)
        foreign = si % 4 == 3
        if foreign:
            # some resolvers raise an exception that renders itself (own `coerce_value`) and is no library error: outside the
            # executor model (no comparison with it on this schema), inside C18: the response must still be well formed
            for coord, spec in list(renv["resolvers"].items()):
                if spec["k"] in ("const", "raise") and rng.random() < 0.25 and coord.split(".")[1] not in sg.echo:
                    renv["resolvers"][coord] = {"k": "raise", "v": {"x": False, "m": "foreign boom", "e": [], "foreign": 1}}
        # some raising resolvers raise ONE shared exception instance (an application-level constant) on every call
        # (only on the schemas whose engine has the counting coercer: the path / locations such an instance reports are those of
        # its FIRST report - the recorded KF-C02-1 mechanism, across requests - and are not what this scenario is about)
        for coord, spec in list(renv["resolvers"].items()):
            if si % 3 == 1 and spec["k"] == "raise" and rng.random() < 0.4: renv["resolvers"][coord] = {"k": "raiseShared", "v": spec["v"]}
        shared_raise = any(sp["k"] == "raiseShared" for sp in renv["resolvers"].values())
        # engine with a counting / rewriting error coercer on half of the schemas
        coerced_log = []
        custom = si % 3 == 1
        stamping = si % 3 == 2
        returned_log = []
        async def my_coercer(exception, error):
            coerced_log.append(dict(error))
            out = {"message": "rewritten: " + str(error.get("message")), "path": error.get("path"), "locations": error.get("locations"), "tag": len(coerced_log)}
            if len(coerced_log) % 4 == 0: out = {}          # whatever the coercer returns - an EMPTY object too - is what appears
            returned_log.append(out)
            return out
        stamp_no = [0]
        async def stamping_coercer(exception, error):
            # enriches the error IN PLACE (the documented way): what it writes belongs to this error only
            stamp_no[0] += 1
            if isinstance(error.get("extensions"), dict): error["extensions"]["stamp"] = stamp_no[0]
            else: error["extensions"] = {"stamp": stamp_no[0]}
            return error
        b = await er.build_engine(sg.model(), renv, engine_kwargs={"error_coercer": my_coercer} if custom else ({"error_coercer": stamping_coercer} if stamping else None))
        for di in range(nper):
            dg = DocGen(sg, rng, op_kinds=("query", "mutation") if sg.mutation else ("query",))
            q, ops, opvars = dg.document(n_ops=rng.choice([1, 1, 2, 3]))
            k = rng.randrange(len(ops))
            variables, _ = dg.variables_for(opvars[k], invalid=0.1)
            opn = ops[k][1]
            kind = "valid"
            r = rng.random()
            if r < 0.12:
                opn = rng.choice(["Nope", "op0", "", None, "Op1", "Op7"]); kind = "opname"
                named_ = [n_ for _, n_ in ops if n_]
                if named_ and rng.random() < 0.4:
                    # a name that is NOT the name of an operation: padded with blanks / a line feed / a no-break space, or blank
                    opn = rng.choice([" " + named_[0], named_[0] + "\n", "\u00a0" + named_[0], named_[0] + " ", "  ", "\n"])
            elif r < 0.24:
                # syntactically fine, refused by (or crashing inside) a validation rule: still a response, never a raise
                try:
                    from violations import Catalogue
                    alts = Catalogue(sg, rng).all(q)
                    # literals of the wrong kind (a list / object where a scalar is expected...) are where rules themselves crash
                    hot = [a for a in alts if a[0] in ("value_wrong_type", "list_item_after_variable", "variable_usage_not_allowed", "argument_unknown")]
                    if hot and rng.random() < 0.5: q = rng.choice(hot)[1]; kind = "rule-breaking"
                    elif alts: q = rng.choice(alts)[1]; kind = "rule-breaking"
                except Exception:
                    pass
            elif r < 0.27:
                # a valid document followed by a character GraphQL does NOT ignore (form feed, vertical tab, no-break space ...):
                # a syntax error like any other
                q = q + rng.choice(["\x0c", "\x0b", "\u00a0", "\u2028", " \x0c ", "\n\u3000"]); kind = "trailing-garbage"
            elif r < 0.42: q = mutate_text(rng, q); kind = "mutated"
            elif r < 0.55: q = junk_text(rng); kind = "junk"
            elif r < 0.6: variables = rng.choice([None, {}, [1, 2], "str", 5, {"v0": object}]); kind = "odd-variables"
            elif r < 0.72 and len(ops) >= 2:
                import re as _re
                q = _re.sub(r"(query|mutation) Op\d+", lambda mm: mm.group(1), q); opn = None; kind = "anonymous-multi"
            if rng.random() < 0.15 and isinstance(q, str): q = q.encode("utf-8"); kind += "+bytes"
            coerced_log.clear(); returned_log.clear()
            stats["evaluations"] += 1
            stats["kinds"][kind] = stats["kinds"].get(kind, 0) + 1
            try:
                b.calls.clear(); er.CustomScalar.input_calls = 0
                with er.guard(query=repr(q), operation_name=opn, variables=repr(variables)[:300], sdl=print_sdl(b.model)):
                    resp = await b.engine.execute(q, operation_name=opn, variables=variables)
            except BaseException as ex:
                stats["raised"].append({"query": repr(q)[:400], "operation_name": opn, "variables": repr(variables)[:200], "exception": f"{type(ex).__name__}: {ex}"[:300]})
                continue
            calls = list(b.calls)
            pr = shape_problems(q, resp, calls) if not custom else []
            if stamping:
                stamps = [(e.get("extensions") or {}).get("stamp") for e in resp.get("errors") or [] if isinstance(e, dict)]
                if len(set(stamps)) != len(stamps) or any(s_ is None for s_ in stamps): pr.append(f"error entries share what the coercer wrote into ONE of them (stamps {stamps})")
                elif stamps and max(stamps) != stamp_no[0]: pr.append("an error entry carries a stamp written for an earlier request")
            elif not custom:
                if any("stamp" in (e.get("extensions") or {}) for e in resp.get("errors") or [] if isinstance(e, dict)): pr.append("an error of an engine with the default coercer carries data written by another engine's coercer")
            if custom:
                # every reported error went through the coercer exactly once; its return value is what appears
                n = len(resp.get("errors") or [])
                stats["coercer_calls_checked"] += 1
                if len(coerced_log) != n: pr.append(f"error coercer awaited {len(coerced_log)} times for {n} reported errors")
                key_ = lambda x: json.dumps(x, sort_keys=True, default=str)
                if sorted(map(key_, resp.get("errors") or [])) != sorted(map(key_, returned_log)):
                    pr.append("the entries of `errors` are not the values the error coercer returned (one of them an empty object)")
                if "errors" in resp and not resp["errors"]: pr.append("`errors` present but empty")
            # syntax errors / failed operation selection: data null and nothing ran
            try:
                doc = er.parse_doc(q); syntax_ok = True
            except Exception:
                doc, syntax_ok = None, False
            if not syntax_ok:
                if resp.get("data") is not None or calls: pr.append("syntax error but data non-null or a resolver ran")
            elif kind.startswith("anonymous-multi"):
                if resp.get("data") is not None or calls: pr.append("several anonymous operations (ambiguous) but data non-null or a resolver ran")
            elif kind.startswith("opname") and orc.operation_of(doc, opn) is None and not (opn in ("", None) and len([d for d in doc["definitions"] if d["kind"] == "OperationDefinition"]) == 1):
                if resp.get("data") is not None or calls: pr.append("operation selection failed but data non-null or a resolver ran")
                # nothing of an operation that was NOT selected may run or be reported: no input coercion of its variables
                # (user code for custom scalars), one error - the selection failure
                if er.CustomScalar.input_calls: pr.append("operation selection failed but a custom scalar's coerce_input ran (variables of an operation that was never selected)")
                if isinstance(resp.get("errors"), list) and len(resp["errors"]) > 1 and not any((e.get("extensions") or {}).get("rule") for e in resp["errors"] if isinstance(e, dict)):
                    pr.append(f"operation selection failed and {len(resp['errors'])} errors are reported: the extra ones belong to an operation that was never selected")
            h = hashlib.sha256(repr((q, opn, repr(variables))).encode()).hexdigest()[:16]
            if "errors" in resp: stats["nontrivial"].add(h)
            if pr:
                stats["problems"].append({"query": q if isinstance(q, str) else repr(q), "operation_name": opn, "variables": repr(variables)[:300], "response": json.loads(json.dumps(resp, default=str))if True else None, "what": pr[:5], "sdl": print_sdl(b.model)})
            elif kind in ("valid", "opname", "valid+bytes", "opname+bytes") and m is not None and isinstance(variables, (dict, type(None))) and not custom and not stamping and not foreign and not shared_raise:
                real = {"data": enc(resp.get("data")), "errors": er.canon_errors(resp.get("errors")), "calls": calls}
                req = er.model_request(b, q, opn, variables, None, renv)
                mod = m.ask(req)
                if "fail" in mod: stats["disagreements"].append({"query": q if isinstance(q, str) else repr(q), "model": mod})
                else:
                    d = xc.diff_resp(real, mod)
                    # validation is not part of this model: a validation refusal is not a disagreement
                    refused = resp.get("data") is None and any((e.get("extensions") or {}).get("rule") for e in resp.get("errors") or [])
                    if d and not refused:
                        stats["disagreements"].append({"query": q if isinstance(q, str) else repr(q), "operation_name": opn, "variables": variables, "diff": d, "observed": real, "model": {k2: mod[k2] for k2 in ("data", "errors")}})
            if len(stats["samples"]) < 6 and "errors" in resp and di % 7 == 0:
                stats["samples"].append({"kind": kind, "query": (q if isinstance(q, str) else repr(q))[:300], "operation_name": opn, "response": json.loads(json.dumps(resp, default=str))})
    return stats

def main():
    tier = sys.argv[1] if len(sys.argv) > 1 else "quick"
    seed = int(sys.argv[2]) if len(sys.argv) > 2 else 0
    v = fw.Verdict("C18", tier, seed)
    b = fw.build("C18", thorough=(tier == "thorough"))
    m = Model() if b["driver_ok"] else None
    stats = er.run(explore(tier, seed, m, v))
    if m: m.close()
    for r in stats["raised"][:3]:
        v.violation({"property": "C18", "seed": seed, "what": "execute raised instead of answering", **r, "undischarged_theorems": b["failing"]})
    for p in stats["problems"][:3]:
        v.violation({"property": "C18", "seed": seed, **p, "undischarged_theorems": b["failing"]})
    if not stats["raised"] and not stats["problems"] and (not b["sound"] or stats["disagreements"] or m is None):
        v.violation({"property": "C18", "seed": seed, "what": "proof obligation or model/implementation correspondence broken; no ill-formed response found",
                     "undischarged_theorems": b["failing"], "failed_dependency": b.get("failed_dependency"), "bad_axioms": b["bad_axioms"],
                     "build_log_tail": b["build_log"][-1500:], "first_disagreement": stats["disagreements"][:1], "responses_checked": stats["evaluations"]}, no_input=True)
    cov = fw.proof_coverage(b, {
        "evaluations": stats["evaluations"], "distinct_nontrivial": len(stats["nontrivial"]),
        "rule": "generated valid documents, operation-name variations, character-level mutations of valid documents, junk text / bytes (empty, comments, random bytes, unbalanced and very deep nesting, BOM), odd variables objects, str and bytes spellings; half of the engines carry a counting + rewriting error coercer; non-trivial = distinct request answered with an `errors` list",
        "kinds": stats["kinds"], "responses_with_problems": len(stats["problems"]), "raised": len(stats["raised"]),
        "correspondence": {"disagreements": len(stats["disagreements"])}, "coercer_requests_checked": stats["coercer_calls_checked"],
        "samples": stats["samples"] or [{"note": "none"}]})
    return v.finish("proof", cov, [
        "text -> JSON AST is done by harness/gqlshim.py: the native lexer/parser's own robustness is out of reach in this sandbox",
        "error coercers are total functions (a raising coercer escapes execute: out of the statement, recorded in DESIGN.md)",
        "variables that are not JSON objects are exercised for 'never raises' only"])

if __name__ == "__main__":
    sys.exit(main())
