"""Runs the real tartiflette engine in-process on harness cases: builds an engine from a schema
model + resolver environment (universal resolver interpreting the environment), executes
requests, returns canonical responses, call logs and the JSON AST the model consumes."""
import os, env  # noqa: F401  (installs the parser substitute)
import asyncio, itertools, json, warnings
warnings.filterwarnings("ignore", message="coroutine .* was never awaited")
import gqlshim
from pyval import enc, dec, strings_in, stf_table
from gen import print_sdl, BUILTIN_SCALARS

_counter = itertools.count()

def _json_kind(v, depth=0):
    import math
    if v is None or isinstance(v, (bool, int, str)): return True
    if isinstance(v, float): return math.isfinite(v)
    if depth > 60: return False
    if isinstance(v, list): return all(_json_kind(x, depth + 1) for x in v)
    if isinstance(v, dict): return all(_json_kind(x, depth + 1) for x in v.values())
    return False

class CustomScalar:
    """pass-through custom scalar of the harness (model: Impl/Input.lean `customOk`)"""
    def _ok(self, v):
        if not _json_kind(v) or (isinstance(v, str) and v == "BAD"):
            raise ValueError("custom scalar refuses value")
        return v
    def coerce_output(self, v):
        if isinstance(v, str) and v == "NULLME": return None
        return self._ok(v)
    input_calls = 0           # how often user-level input coercion ran (class-wide: reset by the caller around a request)
    def coerce_input(self, v):
        CustomScalar.input_calls += 1
        v = self._ok(v)
        # a container is handed on as a value of its own: what a resolver later does to its argument must not reach the
        # caller's variables object through this pass-through scalar (harness hygiene, found by C15's scribbling resolvers)
        if isinstance(v, (dict, list)):
            import copy
            return copy.deepcopy(v)
        return v
    def parse_literal(self, ast):
        from tartiflette.constants import UNDEFINED_VALUE
        from tartiflette.language.ast import StringValueNode, IntValueNode, BooleanValueNode
        if isinstance(ast, StringValueNode) and ast.value == "BADRAISE": raise ValueError("custom scalar: unreadable literal")   # (a scalar may refuse by raising)
        if isinstance(ast, StringValueNode): return UNDEFINED_VALUE if ast.value == "BAD" else ast.value
        if isinstance(ast, IntValueNode): return int(ast.value)
        if isinstance(ast, BooleanValueNode): return ast.value
        return UNDEFINED_VALUE

_resolver_kw = {}      # (schema name, coordinate) -> concurrency options passed to @Resolver

class Built:
    def __init__(self):
        self.engine = None; self.calls = []; self.schema_name = None; self.model = None
        self.gate = None          # optional async callable(coord, path) awaited by every explicit resolver
        self.type_calls = []
        self.scribble = False     # resolvers modify their own `args` in place after use (C15)
        self.share_values = False # constant resolvers hand out the same object on every call (C15 / C16)

def path_list(info):
    return info.path.as_list() if hasattr(info.path, "as_list") else list(info.path or [])

def _alias_equal_items(val, depth=0):
    """items of a list that are EQUAL records become ONE object (application code often hands out the same instance several
    times): what is computed for one position of a list may not be reused for another"""
    if depth > 6: return
    if isinstance(val, list):
        seen = []
        for i, x in enumerate(val):
            if isinstance(x, dict) and x:
                for y in seen:
                    if y == x: val[i] = y; break
                else: seen.append(x)
        for x in val: _alias_equal_items(x, depth + 1)
    elif isinstance(val, dict):
        for x in val.values(): _alias_equal_items(x, depth + 1)

def make_resolver(built, coord, spec):
    kind = spec["k"]
    async def resolver(parent, args, ctx, info):
        built.calls.append({"coord": coord, "path": path_list(info), "parent": enc(parent), "args": enc(dict(args)), "ctx": ctx})
        if built.gate is not None:
            await built.gate(coord, path_list(info), ctx)
        if kind == "argEcho" and built.scribble:
            import copy
            res = copy.deepcopy(args.get(spec["arg"]))
        elif kind == "argEcho": res = args.get(spec["arg"])
        if built.scribble:
            # a resolver is free to modify ITS OWN arguments: nothing of it may be seen by another call
            def deep(v, d=0):       # every mutable object reachable from the arguments is modified in place
                if d > 6: return
                if isinstance(v, list):
                    for x in list(v): deep(x, d + 1)
                    v.append("scribble")
                elif isinstance(v, dict):
                    for x in list(v.values()): deep(x, d + 1)
                    v["scribble"] = "scribble"
            for v in list(args.values()): deep(v)
            args["scribble"] = "scribble"
        if kind == "ctxCount":
            # memoises in the request's context when the caller supplied a dict; a request sent WITHOUT context sees nothing
            if isinstance(ctx, dict):
                ctx["n_seen"] = ctx.get("n_seen", 0) + 1
                return f"seen{ctx['n_seen']}"
            return "seen0"
        if kind == "const":
            if built.share_values:
                # application data: ONE object handed to every request that asks (the engine reads it, never changes it)
                memo = built.__dict__.setdefault("_shared_vals", {})
                if coord not in memo:
                    memo[coord] = dec(spec["v"]); _alias_equal_items(memo[coord])
                return memo[coord]
            val = dec(spec["v"])
            _alias_equal_items(val)
            return val
        if kind == "raise": raise dec(spec["v"])
        if kind == "raiseShared":
            # ONE exception instance (a module-level constant in application code) raised by every call of this resolver
            inst = built.__dict__.setdefault("_shared_exc", {})
            if coord not in inst: inst[coord] = dec(spec["v"])
            raise inst[coord]
        if kind == "parentKey":
            return parent.get(spec["key"]) if isinstance(parent, dict) else None
        if kind == "argEcho": return res
        raise RuntimeError("bad resolver spec")
    return resolver

def make_type_resolver(built, spec, tag):
    def type_resolver(result, ctx, info, abstract_type):
        built.type_calls.append(tag)
        if spec["k"] == "const": name = spec["name"]
        elif isinstance(result, dict) and spec["key"] in result: name = result[spec["key"]]
        else: name = "?"
        if spec.get("obj") and isinstance(name, str):
            try:
                return info.schema.find_type(name)      # the type object itself: same meaning as its name
            except Exception:
                return name
        return name
    return type_resolver

async def build_engine(model, renv, cfg=None, sdl=None, engine_kwargs=None, directives=None):
    """model: schema model dict (gen.SchemaGen.model()), renv: resolver environment"""
    from tartiflette import create_engine, Resolver, Scalar, TypeResolver
    cfg = cfg or {}
    b = Built()
    b.cfg = dict(cfg) if cfg else None
    b.schema_name = f"case{next(_counter)}"
    for t in model["types"]:
        if t["kind"] == "scalar" and t["name"] not in BUILTIN_SCALARS:
            Scalar(t["name"], schema_name=b.schema_name)(CustomScalar())
    for coord, spec in (renv.get("resolvers") or {}).items():
        if spec["k"] == "default": continue
        kw = {}
        ftr = (renv.get("fieldTypeResolvers") or {}).get(coord)
        if ftr: kw["type_resolver"] = make_type_resolver(b, ftr, "field:" + coord)
        if "parent_concurrently" in cfg: kw["parent_concurrently"] = cfg["parent_concurrently"]
        if "list_concurrently" in cfg: kw["list_concurrently"] = cfg["list_concurrently"]
        if "mixed" in cfg:
            # per-field settings drawn independently (absent / True / False), deterministic in (seed, coordinate)
            import random as _rnd
            mr = _rnd.Random(f"{cfg['mixed']}:{coord}")
            for key in ("parent_concurrently", "list_concurrently"):
                ch = mr.choice([None, True, False])
                if ch is not None: kw[key] = ch
        _resolver_kw[(b.schema_name, coord)] = {k_: v_ for k_, v_ in kw.items() if k_ != "type_resolver"}
        Resolver(coord, schema_name=b.schema_name, **kw)(make_resolver(b, coord, spec))
    for tn, spec in (renv.get("typeResolvers") or {}).items():
        TypeResolver(tn, schema_name=b.schema_name)(make_type_resolver(b, spec, "type:" + tn))
    for dname, impl in (directives or {}).items():
        from tartiflette import Directive
        Directive(dname, schema_name=b.schema_name)(impl)
    kwargs = dict(engine_kwargs or {})
    if "coerce_parent_concurrently" in cfg: kwargs["coerce_parent_concurrently"] = cfg["coerce_parent_concurrently"]
    if "coerce_list_concurrently" in cfg: kwargs["coerce_list_concurrently"] = cfg["coerce_list_concurrently"]
    if cfg.get("sync_arguments"):
        from tartiflette.resolver.default import sync_arguments_coercer
        kwargs["custom_default_arguments_coercer"] = sync_arguments_coercer
    b.engine = await create_engine(sdl or print_sdl(model), schema_name=b.schema_name, **kwargs)
    # read the effective concurrency flags back from the baked schema into the model
    import copy
    m = copy.deepcopy(model)
    schema = getattr(b.engine, "_schema", None)
    for t in m["types"]:
        if t["kind"] in ("object", "interface"):
            for f in t["fields"]:
                coord = f"{t['name']}.{f['name']}"
                try:
                    fd = schema.get_field_by_name(coord)
                    f["parentConc"] = bool(fd.parent_concurrently)
                    f["listConc"] = bool(fd.list_concurrently)
                except Exception:
                    # the baked schema cannot be read this way (an internal name changed): derive the effective flags from what
                    # was asked for - a @Resolver option (parent: default True; list: default None = the engine's), else the engine's
                    kw_ = _resolver_kw.get((b.schema_name, coord))
                    if kw_ is not None:
                        f["parentConc"] = bool(kw_.get("parent_concurrently", True))
                        lc = kw_.get("list_concurrently")
                        f["listConc"] = bool(kwargs.get("coerce_list_concurrently", True) if lc is None else lc)
                    else:
                        f["parentConc"] = bool(kwargs.get("coerce_parent_concurrently", True))
                        f["listConc"] = bool(kwargs.get("coerce_list_concurrently", True))
    b.model = m
    return b

def canon_errors(errors):
    out = []
    for e in errors or []:
        out.append({"path": e.get("path"), "locations": sorted([l["line"], l["column"]] for l in (e.get("locations") or [])),
                    "message": e.get("message"), "extensions": e.get("extensions")})
    return out

def parse_doc(query):
    q = query.encode("utf-8") if isinstance(query, str) else query
    return json.loads(gqlshim.parse_to_json(q))

REQUEST_LIMIT_S = float(os.environ.get("VERIF_REQUEST_LIMIT_S", "150"))
WATCH = {"pid": None, "seed": None}     # set by framework.Verdict: which check is running

class guard:
    """A single request (a few ms on the unchanged tree) that is still running after REQUEST_LIMIT_S seconds never
    produces the result the property speaks about: the check stops there and reports that request as the failing
    input (the alternative is a check that hangs until its caller's timeout)."""
    def __init__(self, **payload): self.payload = payload
    def _fire(self, signum, frame):
        import framework as fw
        pid = WATCH["pid"] or "C??"
        rel = fw.write_replay(pid, {"property": pid, "seed": WATCH["seed"], "what": [f"the request did not complete within {REQUEST_LIMIT_S:.0f} s"], **self.payload})
        print(f"VIOLATION property={pid} replay={rel}", flush=True)
        fw.write_evidence(pid, WATCH.get("tier") or "quick", int(WATCH["seed"] or 0), "proof",
                          {"obligations": 1, "discharged": 0, "checker_cmd": "lake build", "trusted_base": fw.TRUSTED_BASE, "evaluations": 1, "distinct_nontrivial": 1,
                           "rule": "run aborted: one request did not complete", "samples": [{"query": str(self.payload.get("query"))[:500]}]}, 0.0, 1, [])
        os._exit(1)
    def __enter__(self):
        import signal
        try:
            signal.signal(signal.SIGALRM, self._fire); signal.setitimer(signal.ITIMER_REAL, REQUEST_LIMIT_S)
        except ValueError:
            pass                      # not in the main thread
        return self
    def __exit__(self, *a):
        import signal
        try: signal.setitimer(signal.ITIMER_REAL, 0)
        except ValueError: pass
        return False

async def run_request(b, query, op_name=None, variables=None, root=None, context=None):
    b.calls.clear(); b.type_calls.clear()
    with warnings.catch_warnings(record=True) as w, guard(query=query, operation_name=op_name, variables=variables, sdl=print_sdl(b.model) if b.model else None):
        warnings.simplefilter("always")
        resp = await b.engine.execute(query, operation_name=op_name, variables=variables, initial_value=dec(root) if root is not None else None, context=context)
    return {"data": enc(resp.get("data")), "errors": canon_errors(resp.get("errors")), "has_errors_key": "errors" in resp,
            "raw": resp, "calls": list(b.calls), "warnings": [str(x.message) for x in w if "never awaited" in str(x.message) or "never retrieved" in str(x.message)]}

def model_request(b, query, op_name=None, variables=None, root=None, renv=None):
    doc = parse_doc(query)
    vars_w = [[k, enc(v)] for k, v in (variables or {}).items()]
    req = {"op": "execute", "schema": b.model, "doc": doc, "env": renv or {}, "op_name": op_name, "vars": vars_w, "root": root}
    strs = set()
    strings_in(root, strs)
    for k, v in vars_w: strings_in(v, strs)
    for spec in (renv or {}).get("resolvers", {}).values():
        if "v" in spec: strings_in(spec["v"], strs)
    _doc_lexemes(doc, strs)
    _schema_lexemes(b.model, strs)
    req["stf"] = stf_table(strs)
    return req

def _doc_lexemes(j, acc):
    if isinstance(j, dict):
        if j.get("kind") in ("IntValue", "FloatValue", "StringValue") and isinstance(j.get("value"), str): acc.add(j["value"])
        for v in j.values(): _doc_lexemes(v, acc)
    elif isinstance(j, list):
        for v in j: _doc_lexemes(v, acc)

def _schema_lexemes(m, acc):
    _doc_lexemes(m, acc)

def run(coro):
    loop = asyncio.new_event_loop()
    try:
        return loop.run_until_complete(coro)
    finally:
        loop.close()
