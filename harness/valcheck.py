"""C06 / C07 — validation: valid documents are never refused; documents breaking a supported
rule are refused and nothing runs.  Oracle = the Lean specification of the rules
(Spec/Validation.lean, driver op `validate`); the engine's verdict is also compared with the
model's engine-variant (the specification with the recorded deviations)."""
import env, sys, json, random, time, hashlib
import framework as fw
import engine_runner as er
from gen import SchemaGen, DocGen, print_sdl
from model import Model
from violations import Catalogue, subscription_violations, LEGAL_UNUSUAL, overlapping_abstract_spreads, impossible_reuse

DEVIATION_KF = {"field-selections-on-objects-interfaces-and-unions-types": "KF-C07-3", "fragment-spread-is-possible": "KF-C07-4",
                "all-variable-usages-are-allowed": "KF-C07-5", "single-root-field": "KF-C06-2"}

def sanitize_dunder(sv, doc):
    """replace every `__`-prefixed field selection the ENGINE cannot resolve on its parent type (unknown
    `__foo` anywhere; `__typename` on an interface, which has no such field in the engine) by a plain
    `__typename`: if the result is valid, every violation of the original sits on such a site (KF-C07-3)"""
    import copy
    d = copy.deepcopy(doc)
    changed = [False]
    frag_types = {f["name"]["value"]: f["typeCondition"]["name"]["value"] for f in d["definitions"] if f["kind"] == "FragmentDefinition"}
    def walk(ss, parent):
        if not ss: return
        for sel in ss.get("selections") or []:
            k = sel["kind"]
            if k == "Field":
                name = sel["name"]["value"]
                t = sv.types.get(parent) if parent else None
                if name.startswith("__"):
                    resolvable = (name == "__typename" and t is not None and t["kind"] in ("object", "union")) or (name in ("__schema", "__type") and parent == sv.m["query"])
                    if not resolvable:
                        if name != "__typename" or sel.get("arguments") or sel.get("selectionSet") or sel.get("directives"): changed[0] = True
                        sel["name"]["value"] = "__typename"; sel["arguments"] = None; sel["selectionSet"] = None; sel["directives"] = None
                        continue
                    child = None
                else:
                    fd = sv.fields(parent).get(name) if parent else None
                    from gen import base
                    child = base(fd["type"]) if fd else None
                walk(sel.get("selectionSet"), child)
            elif k == "InlineFragment":
                tc = sel.get("typeCondition")
                walk(sel.get("selectionSet"), tc["name"]["value"] if tc else parent)
    for df in d["definitions"]:
        if df["kind"] == "OperationDefinition": walk(df["selectionSet"], sv.root(df["operation"]))
        else: walk(df["selectionSet"], df["typeCondition"]["name"]["value"])
    return d if changed[0] else None

def engine_refused(resp):
    errs = resp.get("errors") or []
    if resp.get("data") is not None or not errs: return False
    return any((e.get("extensions") or {}).get("rule") for e in errs) or any(e.get("message") == "Server encountered an error." for e in errs)

async def explore(pid, tier, seed, m):
    rng = random.Random(seed * 977 + (6 if pid == "C06" else 7))
    st = {"evaluations": 0, "nontrivial": set(), "problems": [], "disagreements": [], "known": {}, "samples": [], "by_rule": {}, "generator_rejects": 0,
          "valid_docs": 0, "invalid_docs": 0, "parse_errors": 0}
    nschemas, ndocs = ((fw.scale(24), 30) if pid == "C06" else (fw.scale(5), 16)) if tier == "quick" else (fw.scale(80), 60)
    t0 = time.time()
    for si in range(nschemas):
        if time.time() - t0 > (100 if tier == "quick" else 1500): break
        sg = SchemaGen(rng, with_subscription=(si % 2 == 0))
        renv = sg.gen_env(adv=0.0, fail=0.0)
        # type resolvers with logs: nothing may run for a refused document
        # a custom directive for operation and fragment DEFINITIONS (variables used in their arguments count as uses)
        mdl = sg.model()
        mdl["sdl_extra"] = list(mdl.get("sdl_extra", [])) + ["directive @tagq(t: String) on QUERY | MUTATION | FRAGMENT_DEFINITION"]
        mdl["directives"] = [{"name": "tagq", "args": [{"name": "t", "type": {"n": "String"}, "default": None}], "locations": ["QUERY", "MUTATION", "FRAGMENT_DEFINITION"]}]
        class TagQ:
            async def on_field_execution(self, directive_args, next_resolver, parent, args, ctx, info): return await next_resolver(parent, args, ctx, info)
        b = await er.build_engine(mdl, renv, directives={"tagq": TagQ()})
        cat = Catalogue(sg, rng)
        docs = []
        for di in range(ndocs):
            dg = DocGen(sg, rng, op_kinds=("query", "mutation") if sg.mutation else ("query",))
            dg.nested_vars = rng.random() < 0.3
            dg.def_directive = "tagq"
            q, ops, opvars = dg.document(n_ops=rng.choice([1, 1, 2]))
            k = rng.randrange(len(ops))
            variables, _ = dg.variables_for(opvars[k], invalid=0.0)
            docs.append(("generated", q, ops[k][1], variables))
            if pid == "C07":
                for intent, q2 in cat.all(q):
                    docs.append((intent, q2, ops[k][1], variables))
        for q in LEGAL_UNUSUAL: docs.append(("legal-unusual", q, "A" if q.startswith("query A") else None, None))
        for q in overlapping_abstract_spreads(sg, rng): docs.append(("legal-unusual", q, None, None))
        if pid == "C07":
            for q in impossible_reuse(sg, rng): docs.append(("spread-impossible-reuse", q, None, None))
        for intent, q in subscription_violations(sg, rng): docs.append((intent, q, "B" if "subscription B" in q else ("Qm" if "query Qm" in q else None), None))
        for intent, q, opn, variables in docs:
            try:
                doc = er.parse_doc(q)
            except Exception:
                st["parse_errors"] += 1; continue
            req = {"op": "validate", "schema": b.model, "doc": doc}
            v = m.ask(req)
            if "fail" in v: st["disagreements"].append({"query": q, "model": v}); continue
            spec, eng = v["spec"], v["engine"]
            if pid == "C06" and spec and intent in ("generated", "legal-unusual"):
                st["generator_rejects"] += 1
                if len(st["samples"]) < 8: st["samples"].append({"generator_reject": q[:600], "spec_violations": spec})
                continue
            if pid == "C06" and spec: continue       # C06 looks at valid documents only
            if pid == "C07" and not spec: st["valid_docs"] += 1
            b.calls.clear(); b.type_calls.clear()
            is_sub = any(d.get("operation") == "subscription" and (opn is None or (d.get("name") or {}).get("value") == opn) for d in doc["definitions"] if d["kind"] == "OperationDefinition")
            if is_sub:
                resps = []
                try:
                    async for p in b.engine.subscribe(q, operation_name=opn, variables=variables): resps.append(p)
                    resp = resps[0] if resps else {"data": "no-event"}
                except Exception as e:
                    # a refused document is answered with ONE errors-only response; an exception while the source is created means
                    # the document got past validation
                    resp = {"data": "raised", "errors": [{"message": f"{type(e).__name__}: {e}"}]}
            else:
                try:
                    resp = await b.engine.execute(q, operation_name=opn, variables=variables)
                except Exception as e:
                    st["problems"].append({"what": [f"execute raised {type(e).__name__}"], "query": q}); continue
            st["evaluations"] += 1
            refused = engine_refused(resp)
            ran = bool(b.calls) or bool(b.type_calls)
            h = hashlib.sha256(q.encode()).hexdigest()[:16]
            for t in spec: st["by_rule"][t] = st["by_rule"].get(t, 0) + 1
            if spec:
                st["invalid_docs"] += 1
                st["nontrivial"].add(h)
                if not eng:
                    # the specification refuses, the engine (as modelled) accepts: recorded deviation classes only
                    for t in spec:
                        kf = DEVIATION_KF.get(t)
                        if kf: st["known"][kf] = st["known"].get(kf, 0) + 1
                    if refused: st["disagreements"].append({"query": q, "what": "engine refuses a document of a recorded deviation class (finding stale?)", "spec": spec, "response": resp})
                    continue
                if not refused:
                    import oracles as orc
                    sd = sanitize_dunder(orc.SchemaView(b.model), doc)
                    if sd is not None:
                        v2 = m.ask({"op": "validate", "schema": b.model, "doc": sd})
                        if "fail" not in v2 and not v2["engine"]:
                            st["known"]["KF-C07-3"] = st["known"].get("KF-C07-3", 0) + 1
                            continue
                pr = []
                if not refused: pr.append(f"document violates {spec} but is not refused (data: {json.dumps(resp.get('data'), default=str)[:120]})")
                if ran: pr.append("a resolver or type resolver ran for a document that breaks a validation rule")
                if resp.get("data") is not None: pr.append("data is not null")
                if not resp.get("errors"): pr.append("no errors reported")
                if pr: st["problems"].append({"what": pr, "intent": intent, "violated_rules": spec, "query": q, "operation_name": opn, "variables": variables,
                                              "response": json.loads(json.dumps(resp, default=str)), "sdl": print_sdl(b.model)})
            else:
                if pid == "C06": st["nontrivial"].add(h); st["valid_docs"] += 1
                if eng:
                    kfs = [DEVIATION_KF.get(t) for t in eng]
                    if all(kfs) and refused:
                        for kf in kfs: st["known"][kf] = st["known"].get(kf, 0) + 1
                        continue
                if refused:
                    tags = sorted({(e.get("extensions") or {}).get("tag") or e.get("message") for e in resp.get("errors") or []})
                    st["problems"].append({"what": [f"valid document refused by validation: {tags}"], "intent": intent, "query": q, "operation_name": opn, "variables": variables,
                                           "response": json.loads(json.dumps(resp, default=str)), "sdl": print_sdl(b.model)})
                elif eng and not all(DEVIATION_KF.get(t) for t in eng):
                    st["disagreements"].append({"query": q, "what": "model's engine-variant refuses, engine accepts", "engine_model": eng})
            if len(st["samples"]) < 6 and spec and refused and si < 2:
                st["samples"].append({"intent": intent, "violated_rules": spec, "query": q[:400], "engine_tags": sorted({(e.get("extensions") or {}).get("tag") or "?" for e in resp.get("errors") or []})})
    return st

RULES = {"C06": "valid-by-construction generated documents (aliases, merged keys, fragment DAGs with sharing and repetition, fragments defined before/after use, inline fragments, @skip/@include with literals and variables, variables used only inside fragments, nested variables, several operations), introspection meta-field queries and legal subscription shapes; each is first classified by the Lean specification of the validation rules (a generated document the specification rejects is a generator bug and is only counted); the engine must not answer with a validation error; non-trivial = distinct specification-valid document",
         "C07": "every valid generated document is rewritten by a catalogue of ~28 violation-injecting rewrites (one family per supported rule) at randomly chosen applicable sites: operation, nested selection, inside fragments, directive arguments, nested input values, variable definitions; plus subscription single-root shapes; what a rewritten document violates is decided by the Lean specification, not by the rewrite's intent; the engine must answer data: null + errors and no resolver / type resolver may run; non-trivial = distinct document the specification classifies as violating at least one supported rule"}

def main(pid):
    tier = sys.argv[1] if len(sys.argv) > 1 else "quick"
    seed = int(sys.argv[2]) if len(sys.argv) > 2 else 0
    v = fw.Verdict(pid, tier, seed)
    b = fw.build(pid, thorough=(tier == "thorough"))
    if not b["driver_ok"]:
        v.violation({"property": pid, "what": "model driver does not build", "log": b["driver_log"][-1500:]}, no_input=True)
        return v.finish("proof", fw.proof_coverage(b, {"evaluations": 0, "distinct_nontrivial": 0, "samples": [{"note": "driver failed"}]}), [])
    m = Model()
    st = er.run(explore(pid, tier, seed, m))
    m.close()
    known = {k["id"]: k for k in fw.load_known()}
    for kid, n in st["known"].items():
        k = known.get(kid)
        if k and k["status"] == "known" and (k["property"] == pid or pid == "C07" and kid == "KF-C06-2" and False):
            v.known(k["line"].split(" ", 2)[2])
    for p in st["problems"][:3]:
        v.violation({"property": pid, "seed": seed, **p, "undischarged_theorems": b["failing"]})
    if not st["problems"] and (not b["sound"] or st["disagreements"]):
        v.violation({"property": pid, "seed": seed, "what": "proof obligation or model/implementation correspondence broken; no mis-validated document found",
                     "undischarged_theorems": b["failing"], "failed_dependency": b.get("failed_dependency"), "build_log_tail": b["build_log"][-1500:],
                     "first_disagreement": st["disagreements"][:1], "documents_checked": st["evaluations"]}, no_input=True)
    cov = fw.proof_coverage(b, {
        "evaluations": st["evaluations"], "distinct_nontrivial": len(st["nontrivial"]), "rule": RULES[pid],
        "valid_documents": st["valid_docs"], "invalid_documents": st["invalid_docs"], "violations_by_rule": st["by_rule"], "rules_hit": len(st["by_rule"]),
        "generator_rejected_by_spec": st["generator_rejects"], "unparsable_rewrites": st["parse_errors"], "known_finding_hits": st["known"],
        "correspondence": {"disagreements": len(st["disagreements"])}, "problems": len(st["problems"]), "samples": st["samples"] or [{"note": "none"}]})
    return v.finish("proof", cov, ["the oracle is the Lean specification of the rules (Spec/Validation.lean), written from the specification text; the engine's rule code is NOT modelled site by site: its verdict is compared with the specification and with the engine-variant (specification + four recorded deviations)",
                                   "field-selection merging (not checked by the engine, not in the supported list) is respected by the generator and not part of the oracle",
                                   "text -> JSON AST by the parser substitute"])
