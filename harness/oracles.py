"""Independent (Python, spec-level) oracles evaluated on the REAL engine's answers.  They are
written from the GraphQL June-2018 text and the property statements, not from the Lean model,
and are what turns a broken proof / correspondence into a concrete failing input (DESIGN §5)."""
import json, math
from gen import base, is_nn, unwrap_nn, value_to_json

MIN_INT, MAX_INT = -2**31, 2**31 - 1

class SchemaView:
    def __init__(self, model):
        self.m = model
        self.types = {t["name"]: t for t in model["types"]}
    def fields(self, tn):
        t = self.types.get(tn)
        return {f["name"]: f for f in t.get("fields", [])} if t and t["kind"] in ("object", "interface") else {}
    def possible(self, tn):
        t = self.types.get(tn)
        if not t: return []
        if t["kind"] == "object": return [tn]
        if t["kind"] == "union": return list(t["members"])
        if t["kind"] == "interface": return [o["name"] for o in self.m["types"] if o["kind"] == "object" and tn in o.get("interfaces", [])]
        return []
    def root(self, kind):
        return {"query": self.m["query"], "mutation": self.m.get("mutation"), "subscription": self.m.get("subscription")}[kind]

# ---- wire helpers (values are pyval wire encodings) -------------------------------------------
def w_is_int(w): return isinstance(w, dict) and "i" in w
def w_is_float(w): return isinstance(w, dict) and "f" in w
def w_is_dict(w): return isinstance(w, dict) and "d" in w

def leaf_ok(sv, tn, w):
    t = sv.types.get(tn)
    if t is None: return False
    if t["kind"] == "enum": return isinstance(w, str) and w in t["values"]
    if tn == "Int":
        if w_is_int(w): return MIN_INT <= int(w["i"]) <= MAX_INT
        if w_is_float(w) and isinstance(w["f"], list):
            m, e = int(w["f"][0]), w["f"][1]
            return m % (10 ** e) == 0 and MIN_INT <= m // (10 ** e) <= MAX_INT
        return False
    if tn == "Float": return w_is_float(w) and isinstance(w["f"], list)
    if tn in ("String", "ID"): return isinstance(w, str)
    if tn == "Boolean": return isinstance(w, bool)
    return True      # custom scalar: whatever its coerce_output returned

# ---- selection collection (spec §6.3.2) over the JSON AST with raw variables -------------------
def _dir_ok(directives, variables):
    for d in directives or []:
        n = d["name"]["value"]
        if n not in ("skip", "include"): continue
        arg = next((a for a in d.get("arguments") or [] if a["name"]["value"] == "if"), None)
        if arg is None: return False
        v = arg["value"]
        val = variables.get(v["name"]["value"]) if v["kind"] == "Variable" else v.get("value")
        if n == "skip" and val: return False
        if n == "include" and not val: return False
    return True

def collect(sv, doc, tn, selection_set, variables, out=None, visited=None):
    out = {} if out is None else out
    visited = set() if visited is None else visited
    frags = {d["name"]["value"]: d for d in doc["definitions"] if d["kind"] == "FragmentDefinition"}
    for s in (selection_set or {}).get("selections") or []:
        if not _dir_ok(s.get("directives"), variables): continue
        k = s["kind"]
        if k == "Field":
            key = (s.get("alias") or s["name"])["value"]
            out.setdefault(key, []).append(s)
        elif k == "InlineFragment":
            tc = s.get("typeCondition")
            if tc and tn not in sv.possible(tc["name"]["value"]): continue
            collect(sv, doc, tn, s["selectionSet"], variables, out, visited)
        else:
            name = s["name"]["value"]
            if name in visited: continue
            visited.add(name)
            f = frags.get(name)
            if not f or tn not in sv.possible(f["typeCondition"]["name"]["value"]): continue
            collect(sv, doc, tn, f["selectionSet"], variables, out, visited)
    return out

def operation_of(doc, op_name):
    ops = [d for d in doc["definitions"] if d["kind"] == "OperationDefinition"]
    if op_name:
        for o in ops:
            if o.get("name") and o["name"]["value"] == op_name: return o
        return None
    return ops[0] if len(ops) == 1 else None

def effective_bool_vars(op, variables):
    """raw variables + defaults, enough for @skip/@include conditions"""
    out = dict(variables or {})
    for vd in op.get("variableDefinitions") or []:
        n = vd["variable"]["name"]["value"]
        if n not in out and vd.get("defaultValue") is not None:
            try: out[n] = value_to_json(vd["defaultValue"])
            except Exception: pass
    return out

def t_of_model(t):      # model typeref -> same
    return t

def conforms(sv, doc, variables, tn_candidates, nodes, w, ty, path, problems):
    """C03: value `w` conforms to output type `ty` for the merged field nodes `nodes`"""
    if "nn" in ty:
        if w is None: problems.append(f"null at non-null position {path}"); return
        return conforms(sv, doc, variables, tn_candidates, nodes, w, ty["nn"], path, problems)
    if w is None: return
    if "l" in ty:
        if not isinstance(w, list): problems.append(f"non-list at list position {path}"); return
        for i, x in enumerate(w): conforms(sv, doc, variables, tn_candidates, nodes, x, ty["l"], path + [i], problems)
        return
    tn = ty["n"]
    t = sv.types.get(tn)
    if t is None: problems.append(f"unknown type {tn}"); return
    if t["kind"] in ("scalar", "enum"):
        if not leaf_ok(sv, tn, w): problems.append(f"leaf {json.dumps(w)[:60]} does not conform to {tn} at {path}")
        return
    if not w_is_dict(w): problems.append(f"non-object at composite position {path}"); return
    errs_best = None
    for rt in sv.possible(tn):
        errs = []
        object_conforms(sv, doc, variables, rt, nodes, w, path, errs)
        if not errs: return
        if errs_best is None or len(errs) < len(errs_best): errs_best = errs
    problems.extend(errs_best or [f"no possible object type for {tn} at {path}"])

def object_conforms(sv, doc, variables, rt, nodes, w, path, problems):
    sub = {}
    vis = set()
    for n in nodes:
        if n.get("selectionSet"): collect(sv, doc, rt, n["selectionSet"], variables, sub, vis)
    expected = [k for k, ns in sub.items() if ns[0]["name"]["value"] == "__typename" or ns[0]["name"]["value"] in sv.fields(rt)]
    got = [kv[0] for kv in w["d"]]
    if got != expected:
        problems.append(f"keys {got} != selected {expected} at {path} (as {rt})"); return
    for k, x in w["d"]:
        ns = sub[k]
        fname = ns[0]["name"]["value"]
        if fname == "__typename":
            if x != rt: problems.append(f"__typename {x!r} != {rt} at {path}")
            continue
        conforms(sv, doc, variables, None, ns, x, sv.fields(rt)[fname]["type"], path + [k], problems)

def check_conforms(model, doc, op_name, variables, data_w):
    """returns list of problems (empty = conforms); data null always conforms"""
    if data_w is None: return []
    sv = SchemaView(model)
    op = operation_of(doc, op_name)
    if op is None: return ["data without a selected operation"]
    vs = effective_bool_vars(op, variables)
    problems = []
    if not w_is_dict(data_w): return ["data is not an object"]
    root = sv.root(op["operation"])
    fake = [{"selectionSet": op["selectionSet"], "name": {"value": "<root>"}}]
    object_conforms(sv, doc, vs, root, fake, data_w, [], problems)
    return problems

# ---- C02: error accounting --------------------------------------------------------------------
def field_spans(doc):
    """response key -> list of (start, end) spans of field nodes with that key"""
    out = {}
    def walk(j):
        if isinstance(j, dict):
            if j.get("kind") == "Field":
                key = (j.get("alias") or j["name"])["value"]
                l = j["loc"]
                out.setdefault(key, []).append(((l["start"]["line"], l["start"]["column"]), (l["end"]["line"], l["end"]["column"])))
            for v in j.values(): walk(v)
        elif isinstance(j, list):
            for v in j: walk(v)
    walk(doc)
    return out

def check_errors(doc, data_w, errors, raw_errors):
    """C02/C18 shape + soundness of field errors: returns problems"""
    problems = []
    spans = field_spans(doc)
    for e, raw in zip(errors, raw_errors):
        if not isinstance(raw.get("message"), str): problems.append("error without string message")
        p = raw.get("path")
        if p is not None and not isinstance(p, list): problems.append("error path neither list nor null")
        locs = raw.get("locations")
        if not isinstance(locs, list): problems.append("error locations not a list"); continue
        for l in locs:
            if not (isinstance(l, dict) and isinstance(l.get("line"), int) and isinstance(l.get("column"), int) and l["line"] >= 1 and l["column"] >= 1):
                problems.append(f"bad location {l!r}")
        if "extensions" in raw and not raw["extensions"]: problems.append("empty extensions emitted")
        if p:
            # position nulled: walking the path through data meets a null
            cur = data_w; hit = cur is None
            for seg in p:
                if cur is None: hit = True; break
                if isinstance(seg, int):
                    if not isinstance(cur, list) or seg >= len(cur): problems.append(f"error path {p} does not exist in data"); break
                    cur = cur[seg]
                else:
                    if not w_is_dict(cur): problems.append(f"error path {p} does not exist in data"); break
                    kv = dict(cur["d"])
                    if seg not in kv: problems.append(f"error path {p} names a key absent from data"); break
                    cur = kv[seg]
            else:
                hit = hit or cur is None
                if not hit: problems.append(f"error at {p} but the position holds a value (spurious error)")
            # locations inside the text of a field with that response key
            keys = [s for s in p if isinstance(s, str)]
            if keys:
                sp = spans.get(keys[-1], [])
                if not locs: problems.append(f"field error at {p} without locations")
                for l in locs:
                    pos = (l["line"], l["column"])
                    if not any(a <= pos < b for a, b in sp): problems.append(f"location {pos} of error at {p} outside the field's text")
    return problems

# ---- C04/C05: input coercion per the specification ------------------------------------------------
class Invalid(Exception): pass
ABSENT = object()

def coerce_input_spec(sv, ty, v):
    """spec §3.x input coercion of a JSON value (Python object) -> coerced Python value; raises Invalid"""
    if "nn" in ty:
        if v is None: raise Invalid("null for non-null")
        return coerce_input_spec(sv, ty["nn"], v)
    if v is None: return None
    if "l" in ty:
        if isinstance(v, list): return [coerce_input_spec(sv, ty["l"], x) for x in v]
        return [coerce_input_spec(sv, ty["l"], v)]
    tn = ty["n"]; t = sv.types[tn]
    if t["kind"] == "enum":
        if isinstance(v, str) and v in t["values"]: return v
        raise Invalid("enum")
    if t["kind"] == "input":
        if not isinstance(v, dict): raise Invalid("not an object")
        fields = {f["name"]: f for f in t["fields"]}
        for k in v:
            if k not in fields: raise Invalid("unknown field")
        out = {}
        for n, f in fields.items():
            if n in v: out[n] = coerce_input_spec(sv, f["type"], v[n])
            elif f.get("default") is not None: out[n] = coerce_literal_spec(sv, f["type"], f["default"], {})
            elif is_nn(f["type"]): raise Invalid("missing required field")
        return out
    isnum = isinstance(v, (int, float)) and not isinstance(v, bool)
    if tn == "Int":
        if isnum and (isinstance(v, int) or (math.isfinite(v) and v == math.floor(v))) and MIN_INT <= v <= MAX_INT: return int(v)
        raise Invalid("Int")
    if tn == "Float":
        if isnum:
            try: f = float(v)
            except OverflowError: raise Invalid("Float")
            if math.isfinite(f): return f
        raise Invalid("Float")
    if tn == "String":
        if isinstance(v, str): return v
        raise Invalid("String")
    if tn == "Boolean":
        if isinstance(v, bool): return v
        raise Invalid("Boolean")
    if tn == "ID":
        if isinstance(v, str): return v
        if isnum and (isinstance(v, int) or (math.isfinite(v) and v == math.floor(v))): return str(int(v))
        raise Invalid("ID")
    # custom pass-through scalar of the harness
    if isinstance(v, str) and v == "BAD": raise Invalid("custom")
    return v

def coerce_literal_spec(sv, ty, node, variables):
    """spec coercion of an AST literal (may contain variables: `variables` holds COERCED values; missing = absent)"""
    k = node["kind"]
    if k == "Variable":
        n = node["name"]["value"]
        if n not in variables: return ABSENT
        v = variables[n]
        if v is None and "nn" in ty: raise Invalid("null variable for non-null")
        return v
    if "nn" in ty:
        if k == "NullValue": raise Invalid("null for non-null")
        return coerce_literal_spec(sv, ty["nn"], node, variables)
    if k == "NullValue": return None
    if "l" in ty:
        if k == "ListValue":
            out = []
            for x in node["values"]:
                r = coerce_literal_spec(sv, ty["l"], x, variables)
                if r is ABSENT:
                    if "nn" in ty["l"]: raise Invalid("missing variable in non-null list item")
                    r = None
                out.append(r)
            return out
        r = coerce_literal_spec(sv, ty["l"], node, variables)
        return [r]
    tn = ty["n"]; t = sv.types[tn]
    if t["kind"] == "enum":
        if k == "EnumValue" and node["value"] in t["values"]: return node["value"]
        raise Invalid("enum literal")
    if t["kind"] == "input":
        if k != "ObjectValue": raise Invalid("not an object literal")
        given = {f["name"]["value"]: f["value"] for f in node["fields"]}
        fields = {f["name"]: f for f in t["fields"]}
        for g in given:
            if g not in fields: raise Invalid("unknown field")
        out = {}
        for n, f in fields.items():
            r = ABSENT
            if n in given: r = coerce_literal_spec(sv, f["type"], given[n], variables)
            if r is ABSENT:
                if f.get("default") is not None: r = coerce_literal_spec(sv, f["type"], f["default"], {})
                elif is_nn(f["type"]): raise Invalid("missing required field")
                else: continue
            out[n] = r
        return out
    if tn == "Int":
        if k == "IntValue" and MIN_INT <= int(node["value"]) <= MAX_INT: return int(node["value"])
        raise Invalid("Int literal")
    if tn == "Float":
        if k in ("IntValue", "FloatValue"):
            f = float(node["value"])
            if math.isfinite(f): return f
        raise Invalid("Float literal")
    if tn == "String":
        if k == "StringValue": return node["value"]
        raise Invalid("String literal")
    if tn == "Boolean":
        if k == "BooleanValue": return node["value"]
        raise Invalid("Boolean literal")
    if tn == "ID":
        if k == "StringValue": return node["value"]
        if k == "IntValue": return str(int(node["value"])) if node["value"] != "-0" else "-0"
        raise Invalid("ID literal")
    if k == "StringValue":
        if node["value"] == "BAD": raise Invalid("custom")
        return node["value"]
    if k == "IntValue": return int(node["value"])
    if k == "BooleanValue": return node["value"]
    raise Invalid("custom literal")

def type_from_ast(t):
    k = t["kind"]
    if k == "NamedType": return {"n": t["name"]["value"]}
    if k == "ListType": return {"l": type_from_ast(t["type"])}
    return {"nn": type_from_ast(t["type"])}

def coerce_variables_spec(sv, op, raw):
    """-> (coerced dict, set of offending variable names)"""
    out, bad = {}, set()
    raw = raw or {}
    for vd in op.get("variableDefinitions") or []:
        n = vd["variable"]["name"]["value"]
        ty = type_from_ast(vd["type"])
        try:
            if n not in raw:
                if vd.get("defaultValue") is not None:
                    out[n] = coerce_literal_spec(sv, ty, vd["defaultValue"], {})
                elif "nn" in ty: raise Invalid("missing")
                continue
            out[n] = coerce_input_spec(sv, ty, raw[n])
        except Invalid:
            bad.add(n)
    return out, bad

def coerce_arguments_spec(sv, arg_defs, field_node, variables):
    """spec CoerceArgumentValues -> dict, or raises Invalid (field error)"""
    given = {a["name"]["value"]: a["value"] for a in field_node.get("arguments") or []}
    out = {}
    for ad in arg_defs:
        n, ty = ad["name"], ad["type"]
        r = ABSENT
        if n in given:
            node = given[n]
            r = coerce_literal_spec(sv, ty, node, variables)
        if r is ABSENT:
            if ad.get("default") is not None: r = coerce_literal_spec(sv, ty, ad["default"], {})
            elif "nn" in ty: raise Invalid("missing required argument")
            else: continue
        out[n] = r
    return out

def py_equal_typed(a, b):
    """equality that distinguishes int/float/bool/str (a delivered 4 is not the ID "4")"""
    if type(a) is not type(b): return False
    if isinstance(a, list): return len(a) == len(b) and all(py_equal_typed(x, y) for x, y in zip(a, b))
    if isinstance(a, dict): return a.keys() == b.keys() and all(py_equal_typed(a[k], b[k]) for k in a)
    return a == b


def has_type(sv, ty, v):
    """the coerced Python value `v` is a value of input type `ty`"""
    if "nn" in ty: return v is not None and has_type(sv, ty["nn"], v)
    if v is None: return True
    if "l" in ty: return isinstance(v, list) and all(has_type(sv, ty["l"], x) for x in v)
    tn = ty["n"]; t = sv.types[tn]
    if t["kind"] == "enum": return isinstance(v, str) and v in t["values"]
    if t["kind"] == "input":
        if not isinstance(v, dict): return False
        fields = {f["name"]: f for f in t["fields"]}
        if any(k not in fields for k in v): return False
        for n, f in fields.items():
            if n in v:
                if not has_type(sv, f["type"], v[n]): return False
            elif is_nn(f["type"]): return False
        return True
    if tn == "Int": return type(v) is int and MIN_INT <= v <= MAX_INT
    if tn == "Float": return type(v) is float and math.isfinite(v)
    if tn in ("String", "ID"): return type(v) is str
    if tn == "Boolean": return type(v) is bool
    return True
