import env, sys
import execcheck
RULE = {
 "C01": "type-directed valid documents (aliases, merged keys, fragment DAGs with sharing, inline fragments, @skip/@include with literals and variables, several operations) over generated schemas with resolver data trees; non-trivial = data non-null and >= 2 resolver calls; distinct by hash of (query, operation, variables, environment)",
 "C02": "as C01 with ~35% failing root resolvers, failing nested resolvers and 8% garbage values; non-trivial = at least one error while data is not null (a failure was contained); distinct by input hash",
 "C03": "as C01 with 35% adversarial resolver values at every position (NaN, inf, huge ints, strings for numbers, wrong containers, exceptions as values, unknown runtime types); non-trivial = non-null data together with errors; distinct by input hash",
 "C04": "as C01 with 35% of the variables made invalid (missing required, null for non-null, wrong kinds, unknown / missing input fields, out-of-range numbers); non-trivial = request carries variables; distinct by input hash",
 "C05": "as C01; echo fields of every input type shape make coerced arguments observable; non-trivial = some resolver received a non-empty argument dictionary; distinct by input hash",
}["C05"]
ASSUME = ["the Lean executor model (Impl/Exec.lean, Impl/Input.lean) is hand-written: its agreement with the engine is established on the generated requests only",
          "text -> JSON AST is done by harness/gqlshim.py (the native parser is absent in this sandbox)",
          "resolver values are restricted to the modelled Python universe (Base/PyVal.lean)"]
import random, json
import engine_runner as er
from gen import SchemaGen, print_value, value_to_json, tstr, base, unwrap_nn, vvar, vlist, vobj

async def extra(m, seed, tier):
    """targeted cases: the same value as literal / through a variable / as variable default /
    nested in list and object literals (well- and ill-typed variables)"""
    rng = random.Random(seed + 505)
    cases = []
    for _ in range(4 if tier == "quick" else 40):
        sg = SchemaGen(rng, custom_scalar=True)
        renv = sg.gen_env()
        b = await er.build_engine(sg.model(), renv)
        for fn in sg.echo:
            f = sg.sigs[fn]; ty = f["args"][0]["type"]
            for _ in range(3):
                lit = sg.const_literal(ty, 0)
                jv = value_to_json(lit)
                T = tstr(ty)
                qs = [("{ %s(v: %s) }" % (fn, print_value(lit)), None),
                      ("query($a: %s) { %s(v: $a) }" % (T, fn), {"a": jv}),
                      ("query($a: %s = %s) { %s(v: $a) }" % (T, print_value(lit), fn), {}),
                      ]
                if not ("nn" in ty and not f["args"][0].get("default")): qs.append(("{ %s }" % fn, None))
                inner = unwrap_nn(ty)
                if "l" in inner and lit["kind"] == "ListValue" and lit["values"] and lit["values"][0]["kind"] != "NullValue":
                    it = inner["l"]
                    nested = dict(lit); nested = {"kind": "ListValue", "values": [vvar("a")] + lit["values"][1:]}
                    qs.append(("query($a: %s) { %s(v: %s) }" % (tstr(it), fn, print_value(nested)), {"a": value_to_json(lit["values"][0])}))
                    qs.append(("query($a: %s) { %s(v: %s) }" % (tstr(it), fn, print_value(nested)), {}))
                if "n" in inner and sg.tdef(inner["n"])["kind"] == "input" and lit["kind"] == "ObjectValue" and lit["fields"]:
                    fld = lit["fields"][0]; fdef = next(x for x in sg.tdef(inner["n"])["fields"] if x["name"] == fld["name"]["value"])
                    if fld["value"]["kind"] != "NullValue":
                        nested = vobj([(x["name"]["value"], vvar("a") if i == 0 else x["value"]) for i, x in enumerate(lit["fields"])])
                        qs.append(("query($a: %s) { %s(v: %s) }" % (tstr(fdef["type"]), fn, print_value(nested)), {"a": value_to_json(fld["value"])}))
                for q, vs in qs:
                    cases.append(await execcheck.run_case(m, b, renv, q, None, vs))
        # ill-typed variables nested in list / object literals (must never be delivered)
        for fn in sg.echo:
            ty = unwrap_nn(sg.sigs[fn]["args"][0]["type"])
            if "l" in ty and base(ty) == "Int":
                cases.append(await execcheck.run_case(m, b, renv, "query($s: String) { %s(v: [$s]) }" % fn, None, {"s": "notint"}))
            if "n" in ty and sg.tdef(ty["n"])["kind"] == "input":
                flds = sg.tdef(ty["n"])["fields"]
                for x in flds:
                    others_optional = all(("nn" not in y["type"]) or y.get("default") for y in flds if y is not x)
                    if others_optional and base(x["type"]) in ("Int", "Boolean") and "l" not in unwrap_nn(x["type"]):
                        cases.append(await execcheck.run_case(m, b, renv, "query($s: String) { %s(v: {%s: $s}) }" % (fn, x["name"]), None, {"s": "notint"}))
    return cases

if __name__ == "__main__":
    sys.exit(execcheck.main("C05", RULE, ASSUME, extra=extra))
