#!/bin/bash
# Build the framework from files on disk only (offline).
set -e
cd "$(dirname "$0")"
export PATH="/opt/veriftools/lean/bin:$PATH"
/venv/bin/python -B harness/py2lean.py "${VERIF_REPO:-/repo}" lean/TartModel/Generated >/dev/null
(cd lean && lake build TartModel tartmodel 2>&1 | tail -3)
