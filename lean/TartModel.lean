import TartModel.Base.PyVal
import TartModel.Base.PyPrims
import TartModel.Generated.Scalars
import TartModel.Spec.Scalars
import TartModel.Proofs.ScalarLemmas
import TartModel.Properties.C10
