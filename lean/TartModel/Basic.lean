def hello := "world"
