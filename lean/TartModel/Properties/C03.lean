import TartModel.Proofs.ConformLemmas
/-
  C03 — returned data conforms to schema and selection whatever resolvers return.
  The resolver environment, the values it returns (`PyVal`: wrong types, NaN / infinite / huge
  numbers, strings for numbers, containers, exception instances, objects of unknown classes),
  schema, document and fuel are universally quantified.  Leaf cases rest on the C10 theorems about
  the scalar code GENERATED from the repository.
-/
namespace Tart.C03
open Tart Tart.Spec

/-- Whatever a resolver returned, a successfully completed value conforms to the declared type:
    lists where declared, no null at non-null positions, Int integral within 32 bits, Float finite,
    String/ID strings, Boolean booleans, enum results among the declared values, abstract positions
    completed as one of their possible object types, every object member the completed value of a
    field of that object type. -/
theorem completed_value_conforms (fuel : Nat) (ctx : Ctx) (ty : TypeRef) (pt fname : String)
    (nodes : List Selection) (path : List PathSeg) (x : PyVal) (st : St) (v : PyVal)
    (h : (run fuel ctx (.complete ty pt fname nodes path x) st).1 = .ok v) : Conforms ctx.S ty v :=
  run_conf fuel ctx (.complete ty pt fname nodes path x) st v h

/-- A successfully executed selection set is an object whose members all conform. -/
theorem selection_set_conforms (fuel : Nat) (ctx : Ctx) (tn : String) (parent : PyVal) (path : List PathSeg)
    (coll : Collected) (serial : Bool) (st : St) (v : PyVal)
    (h : (run fuel ctx (.fields tn parent path coll serial) st).1 = .ok v) :
    ∃ kvs, v = .dict kvs ∧ MembersOK ctx.S tn kvs := by
  obtain ⟨kvs, hv, hm⟩ := run_conf fuel ctx (.fields tn parent path coll serial) st v h
  exact ⟨kvs, hv, membersOK_of_forall _ _ _ hm⟩

/-- A leaf produced by a built-in scalar's `coerce_output` (generated code) has the wire type. -/
theorem leaf_has_wire_type (o : Oracle) (tn : String) (v r : PyVal) (h : scalarOut o tn v = .ok r) : LeafOK tn r :=
  scalarOut_leaf o tn v r h

/-- Conforming data is JSON-serialisable (no NaN / infinity, no foreign objects). -/
theorem conforming_is_json {S : Schema} {ty : TypeRef} {v : PyVal} (h : Conforms S ty v) : JsonOK v :=
  conforms_json h

/-- Request level: `data` is null, or an object whose members conform to the root operation type
    (hence JSON-serialisable); there is no third outcome — `executeRequest` is a total function. -/
theorem response_data_conforms (fuel : Nat) (S : Schema) (o : Oracle) (env : Env) (doc : Document)
    (opName : Option String) (rawVars : List (String × PyVal)) (root : PyVal) :
    (executeRequest fuel S o env doc opName rawVars root).data = .none ∨
    ∃ rt kvs, (executeRequest fuel S o env doc opName rawVars root).data = .dict kvs ∧ MembersOK S rt kvs := by
  unfold executeRequest
  cases hsel : selectOperation doc opName with
  | none => simp
  | some op =>
    simp only []
    cases hcv : coerceVariables fuel S o op.varDefs rawVars with
    | mk vars verrs =>
      simp only []
      by_cases hve : (!verrs.isEmpty) = true
      · simp only [hve, if_true]; simp
      · simp only [hve]
        cases hrt : rootTypeName S op.kind with
        | none => simp
        | some rt =>
          simp only []
          cases hrun : run fuel ⟨S, doc, vars, env, o⟩ (.fields rt root []
              (collectFields fuel ⟨S, doc, vars, env, o⟩ rt op.sels ([], [])).1 (op.kind == .mutation)) {} with
          | mk r st =>
            cases r with
            | error e => simp
            | ok d =>
              simp only []
              right
              obtain ⟨kvs, hv, hm⟩ := selection_set_conforms fuel ⟨S, doc, vars, env, o⟩ rt root [] _ _ {} d (by rw [hrun])
              exact ⟨rt, kvs, hv, hm⟩

/-- non-vacuity: an adversarial value at an Int position is refused, a good one conforms -/
def S0 : Schema := { types := [.scalar "Int", .object "Query" [⟨"n", .named "Int", [], true, true⟩] []], queryType := "Query", mutationType := none, subscriptionType := none }
def ctx0 : Ctx := ⟨S0, ⟨[], []⟩, [], ⟨[], [], []⟩, ⟨fun _ => none⟩⟩
example : (run 5 ctx0 (.complete (.named "Int") "Query" "n" [] [.key "n"] (.float .nan)) ({} : St)).1 = .error (.raw "leaf" false "" []) := by rfl
example : (run 5 ctx0 (.complete (.named "Int") "Query" "n" [] [.key "n"] (.int 7)) ({} : St)).1 = .ok (.int 7) := by rfl

end Tart.C03
