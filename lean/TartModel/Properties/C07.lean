import TartModel.Properties.C06
import TartModel.Impl.Engine
/-
  C07 — documents breaking a supported validation rule are refused, nothing runs.
  `violations .spec` is the specification of the supported rules, `violations .engine` the engine's
  verdict as modelled (tied to the real engine by the correspondence check over a catalogue of
  violation-injecting rewrites at every kind of site).  PARTIAL on the unchanged code: three
  recorded deviations (KF-C07-3 `__`-prefixed unknown fields, KF-C07-4 impossible inline
  fragments, KF-C07-5 variables nested in list/object literals); each has a machine-checked
  counter-example below, and `refused_unless_recorded_deviation` shows they are the only ones.
-/
namespace Tart.C07
open Tart Tart.Spec.V

/-- a violation of any of the 21 rules the engine checks as the specification words them is refused -/
theorem common_rule_violation_refused (fuel : Nat) (S : Schema) (d : Document) (t : String)
    (ht : t ∈ commonViolations fuel S d) : engineAccepts fuel S d = false := by
  unfold engineAccepts violations
  cases hc : commonViolations fuel S d with
  | nil => rw [hc] at ht; cases ht
  | cons a as => simp

/-- a violation the engine's own variants of the four remaining rules see is refused as well -/
theorem engine_variant_violation_refused (fuel : Nat) (S : Schema) (d : Document) (t : String)
    (ht : t ∈ modeViolations .engine fuel S d) : engineAccepts fuel S d = false := by
  unfold engineAccepts violations
  cases hc : modeViolations .engine fuel S d with
  | nil => rw [hc] at ht; cases ht
  | cons a as => simp

/-- A document that breaks a supported rule is refused by the engine as modelled — unless the only
    rules it breaks are among the recorded deviations. -/
theorem refused_unless_recorded_deviation (fuel : Nat) (S : Schema) (d : Document)
    (hbad : valid fuel S d = false) :
    engineAccepts fuel S d = false ∨
    (∀ t ∈ violations .spec fuel S d,
      t = "field-selections-on-objects-interfaces-and-unions-types" ∨ t = "fragment-spread-is-possible" ∨
      t = "all-variable-usages-are-allowed" ∨ t = "single-root-field") := by
  cases he : engineAccepts fuel S d with
  | false => exact Or.inl rfl
  | true => exact Or.inr (fun t ht => C06.spec_only_refusals_are_the_recorded_ones fuel S d he t ht)

/-- A refused document is answered with `data: null` and its errors, and NOTHING runs: no resolver
    call is made (the execution stage is never entered), whatever the error coercer. -/
theorem refusal_runs_nothing {α : Type} (coerce : GErr → α) (fuel : Nat) (S : Schema) (o : Oracle) (env : Env)
    (errs : List GErr) (hne : errs ≠ []) (opName : Option String) (rawVars : List (String × PyVal)) (root : PyVal) :
    (engineExecute coerce fuel S o env (.refused errs) opName rawVars root).1.data = .none ∧
    (engineExecute coerce fuel S o env (.refused errs) opName rawVars root).2 = [] ∧
    (engineExecute coerce fuel S o env (.refused errs) opName rawVars root).1.errors = some (errs.map coerce) := by
  cases errs with
  | nil => exact absurd rfl hne
  | cons e es => simp [engineExecute, buildResponse]

/-! ### machine-checked counter-examples for the recorded deviations -/

def Sk : Schema := { types := [.scalar "Int", .scalar "String", .object "T" [⟨"x", .named "Int", [], true, true⟩] [],
                               .object "U2" [⟨"z", .named "Int", [], true, true⟩] [],
                               .object "Query" [⟨"t", .named "T", [], true, true⟩,
                                                ⟨"echo", .list (.named "Int"), [⟨"l", .list (.named "Int"), none⟩], true, true⟩] []],
                     queryType := "Query", mutationType := none, subscriptionType := none }

/-- KF-C07-3: `{ __foo t { x __bar } }` -/
def dDunder : Document := ⟨[⟨.query, none, [], [], [.field none "__foo" [] [] ⟨1, 3⟩ [],
  .field none "t" [] [] ⟨1, 9⟩ [.field none "x" [] [] ⟨1, 13⟩ [], .field none "__bar" [] [] ⟨1, 15⟩ []]]⟩], []⟩
theorem dunder_field_witness : valid 20 Sk dDunder = false ∧ engineAccepts 20 Sk dDunder = true := by decide +kernel

/-- KF-C07-4: `{ t { ... on U2 { z } } }` -/
def dInline : Document := ⟨[⟨.query, none, [], [], [.field none "t" [] [] ⟨1, 3⟩ [.inline (some "U2") [] [.field none "z" [] [] ⟨1, 18⟩ []]]]⟩], []⟩
theorem impossible_inline_witness : valid 20 Sk dInline = false ∧ engineAccepts 20 Sk dInline = true := by decide +kernel

/-- KF-C07-5: `query($s: String) { echo(l: [$s]) }` -/
def dNested : Document := ⟨[⟨.query, none, [⟨"s", .named "String", none, ⟨1, 7⟩, ⟨0, 0⟩⟩], [],
  [.field none "echo" [⟨"l", .list [.var "s"], ⟨1, 30⟩⟩] [] ⟨1, 22⟩ []]⟩], []⟩
theorem nested_variable_witness : valid 20 Sk dNested = false ∧ engineAccepts 20 Sk dNested = true := by decide +kernel

/-- …whereas the same ill-typed variable used directly as the argument value IS refused -/
def dTop : Document := ⟨[⟨.query, none, [⟨"s", .named "String", none, ⟨1, 7⟩, ⟨0, 0⟩⟩], [],
  [.field none "echo" [⟨"l", .var "s", ⟨1, 30⟩⟩] [] ⟨1, 22⟩ []]⟩], []⟩
example : engineAccepts 20 Sk dTop = false := by decide +kernel

end Tart.C07
