import TartModel.Impl.Subscription
import TartModel.Proofs.ExecLemmas
/-
  C14 — subscriptions answer every source event once, in order.
  Theorems over Impl/Subscription.lean for every schema, document, variables, resolver environment
  and every finite event list.  PARTIAL: an exception raised while the source is created AFTER
  variable coercion (no `@Subscription` on the field, argument coercion failure of the root field)
  escapes `subscribe` in the code; the property statement does not cover it and the model has no
  such path (the harness never produces it).
-/
namespace Tart.C14
open Tart

/-- one response per event, in the order produced, each equal to executing the selection with that
    event as root value (C01/C02 semantics, argument coercion included) -/
theorem one_response_per_event_in_order (fuel : Nat) (S : Schema) (o : Oracle) (env : Env) (doc : Document)
    (opName : Option String) (rawVars : List (String × PyVal)) (events : List PyVal)
    (h : preflight fuel S o doc opName rawVars = none) :
    subscribeResponses fuel S o env doc opName rawVars events =
      events.map (fun e => executeRequest fuel S o env doc opName rawVars e) ∧
    (subscribeResponses fuel S o env doc opName rawVars events).length = events.length := by
  simp [subscribeResponses, h]

/-- the i-th response answers the i-th event -/
theorem ith_response_answers_ith_event (fuel : Nat) (S : Schema) (o : Oracle) (env : Env) (doc : Document)
    (opName : Option String) (rawVars : List (String × PyVal)) (events : List PyVal) (i : Nat) (e : PyVal)
    (h : preflight fuel S o doc opName rawVars = none) (hi : events[i]? = some e) :
    (subscribeResponses fuel S o env doc opName rawVars events)[i]? = some (executeRequest fuel S o env doc opName rawVars e) := by
  simp [subscribeResponses, h, List.getElem?_map, hi]

/-- a field failure inside one event's response does not end the stream: the events after it are
    still answered (the stream is a `map`, it ends exactly when the source ends) -/
theorem failure_does_not_end_stream (fuel : Nat) (S : Schema) (o : Oracle) (env : Env) (doc : Document)
    (opName : Option String) (rawVars : List (String × PyVal)) (pre post : List PyVal) (bad : PyVal)
    (h : preflight fuel S o doc opName rawVars = none) :
    subscribeResponses fuel S o env doc opName rawVars (pre ++ bad :: post) =
      subscribeResponses fuel S o env doc opName rawVars pre ++
      executeRequest fuel S o env doc opName rawVars bad ::
      subscribeResponses fuel S o env doc opName rawVars post := by
  simp [subscribeResponses, h]

/-- a request refused by operation selection or variable coercion yields exactly one errors-only
    response, whatever the source would have produced (the source is not consulted) -/
theorem refused_single_response (fuel : Nat) (S : Schema) (o : Oracle) (env : Env) (doc : Document)
    (opName : Option String) (rawVars : List (String × PyVal)) (events events' : List PyVal) (r : Response)
    (h : preflight fuel S o doc opName rawVars = some r) :
    subscribeResponses fuel S o env doc opName rawVars events = [r] ∧
    subscribeResponses fuel S o env doc opName rawVars events = subscribeResponses fuel S o env doc opName rawVars events' ∧
    r.data = .none ∧ r.errors ≠ [] ∧ r.calls = [] := by
  refine ⟨by simp [subscribeResponses, h], by simp [subscribeResponses, h], ?_⟩
  unfold preflight at h
  cases hsel : selectOperation doc opName with
  | none => simp [hsel] at h; subst h; simp
  | some op =>
    simp only [hsel] at h
    split at h
    · rename_i hne
      simp at h; subst h
      refine ⟨rfl, ?_, rfl⟩
      cases hv : (coerceVariables fuel S o op.varDefs rawVars).2 with
      | nil => simp [hv] at hne
      | cons a as => simp
    · cases h

/-- the refusal of `subscribe` is the refusal `execute` gives for the same request -/
theorem refusal_same_as_execute (fuel : Nat) (S : Schema) (o : Oracle) (env : Env) (doc : Document)
    (opName : Option String) (rawVars : List (String × PyVal)) (root : PyVal) (r : Response)
    (h : preflight fuel S o doc opName rawVars = some r) :
    executeRequest fuel S o env doc opName rawVars root = r := by
  unfold preflight at h
  unfold executeRequest
  cases hsel : selectOperation doc opName with
  | none => simp [hsel] at h ⊢; exact h
  | some op =>
    simp only [hsel] at h ⊢
    cases hcv : coerceVariables fuel S o op.varDefs rawVars with
    | mk vars verrs =>
      simp only [hcv] at h ⊢
      split at h
      · rename_i hne; simp at h; simp [hne, h]
      · cases h

/-- The source function is started with exactly the argument dictionary CoerceArgumentValues prescribes for the
    subscription's (first collected) root field — computed from the coerced variables of the request, defaults of
    omitted arguments included (C05 `omitted_uses_default`) — i.e. the same dictionary the root field's resolver
    receives in every event's execution (C01 `resolver_called_once_with_parent_and_args` is stated with the very
    same `coerceArguments` expression). -/
theorem source_gets_root_field_arguments (fuel : Nat) (S : Schema) (o : Oracle) (env : Env) (doc : Document)
    (opName : Option String) (rawVars : List (String × PyVal)) (coord : String) (args : List (String × PyVal))
    (h : sourceArguments fuel S o env doc opName rawVars = some (coord, args)) :
    ∃ op rt key nodes rest fd,
      selectOperation doc opName = some op ∧ rootTypeName S op.kind = some rt ∧
      (collectFields fuel ⟨S, doc, (coerceVariables fuel S o op.varDefs rawVars).1, env, o⟩ rt op.sels ([], [])).1 = (key, nodes) :: rest ∧
      findFieldDef S rt nodes.head!.fname = some fd ∧ coord = rt ++ "." ++ fd.name ∧
      coerceArguments fuel S o fd.args nodes.head!.floc nodes.head!.fargs (coerceVariables fuel S o op.varDefs rawVars).1 = .ok args := by
  unfold sourceArguments at h
  cases hsel : selectOperation doc opName with
  | none => simp [hsel] at h
  | some op =>
    simp only [hsel] at h
    cases hrt : rootTypeName S op.kind with
    | none => simp [hrt] at h
    | some rt =>
      simp only [hrt] at h
      cases hc : (collectFields fuel ⟨S, doc, (coerceVariables fuel S o op.varDefs rawVars).1, env, o⟩ rt op.sels ([], [])).1 with
      | nil => simp [hc] at h
      | cons kn rest =>
        obtain ⟨key, nodes⟩ := kn
        simp only [hc] at h
        cases hf : findFieldDef S rt nodes.head!.fname with
        | none => simp [hf] at h
        | some fd =>
          simp only [hf] at h
          cases ha : coerceArguments fuel S o fd.args nodes.head!.floc nodes.head!.fargs (coerceVariables fuel S o op.varDefs rawVars).1 with
          | error e => simp [ha] at h
          | ok a =>
            simp only [ha, Option.some.injEq, Prod.mk.injEq] at h
            obtain ⟨h1, h2⟩ := h
            subst h2
            exact ⟨op, rt, key, nodes, rest, fd, rfl, hrt, hc, hf, h1.symm, ha⟩

/-- an accepted request yields as many responses as the source produced events (the source is started once; its
    arguments are fixed before the first event) -/
theorem accepted_one_response_per_event (fuel : Nat) (S : Schema) (o : Oracle) (env : Env) (doc : Document)
    (opName : Option String) (rawVars : List (String × PyVal)) (events : List PyVal)
    (h : preflight fuel S o doc opName rawVars = none) :
    (subscribeResponses fuel S o env doc opName rawVars events).length = events.length := by
  simp [subscribeResponses, h]

end Tart.C14
