import TartModel.Impl.Directives
import TartModel.Proofs.DirLitVar
/-
  C13 — directive hooks wrap their target exactly once, nested in declaration order.

  `wrap_spec` characterises the wrapper chain `wraps_with_directives` builds, for EVERY list of
  directive uses, EVERY inner stage and EVERY value: the applicable hooks (those whose implementation
  provides the hook kind) are entered once each in declaration order — first declared outermost —,
  each sees what the previous one passed on, the inner stage runs once on the value the last hook
  passed on, and the hooks are left in reverse order, each seeing what the next stage returned.
  The stage lemmas pin the documented order of stages (type-level input hooks → input-field hooks →
  input-object hooks → argument hooks → field hooks (query-side around schema-side) → resolver →
  type-level output hooks → enum-value hooks / serialisation).  `literal_eq_variable_*` state that
  an input runs through the same hooks with the same results whether it is written as a literal
  or supplied through a variable (`literal_eq_variable`: every input type, nullable argument positions).  Tied to the code by the correspondence check harness/c13.py (tagging directives).
-/
namespace Tart.C13
open Tart Tart.Dir

/-- first declared = outermost -/
theorem wrap_cons (I : List DImpl) (kind : String) (u : Use) (us : List Use) (inner : DV → R DV) :
    wrap I kind (u :: us) inner = hookOn I kind u (wrap I kind us inner) := rfl

theorem wrap_nil (I : List DImpl) (kind : String) (inner : DV → R DV) : wrap I kind [] inner = inner := rfl

/-- query-side directives wrap the schema-side ones -/
theorem wrap_append (I : List DImpl) (kind : String) (qs ss : List Use) (inner : DV → R DV) :
    wrap I kind (qs ++ ss) inner = wrap I kind qs (wrap I kind ss inner) := by
  simp [wrap, List.foldr_append]

/-- the uses whose directive implements the hook kind, with that implementation, in declaration order -/
def apps (I : List DImpl) (kind : String) (us : List Use) : List (Use × DImpl) :=
  us.filterMap fun u => (applies I kind u).map fun d => (u, d)

/-- what the inner stage receives: every applicable hook's inbound mark, outermost first -/
def preAll (kind : String) : List (Use × DImpl) → DV → DV
  | [], v => v
  | (u, d) :: rest, v => preAll kind rest (markIf d.marks (preMark kind u) v)

/-- what the caller receives: every applicable hook's outbound mark, innermost first -/
def postAll (kind : String) : List (Use × DImpl) → DV → DV
  | [], r => r
  | (u, d) :: rest, r => markIf d.marks (postMark kind u) (postAll kind rest r)

def enters (kind : String) : List (Use × DImpl) → DV → List Ev
  | [], _ => []
  | (u, d) :: rest, v => ⟨kind, u.name, u.tag, "enter", render v⟩ :: enters kind rest (markIf d.marks (preMark kind u) v)

def exits (kind : String) : List (Use × DImpl) → DV → List Ev
  | [], _ => []
  | (u, _) :: rest, r0 => exits kind rest r0 ++ [⟨kind, u.name, u.tag, "exit", render (postAll kind rest r0)⟩]

theorem apps_cons_none (I : List DImpl) (kind : String) (u : Use) (us : List Use) (h : applies I kind u = none) :
    apps I kind (u :: us) = apps I kind us := by simp [apps, h]

theorem apps_cons_some (I : List DImpl) (kind : String) (u : Use) (us : List Use) (d : DImpl) (h : applies I kind u = some d) :
    apps I kind (u :: us) = (u, d) :: apps I kind us := by simp [apps, h]

/-- THE chain theorem: exactly once, nested in declaration order, each stage sees what the previous returned -/
theorem wrap_spec (I : List DImpl) (kind : String) (us : List Use) (inner : DV → R DV) (v : DV) :
    wrap I kind us inner v =
      match inner (preAll kind (apps I kind us) v) with
      | none => none
      | some (r0, evs0) =>
        some (postAll kind (apps I kind us) r0, enters kind (apps I kind us) v ++ evs0 ++ exits kind (apps I kind us) r0) := by
  induction us generalizing v with
  | nil =>
    simp only [wrap_nil, apps, List.filterMap_nil, preAll, postAll, enters, exits, List.nil_append, List.append_nil]
    cases inner v with
    | none => rfl
    | some p => rfl
  | cons u us ih =>
    rw [wrap_cons]
    unfold hookOn
    cases h : applies I kind u with
    | none =>
      simp only
      rw [apps_cons_none I kind u us h]
      exact ih v
    | some d =>
      simp only
      rw [apps_cons_some I kind u us d h, ih]
      simp only [preAll, postAll, enters, exits]
      cases inner (preAll kind (apps I kind us) (markIf d.marks (preMark kind u) v)) with
      | none => rfl
      | some p => simp [List.append_assoc]

/-- exactly once: one enter and one exit event per applicable use, in declaration order / reverse order -/
theorem enters_instances (kind : String) (l : List (Use × DImpl)) (v : DV) :
    (enters kind l v).map (fun e => (e.dir, e.tag, e.phase)) = l.map (fun p => (p.1.name, p.1.tag, "enter")) := by
  induction l generalizing v with
  | nil => rfl
  | cons p rest ih => obtain ⟨u, d⟩ := p; simp [enters, ih]

theorem exits_instances (kind : String) (l : List (Use × DImpl)) (r0 : DV) :
    (exits kind l r0).map (fun e => (e.dir, e.tag, e.phase)) = (l.map (fun p => (p.1.name, p.1.tag, "exit"))).reverse := by
  induction l with
  | nil => rfl
  | cons p rest ih => obtain ⟨u, d⟩ := p; simp [exits, ih]

theorem exactly_once (I : List DImpl) (kind : String) (us : List Use) (v r0 : DV) :
    (enters kind (apps I kind us) v).length = (apps I kind us).length ∧
    (exits kind (apps I kind us) r0).length = (apps I kind us).length := by
  constructor
  · have := congrArg List.length (enters_instances kind (apps I kind us) v); simpa using this
  · have := congrArg List.length (exits_instances kind (apps I kind us) r0); simpa using this

/-- a directive whose implementation lacks the hook is not part of the chain; one that has it is -/
theorem apps_mem (I : List DImpl) (kind : String) (us : List Use) (u : Use) (d : DImpl) :
    (u, d) ∈ apps I kind us ↔ u ∈ us ∧ applies I kind u = some d := by
  simp only [apps, List.mem_filterMap, Option.map_eq_some_iff]
  constructor
  · rintro ⟨u', hu, d', hd, heq⟩
    cases heq; exact ⟨hu, hd⟩
  · rintro ⟨hu, hd⟩; exact ⟨u, hu, d, hd, rfl⟩

/-- every hook sees exactly what the previous (outer) one passed on: the first sees the input itself -/
theorem first_hook_sees_input (kind : String) (u : Use) (d : DImpl) (rest : List (Use × DImpl)) (v : DV) :
    (enters kind ((u, d) :: rest) v).head? = some ⟨kind, u.name, u.tag, "enter", render v⟩ := rfl

/-- the outermost hook is the last to return, and it sees what the rest of the chain returned -/
theorem outermost_exits_last (kind : String) (u : Use) (d : DImpl) (rest : List (Use × DImpl)) (r0 : DV) :
    (exits kind ((u, d) :: rest) r0).getLast? = some ⟨kind, u.name, u.tag, "exit", render (postAll kind rest r0)⟩ := by
  simp [exits]

/-! ### stage order -/

/-- field execution: arguments are coerced (all input and argument hooks) BEFORE the field hooks run;
    query-side field directives wrap the schema-side ones, which wrap the resolver; output hooks come after -/
theorem execField_stages (n : Nat) (S : DSchema) (vars : Vars) (od : ObjDef) (parent : DV) (first : Sel) (more : List Sel)
    (fd : OutField) (quses : List Use)
    (hf : od.fields.find? (fun f => f.name == first.fname) = some fd)
    (hq : allSome (((first :: more).flatMap Sel.dirs).map (resolveUse vars)) = some quses) :
    execField (n+1) S vars od parent (first :: more) =
      bind (coerceArguments (n+1) S fd.args first.args vars) fun args =>
      bind (wrap S.impls "fld" (quses ++ fd.dirs) (resolverCore fd parent) args) fun result =>
      complete n S vars fd.type result ((first :: more).flatMap Sel.sub) := by
  simp only [execField, hf, hq, fieldResolver, wrap_append]

/-- an argument: its value is coerced with the input hooks first, the argument hooks run on the result -/
theorem coerceArgument_literal_stages (fuel : Nat) (S : DSchema) (ad : InField) (vn : Value) (vars : Vars)
    (hnv : ∀ x, vn ≠ .var x) (hnn : vn ≠ .null) :
    coerceArgument fuel S ad (some vn) vars =
      bind (coerceLit fuel S (some vars) false ad.type vn) fun v => bind (wrap S.impls "arg" ad.dirs ret v) fun r => ret (some r) := by
  cases vn with
  | var x => exact absurd rfl (hnv x)
  | null => exact absurd rfl hnn
  | _ => (simp [coerceArgument, argHasValue, argIsNull, argProvided, argFinishLit]; rfl)

/-- JSON path, named type: the type's own coercer (incl. enum-value hooks / input fields) first, then the type-level hooks -/
theorem coerceIn_named_stages (n : Nat) (S : DSchema) (tn : String) (d : InDef) (v : DV) (h : S.findIn tn = some d) :
    coerceIn (n+1) S (.named tn) v =
      bind (inNamedCore (coerceIn n S) (coerceLit n S none) S d v) (wrap S.impls "in" d.dirs ret) := by
  simp [coerceIn, h]

/-- an input field present in the value: the hooks of the field's TYPE run first, then the field's own hooks -/
theorem inField_stages (I : List DImpl) (rec : InRec) (lit : LitRec) (kvs : List (String × DV)) (fd : InField) (fv : DV)
    (h : lookup fd.name kvs = some fv) :
    inField I rec lit kvs fd = bind (bind (rec fd.type fv) (wrap I "in" fd.dirs ret)) fun r => ret (some (fd.name, r)) := by
  simp [inField, h]

/-- output: the type-level hooks run on the resolved value before the scalar's own serialisation -/
theorem complete_scalar_stages (n : Nat) (S : DSchema) (vars : Vars) (tn : String) (dirs : List Use) (v : DV) (subs : List Sel)
    (ho : S.findObj tn = none) (ha : S.findAbs tn = none) (hs : S.findIn tn = some (.scalar tn dirs)) :
    complete (n+1) S vars (.named tn) v subs = bind (wrap S.impls "out" dirs ret v) scalarSerialise := by
  simp [complete, ho, ha, hs]

/-- output of an enum: the hooks of the enum TYPE run on the resolved value, then those of the enum VALUE -/
theorem complete_enum_stages (n : Nat) (S : DSchema) (vars : Vars) (tn : String) (dirs : List Use) (vals : List (String × List Use))
    (v : DV) (subs : List Sel) (ho : S.findObj tn = none) (ha : S.findAbs tn = none) (hs : S.findIn tn = some (.enum tn dirs vals)) :
    complete (n+1) S vars (.named tn) v subs = bind (wrap S.impls "out" dirs ret v) (enumSerialise S.impls vals) := by
  simp [complete, ho, ha, hs]

/-- the non-null check: applied to what the inner completion — type-level output hooks included — produced -/
def nonNullCheck (r : DV) : R DV := match r with | .null => none | _ => ret r

/-- a NON-NULL wrapper does not shield a value (a null included) from the type-level output hooks: the inner
    type is completed first (hooks, then serialisation), the non-null check sees the outcome of that -/
theorem nonNull_check_after_type_hooks (n : Nat) (S : DSchema) (vars : Vars) (tn : String) (dirs : List Use) (v : DV) (subs : List Sel)
    (ho : S.findObj tn = none) (ha : S.findAbs tn = none) (hs : S.findIn tn = some (.scalar tn dirs)) :
    complete (n+2) S vars (.nonNull (.named tn)) v subs
      = bind (bind (wrap S.impls "out" dirs ret v) scalarSerialise) nonNullCheck := by
  have h := complete_scalar_stages n S vars tn dirs v subs ho ha hs
  rw [← h]
  simp only [complete, nonNullCheck]
  rfl

/-- in particular the hooks of a hooked scalar run exactly once on a NULL resolved for a `T!` position (the chain of
    `wrap_spec` is entered with `.null`), and a hook chain answering a non-null string makes the field succeed -/
theorem nonNull_null_still_hooked (n : Nat) (S : DSchema) (vars : Vars) (tn : String) (dirs : List Use) (subs : List Sel)
    (ho : S.findObj tn = none) (ha : S.findAbs tn = none) (hs : S.findIn tn = some (.scalar tn dirs))
    (s : String) (evs : List Ev) (hw : wrap S.impls "out" dirs ret .null = some (.str s, evs)) :
    complete (n+2) S vars (.nonNull (.named tn)) .null subs = some (.str s, evs) := by
  rw [nonNull_check_after_type_hooks n S vars tn dirs .null subs ho ha hs, hw]
  simp [Dir.bind, scalarSerialise, nonNullCheck, ret]

/-- list items: each item of `[T]` / `[T!]` is completed on its own (so hooked once per item, nulls included) -/
theorem list_items_completed_one_by_one (n : Nat) (S : DSchema) (vars : Vars) (t : TypeRef) (xs : List DV) (subs : List Sel) :
    complete (n+1) S vars (.list t) (.list xs) subs
      = bind (mapR (fun x => complete n S vars t x subs) xs) (fun rs => ret (.list rs)) := by
  simp [complete]

/-- … and inside `enumSerialise` the hooks of the enum VALUE that was resolved run on it -/
theorem enumSerialise_value_hooks (I : List DImpl) (vals : List (String × List Use)) (s : String) (vdirs : List Use)
    (h : vals.find? (fun p => p.1 == s) = some (s, vdirs)) :
    enumSerialise I vals (.str s) = wrap I "out" vdirs ret (.str s) := by
  simp [enumSerialise, h]

/-! ### literal = variable (leaf types) -/

theorem bind_ret_left {α β : Type} (a : α) (f : α → R β) : bind (ret a) f = f a := by
  simp only [Dir.bind, ret]
  cases h : f a with
  | none => rfl
  | some p => obtain ⟨b, e⟩ := p; simp

theorem bind_ret_right {α : Type} (x : R α) : bind x ret = x := by
  cases x with
  | none => rfl
  | some p => obtain ⟨a, e⟩ := p; simp [Dir.bind, ret]

theorem bind_assoc {α β γ : Type} (x : R α) (f : α → R β) (g : β → R γ) : bind (bind x f) g = bind x (fun a => bind (f a) g) := by
  cases x with
  | none => rfl
  | some p =>
    obtain ⟨a, e1⟩ := p
    simp only [Dir.bind]
    cases hf : f a with
    | none => rfl
    | some q =>
      obtain ⟨b, e2⟩ := q
      simp only
      cases hg : g b with
      | none => rfl
      | some r => simp [List.append_assoc]

/-- output of an interface / union: the hooks of the ABSTRACT type run first on the resolved value, then (for a
    non-null result) the hooks of the RUNTIME object type, then that object's selection is executed -/
theorem complete_abstract_stages (n : Nat) (S : DSchema) (vars : Vars) (tn rt : String) (ad : AbsDef) (od : ObjDef)
    (kvs : List (String × DV)) (subs : List Sel) (ho : S.findObj tn = none) (ha : S.findAbs tn = some ad)
    (hnohook : ∀ u ∈ ad.dirs, applies S.impls "out" u = none)
    (hrt : runtimeTypeName (.obj kvs) = some rt) (hod : S.findObj rt = some od) :
    complete (n+1) S vars (.named tn) (.obj kvs) subs =
      bind (wrap S.impls "out" od.dirs ret (.obj kvs)) fun r2 =>
        (match r2 with | .obj _ => execSelections n S vars od r2 subs | _ => none) := by
  have hw : wrap S.impls "out" ad.dirs ret (.obj kvs) = ret (.obj kvs) := by
    have : apps S.impls "out" ad.dirs = [] := by
      unfold apps
      rw [List.filterMap_eq_nil_iff]
      intro u hu; simp [hnohook u hu]
    rw [wrap_spec, this]; simp [preAll, postAll, enters, exits, ret]
  simp only [complete, ho, ha, hw, bind_ret_left, hrt, hod]
  rfl

/-- a scalar-typed argument written as the literal `"s"` … -/
def argByLiteral (fuel : Nat) (S : DSchema) (ad : InField) (s : String) : R (Option DV) :=
  coerceArgument fuel S ad (some (.str s)) [("other", .null)]

/-- … or supplied through the variable `$x` declared with the argument's type and given the JSON value "s":
    variable coercion first, then the argument coercion with the coerced variables -/
def argByVariable (fuel : Nat) (S : DSchema) (ad : InField) (s : String) : R (Option DV) :=
  bind (coerceVariables fuel S [⟨"x", ad.type, none⟩] [("x", .str s)]) fun vars => coerceArgument fuel S ad (some (.var "x")) vars

/-- same value for the resolver, same hook invocations in the same order (type-level hooks, then argument hooks) -/
theorem literal_eq_variable_scalar (n : Nat) (S : DSchema) (ad : InField) (tn : String) (dirs : List Use) (s : String)
    (ht : ad.type = .named tn) (hs : S.findIn tn = some (.scalar tn dirs)) :
    argByLiteral (n+1) S ad s = argByVariable (n+1) S ad s := by
  unfold argByLiteral argByVariable
  rw [coerceArgument_literal_stages _ _ _ _ _ (by intro x h; cases h) (by intro h; cases h)]
  simp only [coerceVariables, mapR, coerceVariable, lookup, List.find?, ht, TypeRef.isNonNull, Bool.and_false, beq_self_eq_true]
  simp only [coerceLit, coerceIn, hs, litHooks, isVarNode, litWrapped, litNamedCore, inNamedCore, InDef.dirs, Bool.false_and]
  simp only [bind_ret_left, bind_assoc, Bool.false_eq_true, ↓reduceIte]
  congr 1
  funext v
  simp [coerceArgument, argHasValue, argIsNull, argProvided, argHooks, lookup, bind_ret_left, ht, TypeRef.isNonNull]

/-- the same for an enum-typed argument: the hooks of the enum VALUE, then of the enum TYPE, then of the argument -/
def argByEnumLiteral (fuel : Nat) (S : DSchema) (ad : InField) (x : String) : R (Option DV) :=
  coerceArgument fuel S ad (some (.enum x)) [("other", .null)]

theorem literal_eq_variable_enum (n : Nat) (S : DSchema) (ad : InField) (tn : String) (dirs : List Use) (vals : List (String × List Use)) (x : String)
    (ht : ad.type = .named tn) (hs : S.findIn tn = some (.enum tn dirs vals)) :
    argByEnumLiteral (n+1) S ad x = argByVariable (n+1) S ad x := by
  unfold argByEnumLiteral argByVariable
  rw [coerceArgument_literal_stages _ _ _ _ _ (by intro x h; cases h) (by intro h; cases h)]
  simp only [coerceVariables, mapR, coerceVariable, lookup, List.find?, ht, TypeRef.isNonNull, Bool.and_false, beq_self_eq_true]
  simp only [coerceLit, coerceIn, hs, litHooks, isVarNode, litWrapped, litNamedCore, inNamedCore, InDef.dirs, Bool.false_and]
  simp only [bind_ret_left, bind_assoc, Bool.false_eq_true, ↓reduceIte]
  congr 1
  funext v
  congr 1
  funext w
  simp [coerceArgument, argHasValue, argIsNull, argProvided, argHooks, lookup, bind_ret_left, ht, TypeRef.isNonNull]

/-- literal = variable for EVERY input type (lists, single value for a list, enums, input objects with omitted
    fields and SDL defaults, any nesting): the same value reaches the resolver and the same hooks run in the same
    order with the same values (`Proofs/DirLitVar.lean`: `lit_in_all` — literal coercion of a constant literal IS the
    JSON coercion of the value it denotes, as results WITH their hook events — and its argument-level corollary).
    Stated for nullable argument types; `literal_eq_variable_scalar/enum` above cover the leaf cases directly. -/
theorem literal_eq_variable (n : Nat) (S : DSchema) (hD : DefaultsNat S) (ad : InField) (node : Value) (j : DV) (vars0 : Vars)
    (hnat : NatLitD S ad.type node) (hn : node ≠ .null) (hj : jsonD node = some j) (hnull : ad.type.isNonNull = false) :
    argByLit n S ad node vars0 = argByVar n S ad j :=
  literal_eq_variable_general n S hD ad node j vars0 hnat hn hj hnull

/-! ### non-vacuity: a concrete chain -/
def I0 : List DImpl := [⟨"a", ["in", "arg", "fld", "out"], true⟩, ⟨"c", ["fld"], true⟩, ⟨"l", ["in"], false⟩]

example : (wrap I0 "in" [⟨"a", "x"⟩, ⟨"c", "y"⟩, ⟨"l", "z"⟩] ret (.str "v")).map (fun p => (render p.1, p.2)) =
    some ("\"v(in.a.x)in.a.x\"",
      [⟨"in", "a", "x", "enter", "\"v\""⟩, ⟨"in", "l", "z", "enter", "\"v(in.a.x\""⟩,
       ⟨"in", "l", "z", "exit", "\"v(in.a.x\""⟩, ⟨"in", "a", "x", "exit", "\"v(in.a.x\""⟩]) := by decide +kernel

example : apps I0 "in" [⟨"a", "x"⟩, ⟨"c", "y"⟩, ⟨"l", "z"⟩] = [(⟨"a", "x"⟩, ⟨"a", ["in", "arg", "fld", "out"], true⟩), (⟨"l", "z"⟩, ⟨"l", ["in"], false⟩)] := by
  simp [apps, applies, I0]

end Tart.C13
