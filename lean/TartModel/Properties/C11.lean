import TartModel.Spec.Introspection
/-
  C11 — introspection describes exactly the schema that was supplied.
  `Spec.I.describe` is the executable specification of what `__schema` / `__type` must report for a
  schema given as definitions + `extend` definitions; the correspondence check compares the real
  engine's full introspection answer with it for every way of supplying the SDL.  Theorems: the
  description is complete and sound with respect to the declarations, extension merging loses and
  invents nothing, `__type` agrees with `__schema.types`, deprecation / @nonIntrospectable filters.
  PARTIAL: (i) SDL text -> definitions (lark grammar + transformers) is covered by the
  correspondence only; (ii) known findings KF-C11-1 (valid covariant interface implementations are
  rejected at build time) and KF-C11-2 (`defaultValue` of a string containing `"` is not re-escaped).
-/
namespace Tart.C11
open Tart Tart.Spec.I

/-- every declared type is reported, with its kind -/
theorem declared_type_listed (M : SModel) (d : SDef) (hd : d ∈ M.defs) :
    ∃ t ∈ (describe M).types, t.name = (M.exts.foldl extend1 d).name ∧ t.kind = (M.exts.foldl extend1 d).kind := by
  refine ⟨describeType M (M.exts.foldl extend1 d), ?_, ?_, ?_⟩
  · simp only [describe, allTypes, List.map_append, List.mem_append, List.mem_map, merged]
    exact Or.inl ⟨_, ⟨d, hd, rfl⟩, rfl⟩
  · cases M.exts.foldl extend1 d <;> rfl
  · cases M.exts.foldl extend1 d <;> rfl

/-- an extension never changes the name or the kind of what it extends -/
theorem extend1_name_kind (d e : SDef) : (extend1 d e).name = d.name ∧ (extend1 d e).kind = d.kind := by
  cases d <;> cases e <;> first | exact ⟨rfl, rfl⟩ | (simp only [extend1]; split <;> exact ⟨rfl, rfl⟩)

theorem foldl_extend1_name_kind (d : SDef) (es : List SDef) :
    (es.foldl extend1 d).name = d.name ∧ (es.foldl extend1 d).kind = d.kind := by
  induction es generalizing d with
  | nil => exact ⟨rfl, rfl⟩
  | cons e es ih =>
    have h1 := extend1_name_kind d e
    have h2 := ih (extend1 d e)
    exact ⟨h2.1.trans h1.1, h2.2.trans h1.2⟩

/-- nothing appears beyond the declarations and the engine's built-in scalars -/
theorem listed_type_declared_or_builtin (M : SModel) (t : TypeDesc) (ht : t ∈ (describe M).types) :
    (∃ d ∈ M.defs, d.name = t.name ∧ d.kind = t.kind) ∨ (t.name ∈ builtinScalarNames ∧ t.kind = "SCALAR") := by
  simp only [describe, allTypes, List.map_append, List.mem_append, List.mem_map, merged] at ht
  rcases ht with ⟨d', ⟨d, hd, rfl⟩, rfl⟩ | ⟨d', hd', rfl⟩
  · left
    have h := foldl_extend1_name_kind d M.exts
    refine ⟨d, hd, ?_, ?_⟩
    · rw [← h.1]; cases M.exts.foldl extend1 d <;> rfl
    · rw [← h.2]; cases M.exts.foldl extend1 d <;> rfl
  · right
    simp only [List.mem_map, List.mem_filter] at hd'
    obtain ⟨n, ⟨hn, _⟩, rfl⟩ := hd'
    exact ⟨hn, rfl⟩

/-- object extensions: the fields (and interfaces) of an extended object are exactly its own followed
    by those of its extensions, in order — nothing lost, nothing invented -/
def extObjFields (n : String) : List SDef → List SField
  | [] => []
  | .object n' fs _ :: es => (if n == n' then fs else []) ++ extObjFields n es
  | _ :: es => extObjFields n es
def extObjIfaces (n : String) : List SDef → List String
  | [] => []
  | .object n' _ is :: es => (if n == n' then is else []) ++ extObjIfaces n es
  | _ :: es => extObjIfaces n es

theorem merged_object (n : String) (fs : List SField) (is : List String) (es : List SDef) :
    es.foldl extend1 (.object n fs is) = .object n (fs ++ extObjFields n es) (is ++ extObjIfaces n es) := by
  induction es generalizing fs is with
  | nil => simp [extObjFields, extObjIfaces]
  | cons e es ih =>
    cases e with
    | object n' fs' is' =>
      by_cases hn : (n == n') = true
      · simp only [List.foldl, extend1, hn, if_true, ih, extObjFields, extObjIfaces, List.append_assoc]
      · simp only [List.foldl, extend1, hn, extObjFields, extObjIfaces]
        simp only [Bool.false_eq_true, if_false, List.nil_append]
        exact ih fs is
    | _ => simp only [List.foldl, extend1, ih, extObjFields, extObjIfaces]

/-- `__type(name:)` agrees with the entry in `__schema.types` and is null for unknown names -/
theorem type_agrees_with_schema_types (M : SModel) (n : String) :
    describeNamed M n = ((allTypes M).find? (fun d => d.name == n)).map (describeType M) := rfl

theorem unknown_type_null (M : SModel) (n : String) (h : ∀ d ∈ allTypes M, d.name ≠ n) : describeNamed M n = none := by
  simp only [describeNamed, findDef, Option.map_eq_none_iff, List.find?_eq_none]
  intro d hd; simpa using h d hd

/-- `includeDeprecated: false` keeps exactly the non-deprecated members, in order -/
theorem deprecation_filter (fs : List FieldDesc) (f : FieldDesc) :
    f ∈ withoutDeprecated fs ↔ f ∈ fs ∧ f.isDeprecated = false := by
  simp [withoutDeprecated, List.mem_filter]

/-- deprecation flags and reasons are those of `@deprecated`; `@nonIntrospectable` fields are not reported -/
theorem reported_fields_are_visible_declared (fs : List SField) (fd : FieldDesc) (h : fd ∈ visibleFields fs) :
    ∃ f ∈ fs, f.hidden = false ∧ fd.name = f.name ∧ fd.type = f.type ∧ fd.args = f.args ∧
      fd.isDeprecated = f.deprecated.isSome ∧ fd.reason = f.deprecated := by
  simp only [visibleFields, List.mem_map, List.mem_filter] at h
  obtain ⟨f, ⟨hf, hv⟩, rfl⟩ := h
  exact ⟨f, hf, by simpa using hv, rfl, rfl, rfl, rfl, rfl⟩

theorem visible_declared_field_reported (fs : List SField) (f : SField) (hf : f ∈ fs) (hv : f.hidden = false) :
    ∃ fd ∈ visibleFields fs, fd.name = f.name := by
  refine ⟨⟨f.name, f.args, f.type, f.deprecated.isSome, f.deprecated⟩, ?_, rfl⟩
  simp only [visibleFields, List.mem_map, List.mem_filter]
  exact ⟨f, ⟨hf, by simp [hv]⟩, rfl⟩

/-- the possible types of an interface are exactly the objects that implement it — directly or
    through an `extend type … implements` -/
theorem interface_possible_types (M : SModel) (i o : String) :
    o ∈ implementers M i ↔ ∃ fs is, SDef.object o fs is ∈ merged M ∧ i ∈ is := by
  simp only [implementers, List.mem_filterMap]
  constructor
  · rintro ⟨d, hd, h⟩
    cases d <;> simp at h
    rename_i n fs is
    obtain ⟨hc, rfl⟩ := h
    exact ⟨fs, is, hd, hc⟩
  · rintro ⟨fs, is, hd, hi⟩
    exact ⟨_, hd, by simp [hi]⟩

/-- non-vacuity: an object extended twice, one extension adding an interface -/
def M0 : SModel := ⟨[.interface "I" [⟨"x", [], .named "Int", none, false⟩], .object "T" [⟨"x", [], .named "Int", none, false⟩] [],
                     .object "Query" [⟨"t", [], .named "T", some "old", false⟩] []],
                    [.object "T" [⟨"w", [], .named "Float", none, false⟩] ["I"], .object "T" [⟨"h", [], .named "Int", none, true⟩] []],
                    [], "Query", none, none⟩
example : implementers M0 "I" = ["T"] := by decide
example : ((describeNamed M0 "T").bind (·.fields)).map (·.map (·.name)) = some ["x", "w"] := by decide

end Tart.C11
