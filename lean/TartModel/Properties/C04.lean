import TartModel.Proofs.InputLemmas
import TartModel.Impl.Exec
/-
  C04 — variable values are coerced exactly as the specification prescribes.
  Theorems about Impl/Input.lean `coerceVariable(s)` / `coerceInput` (leaves: scalar code generated
  from the repository) and about the refusal path of `executeRequest`, for every schema, variable
  definitions, raw JSON variables object and fuel.
-/
namespace Tart.C04
open Tart Tart.Spec

/-- Whatever value a variable ends up with (provided value or default), it is a coerced value of
    the declared variable type: lists at every list level, input objects with only declared
    fields, leaves by the scalar/enum input rules.  (`NoUndef` excludes the marker an invalid
    *schema* default of an input field would leave behind.) -/
theorem variable_value_typed (fuel : Nat) (S : Schema) (o : Oracle) (vd : VarDef) (raw : List (String × PyVal))
    (v : PyVal) (h : coerceVariable fuel S o vd raw = .value v) (hu : NoUndef v) : HasType S vd.type v := by
  unfold coerceVariable at h
  cases hl : lookupKV vd.name raw with
  | none =>
    simp only [hl] at h
    cases hd : vd.default with
    | some d =>
      simp only [hd] at h
      cases hlit : coerceLiteral fuel S o none false vd.type d with
      | none => simp [hlit] at h
      | some dv =>
        simp [hlit] at h; subst h
        exact (coerceLiteral_const_typed fuel S o false vd.type d dv hlit).1
    | none =>
      simp only [hd] at h
      by_cases hnn : vd.type.isNonNull = true <;> simp [hnn] at h
  | some x =>
    simp only [hl] at h
    by_cases h1 : (isNone x && vd.type.isNonNull) = true
    · simp [h1] at h
    · simp only [h1] at h
      by_cases he : (coerceInput fuel S o vd.type x).errors.isEmpty = true
      · simp [he] at h; subst h
        exact (coerceInput_typed fuel S o vd.type x (by simpa using he) hu).1
      · simp [he] at h

/-- A non-null variable that is missing (and has no default) or explicitly null is refused. -/
theorem nonnull_missing_or_null_refused (fuel : Nat) (S : Schema) (o : Oracle) (vd : VarDef) (raw : List (String × PyVal))
    (hnn : vd.type.isNonNull = true)
    (h : (lookupKV vd.name raw = none ∧ vd.default = none) ∨ lookupKV vd.name raw = some .none) :
    ∃ es, coerceVariable fuel S o vd raw = .errors es ∧ es ≠ [] := by
  unfold coerceVariable
  rcases h with ⟨h1, h2⟩ | h1
  · simp [h1, h2, hnn]
  · simp [h1, hnn, isNone]

/-- An omitted variable without default stays absent (it is not turned into null). -/
theorem omitted_stays_absent (fuel : Nat) (S : Schema) (o : Oracle) (vd : VarDef) (raw : List (String × PyVal))
    (h1 : lookupKV vd.name raw = none) (h2 : vd.default = none) (hnn : vd.type.isNonNull = false) :
    coerceVariable fuel S o vd raw = .absent := by
  unfold coerceVariable
  simp [h1, h2, hnn]

/-- Explicit null is kept, distinct from absent, and the default is NOT applied to it. -/
theorem explicit_null_kept (fuel : Nat) (S : Schema) (o : Oracle) (vd : VarDef) (raw : List (String × PyVal))
    (h1 : lookupKV vd.name raw = some .none) (hnn : vd.type.isNonNull = false) :
    coerceVariable (fuel + 1) S o vd raw = .value .none := by
  unfold coerceVariable
  cases hty : vd.type with
  | nonNull t => simp [hty, TypeRef.isNonNull] at hnn
  | list t => simp [h1, TypeRef.isNonNull, coerceInput, CoRes.ok]
  | named tn => simp [h1, TypeRef.isNonNull, coerceInput, CoRes.ok]

/-- A provided value is coerced on its own: the default plays no role. -/
theorem provided_value_ignores_default (fuel : Nat) (S : Schema) (o : Oracle) (vd : VarDef) (raw : List (String × PyVal))
    (x : PyVal) (h1 : lookupKV vd.name raw = some x) (d : Option Value) :
    coerceVariable fuel S o { vd with default := d } raw = coerceVariable fuel S o vd raw := by
  unfold coerceVariable
  simp [h1]

/-- Only declared names are looked up: two variable objects that agree on the declared names give
    the same result (extra, undeclared variables are ignored). -/
theorem undeclared_variables_ignored (fuel : Nat) (S : Schema) (o : Oracle) (vds : List VarDef)
    (raw raw' : List (String × PyVal)) (h : ∀ vd ∈ vds, lookupKV vd.name raw = lookupKV vd.name raw') :
    coerceVariables fuel S o vds raw = coerceVariables fuel S o vds raw' := by
  unfold coerceVariables
  have : ∀ vd ∈ vds, coerceVariable fuel S o vd raw = coerceVariable fuel S o vd raw' := by
    intro vd hvd; unfold coerceVariable; rw [h vd hvd]
  generalize (([], []) : Vars × List (String × String × Loc)) = acc
  induction vds generalizing acc with
  | nil => rfl
  | cons vd rest ih =>
    simp only [List.foldl]
    rw [this vd (List.mem_cons_self ..)]
    exact ih (fun x hx => h x (List.mem_cons_of_mem _ hx)) (fun x hx => this x (List.mem_cons_of_mem _ hx)) _

/-- When variable coercion reports an error the request is refused before anything runs:
    `data` is null, no resolver is called, and there is one error entry per reported offence. -/
theorem refused_before_resolvers (fuel : Nat) (S : Schema) (o : Oracle) (env : Env) (doc : Document)
    (opName : Option String) (rawVars : List (String × PyVal)) (root : PyVal) (op : Operation)
    (hsel : selectOperation doc opName = some op)
    (hbad : (coerceVariables fuel S o op.varDefs rawVars).2 ≠ []) :
    (executeRequest fuel S o env doc opName rawVars root).data = .none ∧
    (executeRequest fuel S o env doc opName rawVars root).calls = [] ∧
    (executeRequest fuel S o env doc opName rawVars root).errors.length = (coerceVariables fuel S o op.varDefs rawVars).2.length := by
  unfold executeRequest
  simp only [hsel]
  cases hcv : coerceVariables fuel S o op.varDefs rawVars with
  | mk vars verrs =>
    rw [hcv] at hbad
    have : (!verrs.isEmpty) = true := by cases verrs <;> simp_all
    simp [this]

/-- non-vacuity -/
def S0 : Schema := { types := [.scalar "Int", .input "In" [⟨"x", .nonNull (.named "Int"), none⟩, ⟨"y", .named "Int", some (.int "7")⟩]], queryType := "Query", mutationType := none, subscriptionType := none }
def o0 : Oracle := ⟨fun _ => none⟩
example : coerceVariable 9 S0 o0 ⟨"v", .list (.named "In"), none, ⟨1, 1⟩, ⟨0, 0⟩⟩ [("v", .dict [("x", .int 1)])]
    = .value (.list [.dict [("x", .int 1), ("y", .int 7)]]) := by rfl
example : (match coerceVariable 9 S0 o0 ⟨"v", .named "In", none, ⟨1, 1⟩, ⟨0, 0⟩⟩ [("v", .dict [("z", .int 1)])] with
    | .errors es => es.length | _ => 0) = 2 := by rfl

end Tart.C04
