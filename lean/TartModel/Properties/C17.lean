import TartModel.Impl.Cache
/-
  C17 — engines registered under different schema names are independent.
  The registry is a map from schema name to what was registered under it; `cook name` reads only
  `lookup name`.  Theorems hold for every item type and every history of registrations.
  Modelled, not verified: Python's import caching of user modules passed via `modules=`.
-/
namespace Tart.C17
open Tart.Cache

variable {Item : Type}

/-- registering under one name leaves every other name's bundle untouched -/
theorem register_frame (r : Registry Item) (a b : String) (it : Item) (h : b ≠ a) :
    (r.register a it) b = r b := by
  simp [Registry.register, h]

/-- after ANY interleaved history of registrations, what name `b` holds is exactly what it holds
    after its own registrations alone, in their own order (from the same starting point for `b`) -/
theorem replay_projection (b : String) : ∀ (ops : List (String × Item)) (r r' : Registry Item), r b = r' b →
    (r.replay ops) b = (r'.replay (ops.filter (fun op => op.1 = b))) b
  | [], r, r', h => by simpa [Registry.replay] using h
  | (n, it) :: ops, r, r', h => by
    by_cases hn : n = b
    · subst hn
      simp only [Registry.replay, List.filter_cons, decide_true, if_true]
      apply replay_projection n ops
      simp [Registry.register, h]
    · simp only [Registry.replay, List.filter_cons, hn, decide_false]
      apply replay_projection b ops
      simp [Registry.register, Ne.symm hn, h]

/-- hence an engine cooked for `b` in a process where other names were registered and cooked in any
    order sees the same registrations as the same engine built alone in a fresh process -/
theorem cook_independent_of_others (cook : Bundle Item → α) (b : String) (ops : List (String × Item)) :
    cook ((Registry.empty.replay ops) b) = cook ((Registry.empty.replay (ops.filter (fun op => op.1 = b))) b) := by
  rw [replay_projection b ops Registry.empty Registry.empty rfl]

/-- non-vacuity -/
example : ((Registry.empty (Item := Nat)).replay [("a", 1), ("b", 2), ("a", 3)]) "a" = { items := [1, 3] } := by
  simp [Registry.replay, Registry.register, Registry.empty]

end Tart.C17
