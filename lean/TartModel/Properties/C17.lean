import TartModel.Impl.Cache
/-
  C17 — engines registered under different schema names are independent.
  The registry is a map from schema name to what was registered under it; `cook name` reads only
  `lookup name`.  Theorems hold for every item type and every history of registrations.
  Modelled, not verified: Python's import caching of user modules passed via `modules=`.
-/
namespace Tart.C17
open Tart.Cache

variable {Item : Type}

/-- registering under one name leaves every other name's bundle untouched -/
theorem register_frame (r : Registry Item) (a b : String) (it : Item) (h : b ≠ a) :
    (r.register a it) b = r b := by
  simp [Registry.register, h]

/-- after ANY interleaved history of registrations, what name `b` holds is exactly what it holds
    after its own registrations alone, in their own order (from the same starting point for `b`) -/
theorem replay_projection (b : String) : ∀ (ops : List (String × Item)) (r r' : Registry Item), r b = r' b →
    (r.replay ops) b = (r'.replay (ops.filter (fun op => op.1 = b))) b
  | [], r, r', h => by simpa [Registry.replay] using h
  | (n, it) :: ops, r, r', h => by
    by_cases hn : n = b
    · subst hn
      simp only [Registry.replay, List.filter_cons, decide_true, if_true]
      apply replay_projection n ops
      simp [Registry.register, h]
    · simp only [Registry.replay, List.filter_cons, hn, decide_false]
      apply replay_projection b ops
      simp [Registry.register, Ne.symm hn, h]

/-- hence an engine cooked for `b` in a process where other names were registered and cooked in any
    order sees the same registrations as the same engine built alone in a fresh process -/
theorem cook_independent_of_others (cook : Bundle Item → α) (b : String) (ops : List (String × Item)) :
    cook ((Registry.empty.replay ops) b) = cook ((Registry.empty.replay (ops.filter (fun op => op.1 = b))) b) := by
  rw [replay_projection b ops Registry.empty Registry.empty rfl]

/-- non-vacuity -/
example : ((Registry.empty (Item := Nat)).replay [("a", 1), ("b", 2), ("a", 3)]) "a" = { items := [1, 3] } := by
  simp [Registry.replay, Registry.register, Registry.empty]

/-! ### implementations registered as a class (definitions: Impl/Cache.lean `Given`, `Stored`, `storeAll`) -/

theorem storeAll_getElem (ops : List (String × Given)) (k i : Nat) :
    (storeAll k ops)[i]? = (ops[i]?).map (fun p => (p.1, store (k + i) p.2)) := by
  induction ops generalizing k i with
  | nil => simp [storeAll]
  | cons op ops ih =>
    obtain ⟨n, g⟩ := op
    cases i with
    | zero => simp [storeAll]
    | succ j =>
      simp only [storeAll, List.getElem?_cons_succ, ih]
      cases ops[j]? with
      | none => rfl
      | some y =>
        have : k + 1 + j = k + (j + 1) := by omega
        simp [this]

/-- one class handed over by two different registrations — under two schema names, or twice under one — never ends
    up as ONE shared object: the two stored implementations differ (so their state does) -/
theorem class_registrations_get_own_instances (ops : List (String × Given)) (i j : Nat) (hij : i ≠ j)
    (ni nj : String) (c : Nat) (hi : ops[i]? = some (ni, .cls c)) (hj : ops[j]? = some (nj, .cls c))
    (si sj : String × Stored) (h1 : (storeAll 0 ops)[i]? = some si) (h2 : (storeAll 0 ops)[j]? = some sj) :
    si.2 ≠ sj.2 := by
  rw [storeAll_getElem, hi] at h1
  rw [storeAll_getElem, hj] at h2
  simp at h1 h2
  subst h1; subst h2
  simp [store]; omega

/-- … and each name's engine sees, after any interleaved history, exactly its own stored objects in its own order -/
theorem stored_projection (b : String) (ops : List (String × Given)) :
    ((Registry.empty.replay (storeAll 0 ops)) b)
      = ((Registry.empty.replay ((storeAll 0 ops).filter (fun op => op.1 = b))) b) :=
  replay_projection b (storeAll 0 ops) Registry.empty Registry.empty rfl

/-- non-vacuity: one class under two names -/
example : storeAll 0 [("a", .cls 7), ("b", .cls 7), ("a", .inst 1)]
    = [("a", .fresh 0 7), ("b", .fresh 1 7), ("a", .given 1)] := by decide

end Tart.C17
