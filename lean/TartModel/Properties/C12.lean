import TartModel.Spec.TypeSystem
/-
  C12 — an engine is never built from an SDL that breaks a checked schema rule.
  `Spec.TS.violations` is the executable specification of the rules the property lists; the
  correspondence check rewrites valid SDL-level models with a catalogue of rule-breaking edits at
  every kind of site (inside an extension, behind list / non-null wrappers, on an interface, in a
  directive definition), classifies each by this specification and requires `create_engine` to
  raise.  The engine's own validators are NOT modelled: the theorems below pin the specification
  to the property's wording, rule by rule.  PARTIAL: "syntactically invalid" SDL is lark's job —
  covered by the correspondence (mutated SDL text must raise) only.
-/
namespace Tart.C12
open Tart Tart.Spec.I Tart.Spec.TS

macro "find_rule" : tactic => `(tactic| (simp only [rules]; repeat (first | exact List.Mem.head _ | apply List.Mem.tail)))

theorem broken_of_mem (rs : List (String × Bool)) (tag : String) (h : (tag, false) ∈ rs) : tag ∈ broken rs := by
  unfold broken; exact List.mem_filterMap.mpr ⟨(tag, false), h, by simp⟩

theorem rule_listed (M : SModel) (impl : List String) (tag : String) (ok : Bool) (h : (tag, ok) ∈ rules M impl) (hb : ok = false) :
    tag ∈ violations M impl := by subst hb; exact broken_of_mem _ _ h

/-- every rule the property lists, as the specification states it: breaking it puts its tag in `violations` -/
theorem rules_refuse (M : SModel) (impl : List String) :
    (nodup (M.defs.map (·.name)) = false → "duplicate-type-definition" ∈ violations M impl) ∧
    (nodup (M.directives.map (·.name) ++ ["deprecated", "nonIntrospectable", "skip", "include"]) = false → "duplicate-directive-definition" ∈ violations M impl) ∧
    ((referencedTypes M).all (isDefined M) = false → "undefined-type" ∈ violations M impl) ∧
    (kindOf M M.query ≠ some "OBJECT" → "missing-query-root" ∈ violations M impl) ∧
    ((∃ n, M.mutation = some n ∧ isDefined M n = false) → "undefined-root" ∈ violations M impl) ∧
    ((∃ n, M.subscription = some n ∧ isDefined M n = false) → "undefined-root" ∈ violations M impl) ∧
    ((∃ n is, SDef.object n [] is ∈ merged M) → "object-without-fields" ∈ violations M impl) ∧
    ((∃ n ms, SDef.union n ms ∈ merged M ∧ n ∈ ms) → "union-containing-itself" ∈ violations M impl) ∧
    ((∃ n vs, SDef.enum n vs ∈ merged M ∧ nodup (vs.map (·.name)) = false) → "duplicate-enum-value" ∈ violations M impl) ∧
    ((∃ e ∈ M.exts, M.defs.find? (fun d => d.name == e.name) = none) → "invalid-extension" ∈ violations M impl) ∧
    ((∃ e ∈ M.exts, ∃ d, M.defs.find? (fun d => d.name == e.name) = some d ∧ d.kind ≠ e.kind) → "invalid-extension" ∈ violations M impl) ∧
    (extensionMembersFresh M = false → "extension-duplicate-member" ∈ violations M impl) ∧
    ((∃ n, SDef.scalar n ∈ M.defs ∧ n ∉ impl ∧ n ∉ builtinScalarNames) → "scalar-without-implementation" ∈ violations M impl) := by
  refine ⟨?_, ?_, ?_, ?_, ?_, ?_, ?_, ?_, ?_, ?_, ?_, ?_, ?_⟩
  · intro h; exact rule_listed M impl _ _ (by find_rule) h
  · intro h; exact rule_listed M impl _ _ (by find_rule) h
  · intro h; exact rule_listed M impl _ _ (by find_rule) h
  · intro h; exact rule_listed M impl "missing-query-root" (kindOf M M.query == some "OBJECT") (by find_rule) (by simpa using h)
  · rintro ⟨n, hm, hn⟩
    refine rule_listed M impl "undefined-root" _ (by find_rule) ?_
    simp [hm, hn]
  · rintro ⟨n, hm, hn⟩
    refine rule_listed M impl "undefined-root" _ (by find_rule) ?_
    simp [hm, hn]
  · rintro ⟨n, is, hmem⟩
    refine rule_listed M impl "object-without-fields" _ (by find_rule) ?_
    rw [List.all_eq_false]; exact ⟨_, hmem, by simp⟩
  · rintro ⟨n, ms, hmem, hin⟩
    refine rule_listed M impl "union-containing-itself" _ (by find_rule) ?_
    rw [List.all_eq_false]; exact ⟨_, hmem, by simp [hin]⟩
  · rintro ⟨n, vs, hmem, hd⟩
    refine rule_listed M impl "duplicate-enum-value" _ (by find_rule) ?_
    rw [List.all_eq_false]; exact ⟨_, hmem, by simp [hd]⟩
  · rintro ⟨e, he, hnone⟩
    refine rule_listed M impl "invalid-extension" _ (by find_rule) ?_
    rw [List.all_eq_false]; exact ⟨e, he, by simp [hnone]⟩
  · rintro ⟨e, he, d, hsome, hk⟩
    refine rule_listed M impl "invalid-extension" _ (by find_rule) ?_
    rw [List.all_eq_false]; exact ⟨e, he, by simp [hsome, hk]⟩
  · intro h; exact rule_listed M impl _ _ (by find_rule) h
  · rintro ⟨n, hmem, hi, hb⟩
    refine rule_listed M impl "scalar-without-implementation" _ (by find_rule) ?_
    rw [List.all_eq_false]; exact ⟨_, hmem, by simp [hi, hb]⟩

/-- interface conformance, clause by clause: an implementing object lacking the field, or whose field
    does not conform, makes the model refused -/
theorem interface_not_honoured (M : SModel) (impl : List String) (o : String) (fs : List SField) (is : List String)
    (i : String) (ifs : List SField) (ifd : SField)
    (ho : SDef.object o fs is ∈ merged M) (hi : i ∈ is)
    (hfind : (merged M).find? (fun x => x.name == i) = some (.interface i ifs)) (hif : ifd ∈ ifs)
    (hbad : fs.find? (fun f => f.name == ifd.name) = none ∨
            ∃ ofd, fs.find? (fun f => f.name == ifd.name) = some ofd ∧ fieldConforms M (merged M) ifd ofd = false) :
    "interface-not-honoured" ∈ violations M impl := by
  refine rule_listed M impl "interface-not-honoured" _ (by find_rule) ?_
  rw [List.all_eq_false]
  refine ⟨_, ho, ?_⟩
  simp only [Bool.not_eq_true]
  rw [List.all_eq_false]
  refine ⟨i, hi, ?_⟩
  rw [hfind]
  simp only [Bool.not_eq_true]
  rw [List.all_eq_false]
  refine ⟨ifd, hif, ?_⟩
  rcases hbad with h | ⟨ofd, h, hc⟩
  · simp [h]
  · simp [h, hc]

/-- the four ways a field fails to conform -/
theorem fieldConforms_clauses (M : SModel) (mg : List SDef) (ifd ofd : SField) :
    (isSubType M mg ofd.type ifd.type = false → fieldConforms M mg ifd ofd = false) ∧
    ((∃ ia ∈ ifd.args, ∀ oa ∈ ofd.args, oa.name ≠ ia.name) → fieldConforms M mg ifd ofd = false) ∧
    ((∃ ia ∈ ifd.args, ∀ oa ∈ ofd.args, oa.name = ia.name → oa.type ≠ ia.type) → fieldConforms M mg ifd ofd = false) ∧
    ((∃ oa ∈ ofd.args, (∀ ia ∈ ifd.args, ia.name ≠ oa.name) ∧ oa.type.isNonNull = true ∧ oa.default = none) → fieldConforms M mg ifd ofd = false) := by
  refine ⟨?_, ?_, ?_, ?_⟩
  · intro h; simp [fieldConforms, h]
  · rintro ⟨ia, hia, hno⟩
    have : (ifd.args.all fun ia => ofd.args.any fun oa => oa.name == ia.name && oa.type == ia.type) = false := by
      rw [List.all_eq_false]; refine ⟨ia, hia, ?_⟩
      simp only [Bool.not_eq_true]; rw [List.any_eq_false]; intro oa hoa; simp [hno oa hoa]
    simp [fieldConforms, this]
  · rintro ⟨ia, hia, hno⟩
    have : (ifd.args.all fun ia => ofd.args.any fun oa => oa.name == ia.name && oa.type == ia.type) = false := by
      rw [List.all_eq_false]; refine ⟨ia, hia, ?_⟩
      simp only [Bool.not_eq_true]; rw [List.any_eq_false]; intro oa hoa
      by_cases hn : oa.name = ia.name
      · simp [hn, hno oa hoa hn]
      · simp [hn]
    simp [fieldConforms, this]
  · rintro ⟨oa, hoa, hno, hnn, hd⟩
    have : (ofd.args.all fun oa => ifd.args.any (fun ia => ia.name == oa.name) || !(oa.type.isNonNull && oa.default.isNone)) = false := by
      rw [List.all_eq_false]; refine ⟨oa, hoa, ?_⟩
      have : ifd.args.any (fun ia => ia.name == oa.name) = false := by rw [List.any_eq_false]; intro ia hia; simp [hno ia hia]
      simp [this, hnn, hd]
    unfold fieldConforms; rw [this]; simp

/-- a field, argument or input field naming an undefined type — in a definition or in an extension,
    behind any list / non-null wrapping — is such a reference -/
theorem undefined_field_type_is_referenced (M : SModel) (d : SDef) (hd : d ∈ M.defs ++ M.exts) (f : SField)
    (hf : f ∈ allFieldsOf d) : f.type.baseName ∈ referencedTypes M := by
  unfold referencedTypes
  refine List.mem_append_left _ (List.mem_flatMap.mpr ⟨d, hd, List.mem_append_left _ (List.mem_flatMap.mpr ⟨f, hf, List.mem_cons_self ..⟩)⟩)

theorem undefined_argument_type_is_referenced (M : SModel) (d : SDef) (hd : d ∈ M.defs ++ M.exts) (f : SField)
    (hf : f ∈ allFieldsOf d) (a : ArgDef) (ha : a ∈ f.args) : a.type.baseName ∈ referencedTypes M := by
  unfold referencedTypes
  refine List.mem_append_left _ (List.mem_flatMap.mpr ⟨d, hd, List.mem_append_left _ (List.mem_flatMap.mpr ⟨f, hf, List.mem_cons_of_mem _ (List.mem_map.mpr ⟨a, ha, rfl⟩)⟩)⟩)

theorem undefined_input_field_type_is_referenced (M : SModel) (d : SDef) (hd : d ∈ M.defs ++ M.exts) (a : ArgDef)
    (ha : a ∈ inputFieldsOf d) : a.type.baseName ∈ referencedTypes M := by
  unfold referencedTypes
  refine List.mem_append_left _ (List.mem_flatMap.mpr ⟨d, hd, List.mem_append_right _ (List.mem_map.mpr ⟨a, ha, rfl⟩)⟩)

/-- the base name survives list / non-null wrappers: a violation behind wrappers is still seen -/
theorem baseName_through_wrappers (t : TypeRef) : (TypeRef.list (.nonNull t)).baseName = t.baseName ∧ (TypeRef.nonNull (.list t)).baseName = t.baseName := ⟨rfl, rfl⟩

/-- an accepted model breaks none of the listed rules -/
theorem accepted_model_properties (M : SModel) (impl : List String) (h : violations M impl = []) :
    ∀ r ∈ rules M impl, r.2 = true := by
  intro r hr
  cases hb : r.2 with
  | true => rfl
  | false =>
    have : r.1 ∈ violations M impl := broken_of_mem _ _ (by rw [← hb]; exact hr)
    rw [h] at this; cases this

/-- non-vacuity: a small valid model and broken variants -/
def Mok : SModel := ⟨[.interface "I" [⟨"x", [⟨"a", .named "Int", none⟩], .named "Int", none, false⟩],
                      .object "T" [⟨"x", [⟨"a", .named "Int", none⟩], .named "Int", none, false⟩] ["I"],
                      .enum "E" [⟨"A", none⟩],
                      .object "Query" [⟨"t", [], .list (.nonNull (.named "T")), none, false⟩] []], [], [], "Query", none, none⟩
example : violations Mok [] = [] := by decide
example : violations { Mok with exts := [.object "Nope" [⟨"y", [], .named "Int", none, false⟩] []] } [] = ["invalid-extension"] := by decide
example : violations { Mok with exts := [.object "T" [⟨"y", [], .list (.named "Ghost"), none, false⟩] []] } [] = ["undefined-type"] := by decide
example : violations { Mok with exts := [.object "T" [⟨"x", [], .named "Int", none, false⟩] []] } [] = ["extension-duplicate-member"] := by decide
example : violations { Mok with exts := [.enum "E" [⟨"A", none⟩]] } [] = ["duplicate-enum-value", "extension-duplicate-member"] := by decide
example : violations { Mok with defs := Mok.defs ++ [.object "T2" [⟨"z", [], .named "Int", none, false⟩] ["I"]] } [] = ["interface-not-honoured"] := by decide
example : violations { Mok with mutation := some "Ghost" } [] = ["undefined-root"] := by decide

end Tart.C12
