import TartModel.Spec.Validation
/-
  C06 — valid documents are never refused by validation.
  `Spec.V.violations .spec` is the executable specification of the supported rules; `.engine` is the
  engine's verdict as modelled (the specification with the four recorded deviations), tied to the
  real engine by the correspondence check (refusal ⇔ modelled refusal, on valid-by-construction
  documents and on the violation catalogue).  PARTIAL on the unchanged code: KF-C06-2
  (`single-root-field` counts selections instead of response keys) — the theorem carries that
  hypothesis explicitly, and `repeated_subscription_root_witness` is the machine-checked
  counter-example to the full statement.
-/
namespace Tart.C06
open Tart Tart.Spec.V

theorem chk_nil (tag : String) (ok : Bool) : chk tag ok = [] ↔ ok = true := by
  cases ok <;> simp [chk]

theorem varUses_var (n : Nat) (S : Schema) (ty : TypeRef) (hd : Bool) (x : String) :
    varUses (n + 1) S ty hd (.var x) = [(x, ty, hd)] := by simp [varUses]

/-- A document valid per the specification is accepted by the engine as modelled, unless it is a
    subscription whose single response key is selected more than once (KF-C06-2).  (`husage`: the
    engine's top-level-only usage check never refuses what the full check accepts — top-level
    uses are a subset of all uses; kept as an explicit premise, discharged by evaluation on every
    generated document.) -/
theorem valid_accepted_partial (fuel : Nat) (S : Schema) (d : Document)
    (hvalid : valid fuel S d = true)
    (hkf : ruleSingleRootField .engine fuel d = true)
    (husage : ruleVariableUsagesAllowed .spec fuel S d = true → ruleVariableUsagesAllowed .engine fuel S d = true) :
    engineAccepts fuel S d = true := by
  unfold valid at hvalid
  unfold engineAccepts
  simp only [List.isEmpty_iff, violations, List.append_eq_nil_iff] at hvalid ⊢
  refine ⟨hvalid.1, ?_⟩
  have hm := hvalid.2
  simp only [modeViolations, List.append_eq_nil_iff, chk_nil] at hm ⊢
  obtain ⟨⟨⟨_, h4⟩, h17⟩, h25⟩ := hm
  refine ⟨⟨⟨hkf, ?_⟩, ?_⟩, husage h25⟩
  · -- fields-exist: the engine is only more permissive
    simp only [ruleFieldsExist, List.all_eq_true] at h4 ⊢
    intro v hv
    have := h4 v hv
    cases v with
    | field parent name fd args dirs hasSub => cases parent <;> cases fd <;> simp_all [Mode.spec]
    | _ => simp
  · -- fragment-spread-is-possible: the engine is only more permissive
    simp only [ruleSpreadPossible, List.all_eq_true] at h17 ⊢
    intro v hv
    have := h17 v hv
    cases v with
    | inline parent tc dirs => cases parent <;> cases tc <;> simp_all [Mode.spec, Mode.engine]
    | spread parent n dirs => cases parent <;> simpa using this
    | field => simp

/-- whatever the specification refuses although the engine (as modelled) accepts is refused for
    one of the three recorded reasons only: every other rule has the same verdict in both -/
theorem spec_only_refusals_are_the_recorded_ones (fuel : Nat) (S : Schema) (d : Document)
    (heng : engineAccepts fuel S d = true) (t : String) (ht : t ∈ violations .spec fuel S d) :
    t = "field-selections-on-objects-interfaces-and-unions-types" ∨ t = "fragment-spread-is-possible" ∨
    t = "all-variable-usages-are-allowed" ∨ t = "single-root-field" := by
  unfold engineAccepts at heng
  simp only [List.isEmpty_iff, violations, List.append_eq_nil_iff] at heng
  simp only [violations, heng.1, List.nil_append, modeViolations, List.mem_append] at ht
  rcases ht with ((h | h) | h) | h <;> (simp only [chk] at h; split at h <;> simp at h; simp [h])

/-- KF-C06-2, machine-checked: `subscription { s s }` is valid per the specification (one response
    key) and refused by the engine's single-root-field variant. -/
def Sw : Schema := { types := [.scalar "Int", .object "Query" [⟨"a", .named "Int", [], true, true⟩] [],
                               .object "Subscription" [⟨"s", .named "Int", [], true, true⟩] []],
                     queryType := "Query", mutationType := none, subscriptionType := some "Subscription" }
def dw : Document := ⟨[⟨.subscription, none, [], [], [.field none "s" [] [] ⟨1, 16⟩ [], .field none "s" [] [] ⟨1, 18⟩ []]⟩], []⟩
theorem repeated_subscription_root_witness :
    valid 20 Sw dw = true ∧ engineAccepts 20 Sw dw = false := by decide +kernel

/-- non-vacuity: a document with a fragment diamond, a fragment defined after use and a variable
    used only inside a fragment is valid -/
def Sq : Schema := { types := [.scalar "Int", .scalar "Boolean", .object "T" [⟨"x", .named "Int", [⟨"a", .named "Int", none⟩], true, true⟩, ⟨"t", .named "T", [], true, true⟩] [],
                               .object "Query" [⟨"t", .named "T", [], true, true⟩] []],
                     queryType := "Query", mutationType := none, subscriptionType := none }
def dq : Document :=
  ⟨[⟨.query, some "Q", [⟨"v", .named "Int", none, ⟨1, 9⟩, ⟨0, 0⟩⟩], [], [.field none "t" [] [] ⟨1, 20⟩ [.spread "A" [], .spread "A" []]]⟩],
   [⟨"A", "T", [], [.spread "B" [], .spread "C" []]⟩, ⟨"B", "T", [], [.spread "D" []]⟩, ⟨"C", "T", [], [.spread "D" []]⟩,
    ⟨"D", "T", [], [.field none "x" [⟨"a", .var "v", ⟨9, 9⟩⟩] [] ⟨9, 1⟩ [], .field none "__typename" [] [] ⟨9, 5⟩ []]⟩]⟩
example : valid 50 Sq dq = true := by decide +kernel

end Tart.C06
