import TartModel.Proofs.TTreeLemmas
import TartModel.Proofs.CollectLemmas
import TartModel.Impl.ExecT
/-
  C09 — mutation root fields run serially, in document order.
  The mutation root is built with `seqT` (await one field, sub-selection included, then build the
  next): theorems over Impl/TTree.lean for every schedule, and over `serialSt` / `executeFields`
  (Impl/Exec.lean) for what a failing root field does.
-/
namespace Tart.C09
open Tart

/-- While root field `t` (with its whole sub-selection) is in flight, nothing of the following
    root fields is awaited: whatever the schedule, the only resolvers that can complete belong to `t`. -/
theorem next_root_not_started (ans : Answers) (t : TTree) (k : Out → TTree) (g : Gate) (log : List GErr)
    (s' : TTree × List GErr) (h : Fires ans g (seqT t k, log) s') : g ∈ pending t := by
  have := (fires_spec ans g h).2
  simpa [pending_seqT] using this

/-- The following root field is only built from the result of the previous one, i.e. after the
    previous one has completed: the serial composition denotes "first `t`, then `k`". -/
theorem serial_denotation (ans : Answers) (t : TTree) (k : Out → TTree) :
    denote ans (seqT t k) = ((denote ans (k (denote ans t).1)).1, (denote ans t).2 ++ (denote ans (k (denote ans t).1)).2) :=
  denote_seqT ans t k

/-- A failing NULLABLE root field (its failure is swallowed: value null) does not prevent the
    following ones from running. -/
theorem nullable_failure_continues (f : FieldJob → St → (String × Res) × St) (d : FieldJob) (ds : List FieldJob)
    (st s1 : St) (k : String) (v : PyVal) (h : f d st = ((k, .ok v), s1)) :
    serialSt f (d :: ds) st =
      (match serialSt f ds s1 with
       | (.error es, s2) => (.error es, s2)
       | (.ok kvs, s2) => (.ok ((k, v) :: kvs), s2)) := by
  simp only [serialSt, h]
  cases hs : serialSt f ds s1 with
  | mk r s2 => cases r <;> rfl

/-- A failing NON-NULL root field raises: `data` is nulled and the later root fields are not started. -/
theorem nonnull_failure_aborts (f : FieldJob → St → (String × Res) × St) (d : FieldJob) (ds : List FieldJob)
    (st s1 : St) (k : String) (es : List GErr) (h : f d st = ((k, .error es), s1)) :
    serialSt f (d :: ds) st = (.error es, s1) := by
  simp [serialSt, h]

/-- The response lists the root fields in document (collection) order. -/
theorem roots_in_document_order (n : Nat) (ctx : Ctx) (tn : String) (parent : PyVal) (coll : Collected) (st : St)
    (kvs : List (String × PyVal))
    (h : (run (n+1) ctx (.fields tn parent [] coll true) st).1 = .ok (.dict kvs)) :
    kvs.map (·.1) = (fieldJobs ctx.S tn coll).map (·.1) := by
  simp only [run] at h
  exact executeFields_keys _ _ _ _ _ _ _ _ _ _ h

/-- the root type is chosen by the operation kind -/
theorem root_type_by_operation (S : Schema) :
    rootTypeName S .query = some S.queryType ∧ rootTypeName S .mutation = S.mutationType ∧
    rootTypeName S .subscription = S.subscriptionType := ⟨rfl, rfl, rfl⟩

/-- what makes the root fields run serially is the OPERATION being a mutation, never the type the operation starts
    from: also under `schema { query: Q mutation: Q }` (one object type for both) the root task of a mutation is the
    serial one, and that of a query over the very same type is not -/
theorem serial_by_operation_kind (fuel : Nat) (S : Schema) (o : Oracle) (env : Env) (doc : Document)
    (opName : Option String) (rawVars : List (String × PyVal)) (root : PyVal) (op : Operation) (ctx : Ctx) (t : TTree)
    (hsel : selectOperation doc opName = some op)
    (h : requestTree fuel S o env doc opName rawVars root = .ok (ctx, t)) :
    ∃ rt collected, rootTypeName S op.kind = some rt ∧
      t = runT fuel ctx (.fields rt root [] collected (op.kind == .mutation)) := by
  unfold requestTree at h
  rw [hsel] at h
  simp only at h
  split at h
  · cases h
  · split at h
    · cases h
    · rename_i rt hrt
      cases h
      exact ⟨rt, _, hrt, rfl⟩

theorem shared_root_type_mutation_is_serial (fuel : Nat) (S : Schema) (o : Oracle) (env : Env) (doc : Document)
    (opName : Option String) (rawVars : List (String × PyVal)) (root : PyVal) (op : Operation) (ctx : Ctx) (t : TTree)
    (hsel : selectOperation doc opName = some op) (hk : op.kind = .mutation)
    (hshared : S.mutationType = some S.queryType)
    (h : requestTree fuel S o env doc opName rawVars root = .ok (ctx, t)) :
    ∃ collected, t = runT fuel ctx (.fields S.queryType root [] collected true) := by
  obtain ⟨rt, coll, hrt, ht⟩ := serial_by_operation_kind fuel S o env doc opName rawVars root op ctx t hsel h
  rw [hk] at hrt ht
  have : rt = S.queryType := by
    have h2 : rootTypeName S .mutation = S.mutationType := rfl
    rw [h2, hshared] at hrt; cases hrt; rfl
  subst this
  exact ⟨coll, by simpa using ht⟩

end Tart.C09
