import TartModel.Proofs.TTreeLemmas
import TartModel.Proofs.AgreeLemmas
/-
  C08 — results do not depend on resolver scheduling or concurrency settings.
  Theorems over the task-tree semantics (Impl/TTree.lean) for EVERY tree, EVERY pure answer
  function and EVERY schedule (any interleaving of `Step`s, of any length).  The tie to the engine:
  `Impl/ExecT.lean` builds the tree of a request mirroring where the Python awaits / gathers /
  appends errors; the correspondence check drives the real engine under chosen schedules and
  compares pending sets and responses.  asyncio itself is abstracted to "any awaited resolver may
  complete next; the engine's own progress runs to quiescence".
-/
namespace Tart.C08
open Tart

/-- Whatever order the event loop completes the awaited resolvers in, a request that finishes
    returns the result of the deterministic semantics, and its errors are a permutation of the
    deterministic ones (the same null positions are explained by the same errors). -/
theorem schedule_independent (ans : Answers) (t : TTree) (r : Out) (log : List GErr)
    (h : Steps ans (t, []) (.done r, log)) : r = (denote ans t).1 ∧ log.Perm (denote ans t).2 := by
  obtain ⟨n, hn⟩ := steps_to_stepsN ans h
  have := stepsN_preserve ans hn
  simp only [denote, List.append_nil, List.nil_append] at this
  exact ⟨this.1, this.2.1⟩

/-- Every execution, under every schedule, has at most `weight ans t` steps: `execute` terminates. -/
theorem bounded (ans : Answers) (t : TTree) (log : List GErr) (n : Nat) (s' : TTree × List GErr)
    (h : StepsN ans n (t, log) s') : n ≤ weight ans t := by
  have := (stepsN_preserve ans h).2.2
  simp only at this; omega

/-- No schedule gets stuck: an unfinished request can always take a step, and after exactly
    `weight ans t` steps it IS finished. -/
theorem never_stuck_and_finishes (ans : Answers) (t : TTree) (log : List GErr) (n : Nat) (s' : TTree × List GErr)
    (h : StepsN ans n (t, log) s') :
    ((∀ r, s'.1 ≠ .done r) → ∃ s'', Step ans s' s'') ∧ (n = weight ans t → ∃ r, s'.1 = .done r) := by
  refine ⟨fun hnd => progress ans s'.1 s'.2 hnd, ?_⟩
  intro hn
  have := (stepsN_preserve ans h).2.2
  simp only at this
  exact weight_zero_done ans s'.1 (by omega)

/-- When `execute` returns (the tree is `done`), nothing is awaited any more: every resolver that
    was started has finished. -/
theorem nothing_pending_at_return (r : Out) : pending (.done r) = [] := rfl

/-- Only a resolver that is currently awaited can complete, and completing it consumes it: the
    remaining work decreases, so no resolver is completed (hence started) twice. -/
theorem completes_only_awaited (ans : Answers) (g : Gate) (s s' : TTree × List GErr) (h : Fires ans g s s') :
    g ∈ pending s.1 ∧ weight ans s.1 = weight ans s'.1 + 1 :=
  ⟨(fires_spec ans g h).2, (step_preserves ans (fires_spec ans g h).1).2.2⟩

/-- Concurrency options: children coerced one after the other (`seqList`) or concurrently
    (`gather`) have the same result and the same errors. -/
theorem sequential_equals_concurrent (ans : Answers) (ts : List TTree) (k : List Out → TTree) :
    denote ans (seqList ts k) = denote ans (.gather ts k) :=
  denote_seqList ans ts k

/-- THE BRIDGE between the two executor models: for every request job, the task tree `runT` builds
    denotes exactly what the direct executor `run` (the model the C01–C05 theorems are about)
    computes — same value, and the errors the tree emits are the errors `run` appends. -/
theorem tree_denotes_direct_result (fuel : Nat) (ctx : Ctx) (job : Job) (st : St) :
    (run fuel ctx job st).1 = (denote (answersOf ctx.env) (runT fuel ctx job)).1 ∧
    (run fuel ctx job st).2.errors = st.errors ++ (denote (answersOf ctx.env) (runT fuel ctx job)).2 :=
  run_agrees fuel ctx job st

/-- Hence: under EVERY schedule of the asynchronous executor (any interleaving, any concurrency
    flags — they only change the tree's shape between `gather` and `seqList`), a request that
    finishes returns the value the direct executor computes, with a permutation of its errors:
    every theorem proved about `run` (C01: result shape and order, C02: error containment,
    C03: conformance) holds of every scheduled execution. -/
theorem any_schedule_gives_direct_result (fuel : Nat) (ctx : Ctx) (job : Job) (r : Out) (log : List GErr)
    (h : Steps (answersOf ctx.env) (runT fuel ctx job, []) (.done r, log)) :
    r = (run fuel ctx job {}).1 ∧ log.Perm (run fuel ctx job {}).2.errors := by
  obtain ⟨h1, h2⟩ := schedule_independent (answersOf ctx.env) (runT fuel ctx job) r log h
  obtain ⟨a1, a2⟩ := run_agrees fuel ctx job {}
  refine ⟨by rw [h1, a1], ?_⟩
  rw [a2]; simpa using h2

/-- non-vacuity: two awaited resolvers, two schedules, one result -/
def g1 : Gate := { coord := "Q.a", path := [.key "a"] }
def g2 : Gate := { coord := "Q.b", path := [.key "b"] }
def t0 : TTree := .gather [.call g1 (fun o => .done o), .call g2 (fun o => .emit [simpleErr "e"] (.done o))]
  (fun outs => .done (.ok (.list (outs.map fun o => match o with | .ok v => v | .error _ => .none))))
def ans0 : Answers := fun g => if g.coord == "Q.a" then .ok (.int 1) else .ok (.int 2)
example : (denote ans0 t0).1 = .ok (.list [.int 1, .int 2]) := by rfl
example : weight ans0 t0 = 4 := by rfl

end Tart.C08
