import TartModel.Proofs.ScalarLemmas
/-
  C10 — built-in scalars obey their coercion laws.
  Every theorem is about the definitions GENERATED from /repo's scalar sources
  (TartModel/Generated/Scalars.lean) and holds for all Python values / literal nodes and
  every `float(<str>)` oracle `o`.  Spec predicates: TartModel/Spec/Scalars.lean.
-/
namespace Tart.C10
open Tart Tart.Gen Tart.Spec

/-! ### result coercion: wire type + same value -/

theorem int_out_wire (o : Oracle) (v r : PyVal) (h : ScalarInt.coerce_output o v = .ok r) :
    IntWire r ∧ SameNumber o v r := by
  unfold ScalarInt.coerce_output at h
  by_cases hb : py_is_bool v = true
  · cases v <;> simp [py_is_bool] at hb
    rename_i b
    simp [py_is_bool, py_int] at h
    subst h; cases b <;> simp [IntWire, SameNumber, minInt, maxInt]
  · simp only [hb] at h
    simp only [Bool.false_eq_true, if_false] at h
    split at h
    · simp at h
    · rename_i r9 heq
      obtain ⟨r', hc, _, _⟩ := int_try1_spec o v _ (by simpa using hb) heq
      cases hc
    · rename_i res heq
      obtain ⟨r', hc, hint, hsame⟩ := int_try1_spec o v _ (by simpa using hb) heq
      cases hc
      cases h1 : py_le C_MIN_INT res with
      | error e => simp [h1] at h
      | ok b1 =>
        cases b1 with
        | false => simp [h1] at h
        | true =>
          cases h2 : py_le res C_MAX_INT with
          | error e => simp [h1, h2] at h
          | ok b2 =>
            cases b2 with
            | false => simp [h1, h2] at h
            | true =>
              simp [h1, h2] at h
              subst h
              exact ⟨int_range_spec _ hint h1 h2, hsame⟩

theorem float_out_wire (o : Oracle) (v r : PyVal) (h : ScalarFloat.coerce_output o v = .ok r) :
    FloatWire r ∧ (∀ f, v = .float f → r = v) := by
  unfold ScalarFloat.coerce_output at h
  split at h
  · simp at h
  · rename_i r8 heq
    simp at h; subst h
    unfold ScalarFloat.coerce_output.try1 at heq
    cases v with
    | str s =>
      by_cases hs : s = ""
      · subst hs; simp [py_truthy, py_is_str, py_isfinite] at heq
      · simp only [py_truthy, py_is_str, py_float] at heq
        cases hf : o.stf s with
        | none => simp [hs, hf] at heq
        | some f => cases f <;> simp [hs, hf, py_isfinite, F.isFinite, py_is_float] at heq <;>
            (subst heq; simp [FloatWire])
    | float f => cases f <;> simp [py_truthy, py_is_str, py_isfinite, F.isFinite, py_is_float, F.isZero] at heq <;>
            (subst heq; simp [FloatWire])
    | int i =>
      simp [py_truthy, py_is_str, py_isfinite, py_is_float, py_float] at heq
      cases hr : roundIntToDouble i with
      | none => simp [hr] at heq
      | some x => simp [hr] at heq; subst heq; simp [FloatWire]
    | bool b =>
      simp [py_truthy, py_is_str, py_isfinite, py_is_float, py_float] at heq
      subst heq; simp [FloatWire]
    | _ => simp [py_truthy, py_is_str, py_isfinite, py_is_float, py_float] at heq
  · simp at h

theorem string_out_wire (o : Oracle) (v r : PyVal) (h : ScalarString.coerce_output o v = .ok r) :
    StrWire r ∧ (∀ s, v = .str s → r = v) := by
  unfold ScalarString.coerce_output ScalarString.coerce_output.try1 at h
  cases v <;> simp [py_is_str, py_is_bool, py_truthy, py_str] at h <;> (try subst h) <;> simp [StrWire]
  rename_i b; cases b <;> simp at h <;> subst h <;> trivial

theorem id_out_wire (o : Oracle) (v r : PyVal) (h : ScalarID.coerce_output o v = .ok r) :
    StrWire r ∧ (∀ s, v = .str s → r = v) ∧ (∀ i, v = .int i → r = .str (toString i)) := by
  unfold ScalarID.coerce_output at h
  cases v with
  | str s => simp [py_is_str] at h; subst h; simp [StrWire]
  | int i => simp [py_is_str, is_integer_spec, IsIntegerVal, py_truthy, py_int, py_str] at h; subst h; simp [StrWire]
  | float f =>
    cases f with
    | fin m e =>
      simp only [py_is_str, is_integer_spec, IsIntegerVal, py_truthy, py_int, F.trunc, bindE_ok] at h
      by_cases hi : (F.fin m e).isIntegral = true
      · simp [hi, py_str] at h; subst h; simp [StrWire]
      · simp [hi] at h
    | _ => simp [py_is_str, is_integer_spec, IsIntegerVal, py_truthy, F.isIntegral] at h
  | _ => simp [py_is_str, is_integer_spec, IsIntegerVal, py_truthy] at h

theorem boolean_out_wire (o : Oracle) (v r : PyVal) (h : ScalarBoolean.coerce_output o v = .ok r) :
    BoolWire r ∧ (∀ b, v = .bool b → r = v) := by
  unfold ScalarBoolean.coerce_output ScalarBoolean.coerce_output.try1 at h
  cases v <;> simp [py_is_bool, py_isfinite, py_bool] at h <;> (try subst h) <;> simp [BoolWire]
  · rename_i i
    cases hr : roundIntToDouble i <;> simp [hr] at h
    subst h; trivial
  · rename_i f
    cases f <;> simp [F.isFinite] at h
    subst h; trivial


/-! ### input coercion accepts exactly the specified kinds -/

theorem int_in_exact (o : Oracle) (v : PyVal) :
    (∃ r, ScalarInt.coerce_input o v = .ok r) ↔ AcceptsInt v := by
  unfold ScalarInt.coerce_input
  cases v with
  | int i =>
    simp only [is_integer_spec, IsIntegerVal, py_truthy, bindE_ok, py_le, py_num, C_MIN_INT, C_MAX_INT, F.le, AcceptsInt, minInt, maxInt, py_int]
    by_cases h1 : (-2147483648 : Int) ≤ i <;> by_cases h2 : i ≤ (2147483647 : Int) <;> simp [h1, h2]
  | float f =>
    cases f with
    | fin m e =>
      simp only [is_integer_spec, IsIntegerVal, py_truthy, bindE_ok, py_le, py_num, C_MIN_INT, C_MAX_INT, F.le, AcceptsInt, minInt, maxInt, py_int, F.isIntegral, F.trunc]
      by_cases h0 : m % (10:Int)^e = 0 <;> by_cases h1 : (-2147483648 : Int) * (10:Int)^e ≤ m <;>
        by_cases h2 : m ≤ (2147483647 : Int) * (10:Int)^e <;> simp [h0, h1, h2]
    | _ => simp [is_integer_spec, IsIntegerVal, py_truthy, F.isIntegral, AcceptsInt]
  | _ => simp [is_integer_spec, IsIntegerVal, py_truthy, AcceptsInt]

/-- what Int input coercion produces: a Python `int` denoting the same number -/
theorem int_in_value (o : Oracle) (v r : PyVal) (h : ScalarInt.coerce_input o v = .ok r) :
    (∃ i, r = .int i ∧ Spec.minInt ≤ i ∧ i ≤ Spec.maxInt) ∧ py_eq r v = true := by
  have hacc := (int_in_exact o v).mp ⟨r, h⟩
  unfold ScalarInt.coerce_input at h
  cases v with
  | int i =>
    simp only [AcceptsInt] at hacc
    simp [is_integer_spec, IsIntegerVal, py_truthy, py_le, py_num, C_MIN_INT, C_MAX_INT, F.le, py_int, minInt, maxInt] at h hacc
    simp [hacc.1, hacc.2] at h; subst h
    simp [py_eq, py_num, F.eq, minInt, maxInt, hacc.1, hacc.2]
  | float f =>
    cases f with
    | fin m e =>
      simp only [AcceptsInt] at hacc
      obtain ⟨h0, h1, h2⟩ := hacc
      simp [minInt, maxInt] at h1 h2
      simp [is_integer_spec, IsIntegerVal, py_truthy, py_le, py_num, C_MIN_INT, C_MAX_INT, F.le, py_int, F.isIntegral, F.trunc, h0, h1, h2] at h
      subst h
      have hm := tdiv_mul_of_emod_zero m ((10:Int)^e) h0
      have hpos : (0:Int) < (10:Int)^e := Int.pow_pos (by decide)
      refine ⟨⟨_, rfl, ?_, ?_⟩, ?_⟩
      · simp only [minInt]; rw [← hm] at h1; exact Int.le_of_mul_le_mul_right h1 hpos
      · simp only [maxInt]; rw [← hm] at h2; exact Int.le_of_mul_le_mul_right h2 hpos
      · simp [py_eq, py_num, F.eq, hm]
    | _ => simp [AcceptsInt] at hacc
  | _ => simp [AcceptsInt] at hacc

theorem float_in_exact (o : Oracle) (v : PyVal) :
    (∃ r, ScalarFloat.coerce_input o v = .ok r) ↔ AcceptsFloat v := by
  unfold ScalarFloat.coerce_input ScalarFloat.coerce_input.try1
  cases v with
  | int i =>
    simp only [py_is_bool, py_isfinite, py_float, AcceptsFloat]
    cases hr : roundIntToDouble i <;> simp [hr]
  | float f => cases f <;> simp [py_is_bool, py_isfinite, py_float, AcceptsFloat, F.isFinite]
  | _ => simp [py_is_bool, py_isfinite, AcceptsFloat]

theorem float_in_value (o : Oracle) (v r : PyVal) (h : ScalarFloat.coerce_input o v = .ok r) :
    FloatWire r ∧ (∀ f, v = .float f → r = v) := by
  unfold ScalarFloat.coerce_input ScalarFloat.coerce_input.try1 at h
  cases v with
  | int i =>
    simp only [py_is_bool, py_isfinite, py_float] at h
    cases hr : roundIntToDouble i <;> simp [hr] at h
    subst h; simp [FloatWire]
  | float f => cases f <;> simp [py_is_bool, py_isfinite, py_float, F.isFinite] at h; subst h; simp [FloatWire]
  | _ => simp [py_is_bool, py_isfinite] at h

theorem string_in_exact (o : Oracle) (v : PyVal) :
    (∃ r, ScalarString.coerce_input o v = .ok r) ↔ AcceptsString v := by
  unfold ScalarString.coerce_input
  cases v <;> simp [py_is_str, AcceptsString]

theorem boolean_in_exact (o : Oracle) (v : PyVal) :
    (∃ r, ScalarBoolean.coerce_input o v = .ok r) ↔ AcceptsBoolean v := by
  unfold ScalarBoolean.coerce_input
  cases v <;> simp [py_is_bool, AcceptsBoolean]

theorem id_in_exact (o : Oracle) (v : PyVal) :
    (∃ r, ScalarID.coerce_input o v = .ok r) ↔ AcceptsID v := by
  unfold ScalarID.coerce_input
  cases v with
  | float f =>
    cases f with
    | fin m e =>
      simp only [py_is_str, is_integer_spec, IsIntegerVal, py_truthy, py_int, F.trunc, bindE_ok, AcceptsID]
      by_cases hi : (F.fin m e).isIntegral = true <;> simp [hi, py_str]
    | _ => simp [py_is_str, is_integer_spec, IsIntegerVal, py_truthy, F.isIntegral, AcceptsID]
  | _ => simp [py_is_str, is_integer_spec, IsIntegerVal, py_truthy, py_int, py_str, AcceptsID]

theorem string_in_value (o : Oracle) (v r : PyVal) (h : ScalarString.coerce_input o v = .ok r) : r = v := by
  unfold ScalarString.coerce_input at h
  cases v <;> simp [py_is_str] at h; exact h.symm

theorem boolean_in_value (o : Oracle) (v r : PyVal) (h : ScalarBoolean.coerce_input o v = .ok r) : r = v := by
  unfold ScalarBoolean.coerce_input at h
  cases v <;> simp [py_is_bool] at h; exact h.symm

theorem id_in_value (o : Oracle) (v r : PyVal) (h : ScalarID.coerce_input o v = .ok r) : StrWire r := by
  have := id_out_wire o v r (by simpa [ScalarID.coerce_input, ScalarID.coerce_output] using h)
  exact this.1


/-! ### a literal of the natural kind and a variable carrying the same JSON value agree -/

/-- Int: literal lexeme `s` (grammar: `parseIntLexeme s = some i`) vs. JSON number `i`. -/
theorem int_literal_eq_variable (o : Oracle) (s : String) (i : Int) (hs : parseIntLexeme s = some i) :
    (Spec.minInt ≤ i ∧ i ≤ Spec.maxInt →
        ScalarInt.parse_literal o (.node "IntValueNode" (.str s)) = .ok (.int i) ∧
        ScalarInt.coerce_input o (.int i) = .ok (.int i)) ∧
    (¬ (Spec.minInt ≤ i ∧ i ≤ Spec.maxInt) →
        ScalarInt.parse_literal o (.node "IntValueNode" (.str s)) = .ok .undef ∧
        ∃ e, ScalarInt.coerce_input o (.int i) = .error e) := by
  unfold ScalarInt.parse_literal ScalarInt.parse_literal.try1 ScalarInt.coerce_input
  simp only [py_is_node, py_attr_value, py_int, hs, is_integer_spec, IsIntegerVal, py_truthy, bindE_ok,
    py_le, py_num, C_MIN_INT, C_MAX_INT, F.le, minInt, maxInt]
  by_cases h1 : (-2147483648 : Int) ≤ i <;> by_cases h2 : i ≤ (2147483647 : Int) <;> simp [h1, h2]

/-- Float: literal lexeme `s` of a Float or Int literal whose `float()` is `f`, vs. the JSON
    number `f` in a variable: equal results when `f` is finite, both refused otherwise
    (this is the statement the `fix:` commit on `Float.parse_literal` makes true). -/
theorem float_literal_eq_variable (o : Oracle) (k s : String) (f : F)
    (hk : k = "FloatValueNode" ∨ k = "IntValueNode") (hs : o.stf s = some f) :
    (f.isFinite = true →
        ScalarFloat.parse_literal o (.node k (.str s)) = .ok (.float f) ∧
        ScalarFloat.coerce_input o (.float f) = .ok (.float f)) ∧
    (f.isFinite = false →
        ScalarFloat.parse_literal o (.node k (.str s)) = .ok .undef ∧
        ∃ e, ScalarFloat.coerce_input o (.float f) = .error e) := by
  unfold ScalarFloat.parse_literal ScalarFloat.parse_literal.try1 ScalarFloat.coerce_input ScalarFloat.coerce_input.try1
  rcases hk with rfl | rfl <;> cases f <;>
    simp [py_is_node, py_attr_value, py_float, hs, py_isfinite, F.isFinite, py_is_bool]

/-- a lexeme `float()` cannot parse is refused as a literal (unreachable for grammar lexemes) -/
theorem float_literal_unparsable (o : Oracle) (k s : String) (hs : o.stf s = none) :
    ScalarFloat.parse_literal o (.node k (.str s)) = .ok .undef := by
  unfold ScalarFloat.parse_literal ScalarFloat.parse_literal.try1
  by_cases hk : py_is_node ["FloatValueNode", "IntValueNode"] (.node k (.str s)) = true <;>
    simp [hk, py_attr_value, py_float, hs]

theorem string_literal_eq_variable (o : Oracle) (s : String) :
    ScalarString.parse_literal o (.node "StringValueNode" (.str s)) = .ok (.str s) ∧
    ScalarString.coerce_input o (.str s) = .ok (.str s) := by
  simp [ScalarString.parse_literal, ScalarString.coerce_input, py_is_node, py_attr_value, py_is_str]

theorem boolean_literal_eq_variable (o : Oracle) (b : Bool) :
    ScalarBoolean.parse_literal o (.node "BooleanValueNode" (.bool b)) = .ok (.bool b) ∧
    ScalarBoolean.coerce_input o (.bool b) = .ok (.bool b) := by
  simp [ScalarBoolean.parse_literal, ScalarBoolean.coerce_input, py_is_node, py_attr_value, py_is_bool]

/-- ID: a string literal and a string variable agree; an Int literal yields its lexeme, the
    JSON integer yields its decimal rendering — equal for canonical lexemes (`toString i = s`,
    i.e. every grammar lexeme except `-0`). -/
theorem id_literal_eq_variable (o : Oracle) (s : String) :
    (ScalarID.parse_literal o (.node "StringValueNode" (.str s)) = .ok (.str s) ∧
     ScalarID.coerce_input o (.str s) = .ok (.str s)) ∧
    (∀ i : Int, toString i = s →
     ScalarID.parse_literal o (.node "IntValueNode" (.str s)) = .ok (.str s) ∧
     ScalarID.coerce_input o (.int i) = .ok (.str s)) := by
  refine ⟨?_, ?_⟩
  · simp [ScalarID.parse_literal, ScalarID.coerce_input, py_is_node, py_attr_value, py_is_str]
  · intro i hi
    simp [ScalarID.parse_literal, ScalarID.coerce_input, py_is_node, py_attr_value, py_is_str,
      is_integer_spec, IsIntegerVal, py_truthy, py_int, py_str]
    exact hi

/-- no literal of a foreign kind is accepted (no strings/booleans for numbers, no numbers for
    String/Boolean, …): `parse_literal` answers UNDEFINED for every other node kind. -/
theorem literal_kind_exact (o : Oracle) (k : String) (x : PyVal) :
    (k ≠ "IntValueNode" → ScalarInt.parse_literal o (.node k x) = .ok .undef) ∧
    (k ≠ "FloatValueNode" → k ≠ "IntValueNode" → ScalarFloat.parse_literal o (.node k x) = .ok .undef) ∧
    (k ≠ "StringValueNode" → ScalarString.parse_literal o (.node k x) = .ok .undef) ∧
    (k ≠ "BooleanValueNode" → ScalarBoolean.parse_literal o (.node k x) = .ok .undef) ∧
    (k ≠ "StringValueNode" → k ≠ "IntValueNode" → ScalarID.parse_literal o (.node k x) = .ok .undef) := by
  refine ⟨?_, ?_, ?_, ?_, ?_⟩ <;> intros <;>
    simp_all [ScalarInt.parse_literal, ScalarFloat.parse_literal, ScalarString.parse_literal,
      ScalarBoolean.parse_literal, ScalarID.parse_literal, py_is_node]

/-! ### idempotence: a produced result fed back as input yields the same value -/

theorem int_idempotent (o : Oracle) (v r : PyVal) (h : ScalarInt.coerce_output o v = .ok r) :
    ∃ r', ScalarInt.coerce_input o r = .ok r' ∧ py_eq r' r = true := by
  have hw := (int_out_wire o v r h).1
  have hacc : AcceptsInt r := by
    cases r with
    | int i => exact hw
    | float f => cases f <;> first | exact hw | exact hw.elim
    | _ => exact hw.elim
  obtain ⟨r', hr'⟩ := (int_in_exact o r).mpr hacc
  exact ⟨r', hr', (int_in_value o r r' hr').2⟩

theorem float_idempotent (o : Oracle) (v r : PyVal) (h : ScalarFloat.coerce_output o v = .ok r) :
    ScalarFloat.coerce_input o r = .ok r := by
  have hw := (float_out_wire o v r h).1
  cases r with
  | float f =>
    cases f with
    | fin m e => simp [ScalarFloat.coerce_input, ScalarFloat.coerce_input.try1, py_is_bool, py_isfinite, F.isFinite, py_float]
    | _ => exact hw.elim
  | _ => exact hw.elim

theorem string_idempotent (o : Oracle) (v r : PyVal) (h : ScalarString.coerce_output o v = .ok r) :
    ScalarString.coerce_input o r = .ok r := by
  have hw := (string_out_wire o v r h).1
  cases r <;> first | exact hw.elim | simp [ScalarString.coerce_input, py_is_str]

theorem boolean_idempotent (o : Oracle) (v r : PyVal) (h : ScalarBoolean.coerce_output o v = .ok r) :
    ScalarBoolean.coerce_input o r = .ok r := by
  have hw := (boolean_out_wire o v r h).1
  cases r <;> first | exact hw.elim | simp [ScalarBoolean.coerce_input, py_is_bool]

theorem id_idempotent (o : Oracle) (v r : PyVal) (h : ScalarID.coerce_output o v = .ok r) :
    ScalarID.coerce_input o r = .ok r := by
  have hw := (id_out_wire o v r h).1
  cases r <;> first | exact hw.elim | simp [ScalarID.coerce_input, py_is_str]

/-! ### non-vacuity: the hypotheses are met by concrete non-trivial values -/
def o0 : Oracle := ⟨fun s => if s == "12" then some (.fin 12 0) else if s == "1e400" then some .inf else none⟩
example : ScalarInt.coerce_output o0 (.str "12") = .ok (.int 12) := by rfl
example : ScalarInt.coerce_output o0 (.float (.fin 25 1)) = .error .typeError := by rfl
example : ScalarInt.coerce_output o0 (.int 2147483648) = .error .typeError := by rfl
example : ScalarFloat.parse_literal o0 (.node "FloatValueNode" (.str "1e400")) = .ok .undef := by rfl
example : ScalarID.coerce_output o0 (.float (.fin 20 1)) = .ok (.str "2") := by rfl

end Tart.C10
