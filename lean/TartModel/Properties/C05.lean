import TartModel.Proofs.InputLemmas
import TartModel.Proofs.LitVarLemmas
import TartModel.Proofs.NaturalLeaf
import TartModel.Impl.Exec
/-
  C05 — field and directive arguments reach resolvers spec-coerced; literal = variable.
  Theorems about Impl/Input.lean `coerceArgument(s)` / `coerceLiteral`.  `typed_delivery` is
  PARTIAL on the unchanged code (known finding KF-C05-1): a variable nested inside a list / object
  literal is delivered without any check against the type of its position — the machine-checked
  counter-example is `nested_variable_untyped_witness` below; the theorem is proved for literals
  that contain no variables and for arguments whose value IS a variable.
-/
namespace Tart.C05
open Tart Tart.Spec

/-! ### the null / absent / default table of `argument_coercer` -/

/-- omitted argument with a schema default: the default literal is coerced and delivered -/
theorem omitted_uses_default (fuel : Nat) (S : Schema) (o : Oracle) (ad : ArgDef) (l : Loc) (vars : Vars)
    (d : Value) (hd : ad.default = some d) :
    coerceArgument fuel S o ad l none vars =
      (match coerceLiteral fuel S o (some vars) false ad.type d with
       | none => .error "invalid-value" l
       | some v => .value v) := by
  cases hl : coerceLiteral fuel S o (some vars) false ad.type d <;> simp [coerceArgument, hd, hl]

/-- omitted, no default, nullable: the argument is ABSENT from the dictionary (not null) -/
theorem omitted_nullable_absent (fuel : Nat) (S : Schema) (o : Oracle) (ad : ArgDef) (l : Loc) (vars : Vars)
    (hd : ad.default = none) (hnn : ad.type.isNonNull = false) :
    coerceArgument fuel S o ad l none vars = .absent := by
  simp [coerceArgument, hd, hnn]

/-- omitted, no default, non-null: that field fails -/
theorem omitted_required_fails (fuel : Nat) (S : Schema) (o : Oracle) (ad : ArgDef) (l : Loc) (vars : Vars)
    (hd : ad.default = none) (hnn : ad.type.isNonNull = true) :
    coerceArgument fuel S o ad l none vars = .error "missing-required" l := by
  simp [coerceArgument, hd, hnn]

/-- explicit `null` literal: kept as None for a nullable argument (distinct from absent, default NOT used) -/
theorem explicit_null_nullable (fuel : Nat) (S : Schema) (o : Oracle) (ad : ArgDef) (l vl : Loc) (vars : Vars) (n : String)
    (hnn : ad.type.isNonNull = false) :
    coerceArgument fuel S o ad l (some ⟨n, .null, vl⟩) vars = .value .none := by
  simp [coerceArgument, hnn]

/-- explicit `null` literal for a non-null argument: that field fails -/
theorem explicit_null_required_fails (fuel : Nat) (S : Schema) (o : Oracle) (ad : ArgDef) (l vl : Loc) (vars : Vars) (n : String)
    (hnn : ad.type.isNonNull = true) :
    coerceArgument fuel S o ad l (some ⟨n, .null, vl⟩) vars = .error "null-for-non-null" vl := by
  simp [coerceArgument, hnn]

/-- variable with a runtime value: that (already coerced) value is delivered as is -/
theorem variable_contributes_runtime_value (fuel : Nat) (S : Schema) (o : Oracle) (ad : ArgDef) (l vl : Loc) (vars : Vars)
    (n x : String) (v : PyVal) (hv : lookupKV x vars = some v) (hne : v ≠ .none) (hu : v ≠ .undef) :
    coerceArgument fuel S o ad l (some ⟨n, .var x, vl⟩) vars = .value v := by
  have hvars : vars.isEmpty = false := by cases vars <;> simp_all [lookupKV]
  cases v <;> simp_all [coerceArgument]

/-- variable without runtime value: default if any, else absent (nullable) or a field failure (non-null) -/
theorem variable_without_value (fuel : Nat) (S : Schema) (o : Oracle) (ad : ArgDef) (l vl : Loc) (vars : Vars)
    (n x : String) (hv : lookupKV x vars = none) :
    coerceArgument fuel S o ad l (some ⟨n, .var x, vl⟩) vars =
      (match ad.default with
       | some d => (match coerceLiteral fuel S o (some vars) false ad.type d with
                    | none => .error "invalid-value" vl | some v => .value v)
       | none => if ad.type.isNonNull then .error "variable-without-value" vl else .absent) := by
  cases hd : ad.default with
  | none => by_cases hnn : ad.type.isNonNull = true <;> simp [coerceArgument, hv, hd, hnn]
  | some d =>
    cases hl : coerceLiteral fuel S o (some vars) false ad.type d <;>
      by_cases hnn : ad.type.isNonNull = true <;> simp [coerceArgument, hv, hd, hnn, hl]

/-- a variable carrying explicit null: None for a nullable argument, a field failure for a non-null one -/
theorem variable_null (fuel : Nat) (S : Schema) (o : Oracle) (ad : ArgDef) (l vl : Loc) (vars : Vars)
    (n x : String) (hv : lookupKV x vars = some .none) :
    coerceArgument fuel S o ad l (some ⟨n, .var x, vl⟩) vars =
      (if ad.type.isNonNull then .error "null-for-non-null" vl else .value .none) := by
  have hvars : vars.isEmpty = false := by cases vars <;> simp_all [lookupKV]
  by_cases hnn : ad.type.isNonNull = true <;> simp [coerceArgument, hv, hvars, hnn]

/-- an argument failure is an error of THAT field only: `coerce_arguments` raises, nothing is delivered -/
theorem argument_failure_fails_field (fuel : Nat) (ctx : Ctx) (tn : String) (fd : FieldDef) (parent : PyVal)
    (nodes : List Selection) (p : List PathSeg) (st : St) (errs : List (String × Loc))
    (h : coerceArguments fuel ctx.S ctx.o fd.args nodes.head!.floc nodes.head!.fargs ctx.vars = .error errs) :
    resolveValue fuel ctx tn fd parent nodes p st = (.error (argErrors errs), st) := by
  simp [resolveValue, h]

/-! ### typed delivery -/

/-- a literal written without variables (also: every schema default, every variable default) is
    delivered as a coerced value of the declared type, whatever the variables are -/
theorem const_literal_typed (n : Nat) (S : Schema) (o : Oracle) (flag : Bool) (ty : TypeRef) (node : Value) (v : PyVal)
    (h : coerceLiteral n S o none flag ty node = some v) : HasType S ty v :=
  (coerceLiteral_const_typed n S o flag ty node v h).1

/-- KNOWN FINDING KF-C05-1, machine-checked: with `$s = "notint"`, the literal `[$s]` at an `[Int]`
    position coerces to `["notint"]`, which is NOT a value of type `[Int]`. -/
def Sw : Schema := { types := [.scalar "Int", .scalar "String"], queryType := "Query", mutationType := none, subscriptionType := none }
def ow : Oracle := ⟨fun _ => none⟩
theorem nested_variable_untyped_witness :
    coerceLiteral 5 Sw ow (some [("s", .str "notint")]) false (.list (.named "Int")) (.list [.var "s"])
      = some (.list [.str "notint"]) ∧
    ¬ HasType Sw (.list (.named "Int")) (.list [.str "notint"]) := by
  refine ⟨by rfl, ?_⟩
  intro h
  cases h with
  | list hl =>
    have := hl (.str "notint") (by simp)
    cases this with
    | scalar hft hleaf => simp [InLeafOK] at hleaf
    | enum hft _ => simp [Sw, Schema.findType] at hft


/-! ### literal = variable, structurally (every type, every nesting) -/

theorem literal_arg_core (n : Nat) (S : Schema) (o : Oracle) (ad : ArgDef) (l vl : Loc) (name : String)
    (node : Value) (v : PyVal) (vars : Vars) (hnn : node ≠ .null) (hnv : ∀ x, node ≠ .var x)
    (hlit : coerceArgument n S o ad l (some ⟨name, node, vl⟩) vars = .value v) :
    coerceLiteral n S o (some vars) false ad.type node = some v := by
  cases node <;> first | exact absurd rfl hnn | exact absurd rfl (hnv _) | skip
  all_goals
    simp only [coerceArgument, Option.isSome_some, Bool.not_true, Bool.false_and, Bool.false_or, Bool.false_eq_true, ↓reduceIte] at hlit
    split at hlit <;> first | (simp at hlit; rw [← hlit]; assumption) | cases hlit

/-- literal = variable, full structural statement: an argument written as a constant literal of the natural
    shape, and the same argument supplied through a variable carrying the JSON value the literal denotes,
    deliver the same Python value — through every nesting of non-null, list (including a single value standing
    for a list), enum and input-object types, omitted input fields and their SDL defaults -/
theorem literal_eq_variable (n : Nat) (S : Schema) (o : Oracle) (hS : DefaultsConst S) (ad : ArgDef) (l vl : Loc) (name : String)
    (node : Value) (j v : PyVal) (vars : Vars)
    (hnat : NatLit S NaturalLeaf ad.type node) (hnn : node ≠ .null) (hj : jsonOf o node = some j)
    (hlit : coerceArgument n S o ad l (some ⟨name, node, vl⟩) vars = .value v) :
    coerceVariable n S o ⟨"x", ad.type, none, l, ⟨0, 0⟩⟩ [("x", j)] = .value v ∧
    coerceArgument n S o ad l (some ⟨name, .var "x", vl⟩) [("x", v)] = .value v := by
  have hnv := jsonOf_not_var o node j hj
  have hvf := natLit_varFree naturalLeaf_varFree node ad.type hnat
  have h1 := literal_arg_core n S o ad l vl name node v vars hnn hnv hlit
  rw [const_ignores_vars S o hS (some vars) n false ad.type node hvf] at h1
  have hin := lit_var_all S o NaturalLeaf (naturalLeaf_agree o) n false ad.type node j v hnat hj h1
  have hjn := jsonOf_ne_none o node j hnn hj
  have hvn : v ≠ .none := fun he => hnn ((coerceLiteral_const_typed n S o false ad.type node v h1).2 he)
  have hvu := coerceLiteral_const_ne_undef S o n false ad.type node v h1
  refine ⟨?_, ?_⟩
  · simp only [coerceVariable, lookupKV, beq_self_eq_true, ↓reduceIte, hin]
    cases j <;> simp [isNone] <;> exact absurd rfl hjn
  · cases v <;> first | exact absurd rfl hvn | exact absurd rfl hvu | simp [coerceArgument, lookupKV]


/-- non-vacuity: a nested natural literal for `[In!]` with `input In { a: Int = 7, b: [String] }` and its JSON value -/
def Slv : Schema := { types := [.scalar "Int", .scalar "String", .input "In" [⟨"a", .named "Int", some (.int "7")⟩, ⟨"b", .list (.named "String"), none⟩]],
                      queryType := "Query", mutationType := none, subscriptionType := none, directives := [] }
def nodeLv : Value := .list [.obj [("b", .str "x")], .obj [("a", .int "1"), ("b", .list [.str "y", .null])]]
example : jsonOf ⟨fun _ => none⟩ nodeLv =
    some (.list [.dict [("b", .str "x")], .dict [("a", .int 1), ("b", .list [.str "y", .none])]]) := by rfl
example : coerceLiteral 8 Slv ⟨fun _ => none⟩ none false (.list (.nonNull (.named "In"))) nodeLv =
    some (.list [.dict [("a", .int 7), ("b", .list [.str "x"])], .dict [("a", .int 1), ("b", .list [.str "y", .none])]]) := by rfl

end Tart.C05
