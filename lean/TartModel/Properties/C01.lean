import TartModel.Proofs.CollectLemmas
/-
  C01 — request results equal the GraphQL execution algorithm's result.
  `Impl/Exec.lean` IS the June-2018 execution algorithm (CollectFields with visited fragments,
  ExecuteSelectionSet, CompleteValue with type resolution) written executably and mirroring
  tartiflette; the correspondence check compares it with the real engine on `data` and on the
  resolver call log.  The theorems below are the structural facts the property names: response
  keys appear once, in first-appearance order; the result object lists exactly the collected
  fields; a resolver is invoked at most once per collected key and parent with the parent's value
  and the coerced arguments; fields without resolver read attribute, then key; the most specific
  type resolver wins.
-/
namespace Tart.C01
open Tart

/-- CollectFields never duplicates a response key and never moves a key collected earlier
    (first-appearance order), through any nesting of inline fragments and fragment spreads. -/
theorem collect_keys_once_in_order (n : Nat) (ctx : Ctx) (rt : String) (sels : List Selection)
    (acc : Collected × List String) :
    (acc.1.keys.Nodup → (collectFields n ctx rt sels acc).1.keys.Nodup) ∧
    acc.1.keys <+: (collectFields n ctx rt sels acc).1.keys :=
  collectFields_inv n ctx rt sels acc

/-- merged sub-selections (several field nodes under one key) are collected into one
    duplicate-free map, sharing the visited-fragment set across the merged nodes -/
theorem subfields_keys_once (fuel : Nat) (ctx : Ctx) (rt : String) (nodes : List Selection) :
    (collectSubfields fuel ctx rt nodes).keys.Nodup :=
  collectSubfields_nodup fuel ctx rt nodes

/-- appending a node to an existing key keeps the key's position and the order of its nodes
    (document order inside a key) -/
theorem add_existing_key_appends (acc : Collected) (k : String) (n : Selection) (nodes : List Selection)
    (h : (k, nodes) ∈ acc) : (k, nodes ++ [n]) ∈ acc.add k n := by
  unfold Collected.add
  have hany : (acc.any fun p => p.1 == k) = true := by
    simp only [List.any_eq_true]; exact ⟨(k, nodes), h, by simp⟩
  simp only [hany, if_true, List.mem_map]
  exact ⟨(k, nodes), h, by simp⟩

/-- the object produced for a selection set lists exactly the collected fields defined on the
    type — each once, in collection order (for every concurrency configuration, serial or not) -/
theorem result_keys_are_collected_keys (n : Nat) (ctx : Ctx) (tn : String) (parent : PyVal) (path : List PathSeg)
    (coll : Collected) (serial : Bool) (st : St) (kvs : List (String × PyVal))
    (h : (run (n+1) ctx (.fields tn parent path coll serial) st).1 = .ok (.dict kvs)) :
    kvs.map (·.1) = (fieldJobs ctx.S tn coll).map (·.1) := by
  simp only [run] at h
  exact executeFields_keys _ _ _ _ _ _ _ _ _ _ h

/-- Resolving one field calls its resolver exactly once — with the parent's value, the response
    path, and the coerced argument dictionary — when the arguments coerce, and not at all when they
    do not (or when the field has no resolver: the default resolver is not user code). -/
theorem resolver_called_once_with_parent_and_args (fuel : Nat) (ctx : Ctx) (tn : String) (fd : FieldDef) (parent : PyVal)
    (nodes : List Selection) (path : List PathSeg) (st : St) (hname : (fd.name == "__typename") = false) :
    (∀ args, coerceArguments fuel ctx.S ctx.o fd.args nodes.head!.floc nodes.head!.fargs ctx.vars = .ok args →
      (resolveValue fuel ctx tn fd parent nodes path st).2.calls =
        st.calls ++ (match resolverOf ctx.env (tn ++ "." ++ fd.name) with
                     | .default => []
                     | _ => [⟨tn ++ "." ++ fd.name, path, parent, args⟩])) ∧
    (∀ errs, coerceArguments fuel ctx.S ctx.o fd.args nodes.head!.floc nodes.head!.fargs ctx.vars = .error errs →
      (resolveValue fuel ctx tn fd parent nodes path st).2.calls = st.calls) := by
  refine ⟨?_, ?_⟩
  · intro args h
    simp only [resolveValue, h, hname]
    cases resolverOf ctx.env (tn ++ "." ++ fd.name) <;> simp [logCall]
  · intro errs h
    simp [resolveValue, h]

/-- a field without resolver reads the same-named attribute, else the same-named key, else null -/
theorem default_resolver_reads_attribute_or_key (name : String) :
    (∀ cls attrs, defaultResolve (.obj cls attrs) name = (lookupKV name attrs).getD .none) ∧
    (∀ kvs, dictMethodNames.contains name = false → defaultResolve (.dict kvs) name = (lookupKV name kvs).getD .none) := by
  refine ⟨fun _ _ => rfl, ?_⟩
  intro kvs h
  have h' : name ∉ dictMethodNames := by
    intro hm; have : dictMethodNames.contains name = true := by simpa using hm
    rw [h] at this; cases this
  simp [defaultResolve, h']

/-- the most specific type resolver decides the runtime type of an abstract result:
    field level, then type level, then the engine's default -/
theorem most_specific_type_resolver_wins (ctx : Ctx) (pt fn at' : String) (v : PyVal) (spec : TypeResolverSpec)
    (h : ctx.env.fieldTypeResolvers.find? (fun p => p.1 == pt ++ "." ++ fn) = some (pt ++ "." ++ fn, spec)) :
    resolveTypeName ctx pt fn at' v =
      (match spec with
       | .const n => .str n
       | .key k => (match v with | .dict kvs => (lookupKV k kvs).getD (.str "?") | _ => .str "?")) := by
  unfold resolveTypeName
  simp only [h]
  cases spec <;> rfl

/-- …and without a field-level one, the type-level resolver (if any) is used before the default -/
theorem type_level_resolver_before_default (ctx : Ctx) (pt fn at' : String) (v : PyVal)
    (h1 : ctx.env.fieldTypeResolvers.find? (fun p => p.1 == pt ++ "." ++ fn) = none)
    (h2 : ctx.env.typeResolvers.find? (fun p => p.1 == at') = none) :
    resolveTypeName ctx pt fn at' v = defaultTypeName v := by
  unfold resolveTypeName
  simp [h1, h2]

/-- the three ways of naming the runtime type recognised by the default type resolver -/
example : defaultTypeName (.dict [("_typename", .str "Dog")]) = .str "Dog" := rfl
example : defaultTypeName (.obj "Row" [("_typename", .str "Dog")]) = .str "Dog" := rfl
example : defaultTypeName (.obj "Dog" []) = .str "Dog" := rfl

/-! ### @skip / @include -/

/-- the coerced `if` condition of a built-in @skip / @include use, when it coerces -/
def condition (fuel : Nat) (ctx : Ctx) (d : Directive) : Option PyVal :=
  match coerceArguments fuel ctx.S ctx.o ifArgDefs d.loc d.args ctx.vars with
  | .ok args => lookupKV "if" args
  | .error _ => none

/-- a selection is collected iff every @skip condition coerces to a falsy value and every @include
    condition to a truthy one -/
theorem included_iff (fuel : Nat) (ctx : Ctx) (dirs : List Directive) :
    shouldInclude fuel ctx dirs = true ↔
      ∀ d ∈ dirs, (d.name == "skip" → ∃ v, condition fuel ctx d = some v ∧ py_truthy v = false) ∧
                  (d.name == "include" → ∃ v, condition fuel ctx d = some v ∧ py_truthy v = true) := by
  unfold shouldInclude
  rw [List.all_eq_true]
  constructor
  · intro h d hd
    have := h d hd
    unfold condition
    by_cases hs : (d.name == "skip") = true
    · simp only [hs, Bool.true_or, if_true] at this
      refine ⟨fun _ => ?_, fun hi => ?_⟩
      · cases hc : coerceArguments fuel ctx.S ctx.o ifArgDefs d.loc d.args ctx.vars with
        | error e => simp [hc] at this
        | ok args =>
          simp only [hc] at this
          cases hl : lookupKV "if" args with
          | none => simp [hl] at this
          | some v => simp only [hl] at this; exact ⟨v, by simp [hl], by simpa using this⟩
      · have : d.name = "skip" := by simpa using hs
        have : d.name = "include" := by simpa using hi
        simp_all
    · by_cases hi : (d.name == "include") = true
      · have hs' : (d.name == "skip") = false := by simpa using hs
        simp only [hs', hi, Bool.false_or, if_true] at this
        refine ⟨fun h => by simp [hs'] at h, fun _ => ?_⟩
        cases hc : coerceArguments fuel ctx.S ctx.o ifArgDefs d.loc d.args ctx.vars with
        | error e => simp [hc] at this
        | ok args =>
          simp only [hc] at this
          cases hl : lookupKV "if" args with
          | none => simp [hl] at this
          | some v => simp only [hl] at this; exact ⟨v, by simp [hl], by simpa using this⟩
      · exact ⟨fun h => absurd h hs, fun h => absurd h hi⟩
  · intro h d hd
    obtain ⟨h1, h2⟩ := h d hd
    by_cases hs : (d.name == "skip") = true
    · obtain ⟨v, hv, ht⟩ := h1 hs
      unfold condition at hv
      simp only [hs, Bool.true_or, if_true]
      cases hc : coerceArguments fuel ctx.S ctx.o ifArgDefs d.loc d.args ctx.vars with
      | error e => simp [hc] at hv
      | ok args => simp only [hc] at hv; simp [hv, ht]
    · have hs' : (d.name == "skip") = false := by simpa using hs
      by_cases hi : (d.name == "include") = true
      · obtain ⟨v, hv, ht⟩ := h2 hi
        unfold condition at hv
        simp only [hs', hi, Bool.false_or, if_true]
        cases hc : coerceArguments fuel ctx.S ctx.o ifArgDefs d.loc d.args ctx.vars with
        | error e => simp [hc] at hv
        | ok args => simp only [hc] at hv; simp [hv, ht]
      · have hi' : (d.name == "include") = false := by simpa using hi
        simp [hs', hi']

/-- with boolean conditions this is the specification's rule: a selection is collected iff no @skip
    says true and no @include says false (@skip therefore wins over @include) -/
theorem boolean_conditions_follow_spec (fuel : Nat) (ctx : Ctx) (dirs : List Directive) (b : Directive → Bool)
    (h : ∀ d ∈ dirs, (d.name == "skip" || d.name == "include") = true → condition fuel ctx d = some (.bool (b d))) :
    shouldInclude fuel ctx dirs = true ↔
      ∀ d ∈ dirs, (d.name == "skip" → b d = false) ∧ (d.name == "include" → b d = true) := by
  rw [included_iff]
  constructor
  · intro H d hd
    obtain ⟨h1, h2⟩ := H d hd
    refine ⟨fun hs => ?_, fun hi => ?_⟩
    · obtain ⟨v, hv, ht⟩ := h1 hs
      rw [h d hd (by simp [hs])] at hv; cases hv; simpa [py_truthy] using ht
    · obtain ⟨v, hv, ht⟩ := h2 hi
      rw [h d hd (by simp [hi])] at hv; cases hv; simpa [py_truthy] using ht
  · intro H d hd
    obtain ⟨h1, h2⟩ := H d hd
    refine ⟨fun hs => ⟨_, h d hd (by simp [hs]), by simp [py_truthy, h1 hs]⟩,
            fun hi => ⟨_, h d hd (by simp [hi]), by simp [py_truthy, h2 hi]⟩⟩

/-- KNOWN DEVIATION (KF-C01-1), stated as what the model — and the engine it mirrors — does: a
    @skip / @include whose `if` argument does not coerce (a nullable variable with a default that the
    request sets to null, at the `Boolean!` position) EXCLUDES the selection, silently.  The
    specification would keep the selection (the condition is not `true`) or fail it. -/
theorem uncoercible_condition_excludes (fuel : Nat) (ctx : Ctx) (dirs : List Directive) (d : Directive)
    (hd : d ∈ dirs) (hn : (d.name == "skip" || d.name == "include") = true)
    (hc : condition fuel ctx d = none) : shouldInclude fuel ctx dirs = false := by
  cases hsi : shouldInclude fuel ctx dirs with
  | false => rfl
  | true =>
    obtain ⟨h1, h2⟩ := (included_iff fuel ctx dirs).mp hsi d hd
    cases hs : (d.name == "skip") with
    | true => obtain ⟨v, hv, _⟩ := h1 hs; rw [hc] at hv; cases hv
    | false =>
      have hi : (d.name == "include") = true := by simpa [hs] using hn
      obtain ⟨v, hv, _⟩ := h2 hi; rw [hc] at hv; cases hv

/-- non-vacuity of both: `@skip(if: $v)` with `$v = false` keeps the selection, with `$v = null` drops it -/
def ctxV (v : PyVal) : Ctx :=
  { S := { types := [], queryType := "Query", mutationType := none, subscriptionType := none },
    doc := default, vars := [("v", v)], env := ⟨[], [], []⟩, o := ⟨fun _ => none⟩ }
def skipV : Directive := ⟨"skip", [⟨"if", .var "v", ⟨1, 20⟩⟩], ⟨1, 10⟩⟩
example : shouldInclude 5 (ctxV (.bool false)) [skipV] = true := by decide +kernel
example : shouldInclude 5 (ctxV (.bool true)) [skipV] = false := by decide +kernel
example : condition 5 (ctxV .none) skipV = none ∧ shouldInclude 5 (ctxV .none) [skipV] = false := by decide +kernel

end Tart.C01
