import TartModel.Proofs.CollectLemmas
/-
  C01 — request results equal the GraphQL execution algorithm's result.
  `Impl/Exec.lean` IS the June-2018 execution algorithm (CollectFields with visited fragments,
  ExecuteSelectionSet, CompleteValue with type resolution) written executably and mirroring
  tartiflette; the correspondence check compares it with the real engine on `data` and on the
  resolver call log.  The theorems below are the structural facts the property names: response
  keys appear once, in first-appearance order; the result object lists exactly the collected
  fields; a resolver is invoked at most once per collected key and parent with the parent's value
  and the coerced arguments; fields without resolver read attribute, then key; the most specific
  type resolver wins.
-/
namespace Tart.C01
open Tart

/-- CollectFields never duplicates a response key and never moves a key collected earlier
    (first-appearance order), through any nesting of inline fragments and fragment spreads. -/
theorem collect_keys_once_in_order (n : Nat) (ctx : Ctx) (rt : String) (sels : List Selection)
    (acc : Collected × List String) :
    (acc.1.keys.Nodup → (collectFields n ctx rt sels acc).1.keys.Nodup) ∧
    acc.1.keys <+: (collectFields n ctx rt sels acc).1.keys :=
  collectFields_inv n ctx rt sels acc

/-- merged sub-selections (several field nodes under one key) are collected into one
    duplicate-free map, sharing the visited-fragment set across the merged nodes -/
theorem subfields_keys_once (fuel : Nat) (ctx : Ctx) (rt : String) (nodes : List Selection) :
    (collectSubfields fuel ctx rt nodes).keys.Nodup :=
  collectSubfields_nodup fuel ctx rt nodes

/-- appending a node to an existing key keeps the key's position and the order of its nodes
    (document order inside a key) -/
theorem add_existing_key_appends (acc : Collected) (k : String) (n : Selection) (nodes : List Selection)
    (h : (k, nodes) ∈ acc) : (k, nodes ++ [n]) ∈ acc.add k n := by
  unfold Collected.add
  have hany : (acc.any fun p => p.1 == k) = true := by
    simp only [List.any_eq_true]; exact ⟨(k, nodes), h, by simp⟩
  simp only [hany, if_true, List.mem_map]
  exact ⟨(k, nodes), h, by simp⟩

/-- the object produced for a selection set lists exactly the collected fields defined on the
    type — each once, in collection order (for every concurrency configuration, serial or not) -/
theorem result_keys_are_collected_keys (n : Nat) (ctx : Ctx) (tn : String) (parent : PyVal) (path : List PathSeg)
    (coll : Collected) (serial : Bool) (st : St) (kvs : List (String × PyVal))
    (h : (run (n+1) ctx (.fields tn parent path coll serial) st).1 = .ok (.dict kvs)) :
    kvs.map (·.1) = (fieldJobs ctx.S tn coll).map (·.1) := by
  simp only [run] at h
  exact executeFields_keys _ _ _ _ _ _ _ _ _ _ h

/-- Resolving one field calls its resolver exactly once — with the parent's value, the response
    path, and the coerced argument dictionary — when the arguments coerce, and not at all when they
    do not (or when the field has no resolver: the default resolver is not user code). -/
theorem resolver_called_once_with_parent_and_args (fuel : Nat) (ctx : Ctx) (tn : String) (fd : FieldDef) (parent : PyVal)
    (nodes : List Selection) (path : List PathSeg) (st : St) (hname : (fd.name == "__typename") = false) :
    (∀ args, coerceArguments fuel ctx.S ctx.o fd.args nodes.head!.floc nodes.head!.fargs ctx.vars = .ok args →
      (resolveValue fuel ctx tn fd parent nodes path st).2.calls =
        st.calls ++ (match resolverOf ctx.env (tn ++ "." ++ fd.name) with
                     | .default => []
                     | _ => [⟨tn ++ "." ++ fd.name, path, parent, args⟩])) ∧
    (∀ errs, coerceArguments fuel ctx.S ctx.o fd.args nodes.head!.floc nodes.head!.fargs ctx.vars = .error errs →
      (resolveValue fuel ctx tn fd parent nodes path st).2.calls = st.calls) := by
  refine ⟨?_, ?_⟩
  · intro args h
    simp only [resolveValue, h, hname]
    cases resolverOf ctx.env (tn ++ "." ++ fd.name) <;> simp [logCall]
  · intro errs h
    simp [resolveValue, h]

/-- a field without resolver reads the same-named attribute, else the same-named key, else null -/
theorem default_resolver_reads_attribute_or_key (name : String) :
    (∀ cls attrs, defaultResolve (.obj cls attrs) name = (lookupKV name attrs).getD .none) ∧
    (∀ kvs, dictMethodNames.contains name = false → defaultResolve (.dict kvs) name = (lookupKV name kvs).getD .none) := by
  refine ⟨fun _ _ => rfl, ?_⟩
  intro kvs h
  have h' : name ∉ dictMethodNames := by
    intro hm; have : dictMethodNames.contains name = true := by simpa using hm
    rw [h] at this; cases this
  simp [defaultResolve, h']

/-- the most specific type resolver decides the runtime type of an abstract result:
    field level, then type level, then the engine's default -/
theorem most_specific_type_resolver_wins (ctx : Ctx) (pt fn at' : String) (v : PyVal) (spec : TypeResolverSpec)
    (h : ctx.env.fieldTypeResolvers.find? (fun p => p.1 == pt ++ "." ++ fn) = some (pt ++ "." ++ fn, spec)) :
    resolveTypeName ctx pt fn at' v =
      (match spec with
       | .const n => .str n
       | .key k => (match v with | .dict kvs => (lookupKV k kvs).getD (.str "?") | _ => .str "?")) := by
  unfold resolveTypeName
  simp only [h]
  cases spec <;> rfl

/-- …and without a field-level one, the type-level resolver (if any) is used before the default -/
theorem type_level_resolver_before_default (ctx : Ctx) (pt fn at' : String) (v : PyVal)
    (h1 : ctx.env.fieldTypeResolvers.find? (fun p => p.1 == pt ++ "." ++ fn) = none)
    (h2 : ctx.env.typeResolvers.find? (fun p => p.1 == at') = none) :
    resolveTypeName ctx pt fn at' v = defaultTypeName v := by
  unfold resolveTypeName
  simp [h1, h2]

/-- the three ways of naming the runtime type recognised by the default type resolver -/
example : defaultTypeName (.dict [("_typename", .str "Dog")]) = .str "Dog" := rfl
example : defaultTypeName (.obj "Row" [("_typename", .str "Dog")]) = .str "Dog" := rfl
example : defaultTypeName (.obj "Dog" []) = .str "Dog" := rfl

end Tart.C01
