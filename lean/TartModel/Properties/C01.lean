import TartModel.Impl.Exec
namespace Tart.C01
open Tart
theorem placeholder_mapSt_length {α β σ : Type} (f : α → σ → β × σ) (xs : List α) (s : σ) :
    (mapSt f xs s).1.length = xs.length := by
  induction xs generalizing s with
  | nil => rfl
  | cons a as ih => simp [mapSt, ih]
end Tart.C01
