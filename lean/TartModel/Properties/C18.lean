import TartModel.Impl.Engine
import TartModel.Proofs.ExecLemmas
/-
  C18 — `execute` always answers with a well-formed GraphQL response.
  Envelope theorems over Impl/Engine.lean for EVERY parser outcome (refused with any error list, or
  any document the decoder accepts — valid or not), operation name, variables, resolver
  environment and total error coercer.  Partial: text -> parser outcome is outside the model (the
  native parser is absent; the harness substitute is exercised by the correspondence check).
-/
namespace Tart.C18
open Tart

/-- `errors` is present exactly when something went wrong, and is then non-empty -/
theorem errors_key_iff_nonempty {α : Type} (coerce : GErr → α) (data : PyVal) (errs : List GErr) :
    ((buildResponse coerce data errs).errors = none ↔ errs = []) ∧
    (∀ ces, (buildResponse coerce data errs).errors = some ces → ces ≠ []) := by
  unfold buildResponse
  cases errs with
  | nil => simp
  | cons e es => simp

/-- the error coercer is applied exactly once per reported error, and what it returns is what
    appears in `errors`, in order -/
theorem coercer_once_per_error_in_order {α : Type} (coerce : GErr → α) (data : PyVal) (errs : List GErr) (ces : List α)
    (h : (buildResponse coerce data errs).errors = some ces) :
    ces = errs.map coerce ∧ ces.length = errs.length := by
  unfold buildResponse at h
  cases errs with
  | nil => simp at h
  | cons e es => simp at h; subst h; simp

/-- a request refused by the parser or by validation: `data` is null, `errors` carries the
    (coerced) reasons, nothing runs -/
theorem refused_runs_nothing {α : Type} (coerce : GErr → α) (fuel : Nat) (S : Schema) (o : Oracle) (env : Env)
    (errs : List GErr) (opName : Option String) (rawVars : List (String × PyVal)) (root : PyVal) :
    (engineExecute coerce fuel S o env (.refused errs) opName rawVars root).1.data = .none ∧
    (engineExecute coerce fuel S o env (.refused errs) opName rawVars root).2 = [] := by
  simp [engineExecute, buildResponse]

/-- failed operation selection (unknown name, several operations without a name, no operation):
    `data` is null, exactly one error, nothing runs -/
theorem operation_selection_failure_runs_nothing (fuel : Nat) (S : Schema) (o : Oracle) (env : Env) (d : Document)
    (opName : Option String) (rawVars : List (String × PyVal)) (root : PyVal) (h : selectOperation d opName = none) :
    (executeRequest fuel S o env d opName rawVars root).data = .none ∧
    (executeRequest fuel S o env d opName rawVars root).calls = [] ∧
    (executeRequest fuel S o env d opName rawVars root).errors.length = 1 := by
  simp [executeRequest, h]

/-- an unknown operation name never selects anything, an anonymous request selects only when the
    document has a single operation name -/
theorem unknown_operation_name (d : Document) (n : String) (hn : n ≠ "")
    (h : ∀ op ∈ d.operations, op.name ≠ some n) : selectOperation d (some n) = none := by
  unfold selectOperation
  have hne : (n == "") = false := by simpa using hn
  simp only [hne]
  simp only [Bool.false_eq_true, if_false]
  rw [List.find?_eq_none]
  intro op hop
  have := h op (List.mem_reverse.mp hop)
  simpa using this

/-- whatever the document (valid or not), the response of the execution stage has `data` null only
    together with errors, and `data` non-null is an object: there is no other outcome -/
theorem response_is_wellformed {α : Type} (coerce : GErr → α) (fuel : Nat) (S : Schema) (o : Oracle) (env : Env)
    (p : Parsed) (opName : Option String) (rawVars : List (String × PyVal)) (root : PyVal)
    (hp : ∀ errs, p = .refused errs → errs ≠ []) :
    let w := (engineExecute coerce fuel S o env p opName rawVars root).1
    (w.data = .none → ∃ ces, w.errors = some ces ∧ ces ≠ []) := by
  intro w hdata
  cases p with
  | refused errs =>
    have hne := hp errs rfl
    cases errs with
    | nil => exact absurd rfl hne
    | cons e es => exact ⟨(e :: es).map coerce, by simp [w, engineExecute, buildResponse], by simp⟩
  | document d =>
    simp only [w, engineExecute] at hdata ⊢
    have hne := executeRequest_null_has_error fuel S o env d opName rawVars root (by simpa [buildResponse] using hdata)
    cases herr : (executeRequest fuel S o env d opName rawVars root).errors with
    | nil => exact absurd herr hne
    | cons e es => exact ⟨(e :: es).map coerce, by simp [buildResponse, herr], by simp⟩

/-- non-vacuity -/
example : (buildResponse (fun e => e.kind) PyVal.none [simpleErr "syntax"]).errors = some ["syntax"] := rfl
example : (buildResponse (fun e => e.kind) (PyVal.dict []) []).errors = none := rfl

end Tart.C18
