import TartModel.Proofs.ExecLemmas
/-
  C02 — field failures are contained: error accounting of the executor model (Impl/Exec.lean).
  All statements hold for every schema, document, variables, resolver environment, fuel and
  starting state.  `Ext p st st'`: `st'` = `st` plus errors whose paths all lie under `p`.
-/
namespace Tart.C02
open Tart

/-- Errors are only ever appended, and every error recorded while a job (completing a value at
    `path`, or executing a selection set at `path`) runs carries a path under that position:
    no entry is attributed outside the sub-tree where the failure happened. -/
theorem errors_appended_and_located (fuel : Nat) (ctx : Ctx) (job : Job) (st : St) :
    Ext (jobPath job) st (run fuel ctx job st).2 :=
  (run_inv fuel ctx job st).1

/-- A propagating failure (MultipleException) is never empty: whatever position it finally
    nulls is explained by at least one error, located under the job's path or still unlocated. -/
theorem raised_never_empty (fuel : Nat) (ctx : Ctx) (job : Job) (st : St) (es : List GErr)
    (h : (run fuel ctx job st).1 = .error (.multi es)) :
    es ≠ [] ∧ ∀ e ∈ es, e.path = [] ∨ jobPath job <+: e.path := by
  have := (run_inv fuel ctx job st).2
  rw [h] at this
  exact this

/-- One field of a selection set (response key `d.1` under `path`): whatever it records lies under
    `path ++ [key]`, and if it raises (non-null field) the raised errors are non-empty and lie there too. -/
theorem field_errors_under_field (fuel n : Nat) (ctx : Ctx) (tn : String) (parent : PyVal) (path : List PathSeg)
    (d : FieldJob) (st : St) :
    Ext path st (fieldStep (run n ctx) fuel ctx tn parent path d st).2 ∧
    ResOK path (fieldStep (run n ctx) fuel ctx tn parent path d st).1.2 :=
  fieldStep_inv (run_inv n ctx) fuel ctx tn parent path d st

/-- A failure swallowed at a nullable position (the value becomes null) always leaves at least one
    error whose path lies under that position — list indices included, since `p` is the full path. -/
theorem swallowed_failure_is_reported (nodes : List Selection) (p : List PathSeg) (e : Exn) (st : St)
    (hr : ExnOK p (.error e)) :
    (catchField false nodes p (.error e, st)).1 = .ok .none ∧
    ∃ g ∈ (catchField false nodes p (.error e, st)).2.errors, p <+: g.path :=
  catchField_null_has_error nodes p e st hr

/-- At a non-null position nothing is swallowed: the failure propagates (the parent is nulled instead)
    and no error is recorded at this level. -/
theorem nonnull_propagates (nodes : List Selection) (p : List PathSeg) (e : Exn) (st : St) :
    (catchField true nodes p (.error e, st)).1 = .error (locate e nodes p) ∧
    (catchField true nodes p (.error e, st)).2 = st := by
  simp [catchField]

/-- Located errors keep the message and `extensions` of exceptions derived from the library's error
    class (`tart = true`) and carry the locations of the field's nodes. -/
theorem located_keeps_user_payload (k : String) (t : Bool) (m : String) (x : List (String × PyVal))
    (nodes : List Selection) (p : List PathSeg) :
    locate (.raw k t m x) nodes p = [⟨p, nodeLocs nodes, t, m, x, k⟩] := rfl

/-- Request level: `data` is null only together with at least one entry in `errors` (refused
    request, failed operation selection, or a failure that propagated through non-null positions
    up to the root). -/
theorem data_null_has_error (fuel : Nat) (S : Schema) (o : Oracle) (env : Env) (doc : Document)
    (opName : Option String) (rawVars : List (String × PyVal)) (root : PyVal)
    (h : (executeRequest fuel S o env doc opName rawVars root).data = .none) :
    (executeRequest fuel S o env doc opName rawVars root).errors ≠ [] :=
  executeRequest_null_has_error fuel S o env doc opName rawVars root h

/-- non-vacuity: a concrete failing job -/
example : (catchField false [] [.key "a", .idx 0] (.error (.raw "resolver" true "boom" []), {})).2.errors.length = 1 := by rfl


/-- items are numbered by their own position, whatever the length of the list (no batch / chunk restarts) -/
theorem enumFrom_getElem {α : Type} (xs : List α) (k i : Nat) :
    (enumFrom k xs)[i]? = (xs[i]?).map (fun x => (k + i, x)) := by
  induction xs generalizing k i with
  | nil => simp [enumFrom]
  | cons x xs ih =>
    cases i with
    | zero => simp [enumFrom]
    | succ j =>
      simp only [enumFrom, List.getElem?_cons_succ, ih]
      cases xs[j]? with
      | none => rfl
      | some y => simp; omega

theorem enumFrom_length {α : Type} (xs : List α) (k : Nat) : (enumFrom k xs).length = xs.length := by
  induction xs generalizing k with
  | nil => simp [enumFrom]
  | cons x xs ih => simp [enumFrom, ih]

/-- a list item that is an exception instance, at ANY position `i` of a list of ANY length, is reported under
    `path ++ [i]` — the i-th job of `completeList` is the i-th item with its own index -/
theorem failing_item_reported_at_own_index (rec : Rec) (t : TypeRef) (pt fname : String) (nodes : List Selection)
    (path : List PathSeg) (items : List PyVal) (i : Nat) (t' : Bool) (m : String) (e : List (String × PyVal)) (st : St)
    (hi : items[i]? = some (.exc t' m e)) :
    ∃ job, (enumFrom 0 items)[i]? = some job ∧
      itemStep rec t pt fname nodes path job st
        = catchField t.isNonNull nodes (path ++ [PathSeg.idx i]) (.error (.raw "resolver" t' m e), st) := by
  refine ⟨(i, .exc t' m e), ?_, ?_⟩
  · rw [enumFrom_getElem, hi]; simp
  · simp [itemStep]

end Tart.C02
