import TartModel.Proofs.TTreeLemmas
/-
  C15 — concurrent requests on one engine do not influence each other.
  A family of requests in flight, each with its own answers, task tree and error list, stepped in
  an arbitrary interleaving.  PARTIAL: the theorem is about the model, in which requests share no
  mutable state by construction; that the Python keeps request state out of shared objects
  (schema graph, cached documents, rule instances) is established by the correspondence check
  (interleaved real requests vs. their solo runs) and the read-only fingerprints, not by proof.
-/
namespace Tart.C15
open Tart

/-- However the steps of the requests interleave, every request that is finished at the end has
    the result, and up to order the errors, it has when run alone. -/
theorem isolation (cs cs' : List Conf) (h : FamSteps cs cs') : AllRel cs cs' := famSteps_rel h

/-- …spelled out for one request of the family: its answers are untouched, its result is the solo
    result, its errors are a permutation of the solo errors. -/
theorem each_request_as_alone (c c' : Conf) (hrel : ConfRel c c') (r : Out) (hdone : c'.2.1 = .done r) (hfresh : c.2.2 = []) :
    c'.1 = c.1 ∧ r = (denote c.1 c.2.1).1 ∧ c'.2.2.Perm (denote c.1 c.2.1).2 := by
  obtain ⟨h1, h2, h3⟩ := hrel
  rw [hdone] at h2 h3
  simp only [denote, List.append_nil] at h2 h3
  rw [hfresh] at h3
  exact ⟨h1, h2, by simpa using h3⟩

/-- a step of one request leaves every other request of the family untouched -/
theorem step_frame (pre post : List Conf) (ans : Answers) (t t' : TTree) (log log' : List GErr)
    (h : Step ans (t, log) (t', log')) :
    FamStep (pre ++ (ans, t, log) :: post) (pre ++ (ans, t', log') :: post) := .step pre post ans t t' log log' h

end Tart.C15
