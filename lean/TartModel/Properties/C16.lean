import TartModel.Impl.Cache
/-
  C16 — the query cache and request history never change a response.
  `P` is `parse_and_validate_query` seen as a pure function of its key (query spelling, schema);
  theorems hold for every `P`, every capacity (0 included), every history.  PARTIAL: that the real
  `parse_and_validate_query` is deterministic and that cached documents are never mutated by later
  requests is established by the differential check (every response of a cached engine against a
  fresh uncached engine) — not by proof.  The LRU is modelled from functools' documented behaviour.
-/
namespace Tart.C16
open Tart.Cache

variable {K V : Type} [DecidableEq K]

theorem lru_call_sound (P : K → V) (c : Lru K V) (k : K) (h : c.Sound P) :
    (c.call P k).1 = P k ∧ (c.call P k).2.Sound P := by
  unfold Lru.call
  cases hl : c.lookup k with
  | none =>
    refine ⟨rfl, ?_⟩
    intro e he
    have := List.mem_of_mem_take he
    rcases List.mem_cons.mp this with rfl | hm
    · rfl
    · exact h e hm
  | some v =>
    simp only [Lru.lookup, Option.map_eq_some_iff] at hl
    obtain ⟨e, he, rfl⟩ := hl
    have hmem := List.mem_of_find?_eq_some he
    have hk : e.1 = k := by simpa using List.find?_some he
    have hv : e.2 = P k := by rw [← hk]; exact h e hmem
    refine ⟨hv, ?_⟩
    intro e' he'
    rcases List.mem_cons.mp he' with rfl | hm
    · exact hv
    · exact h e' (List.mem_filter.mp hm).1

/-- LRU of any capacity: every response of any history is the uncached response -/
theorem lru_transparent (P : K → V) : ∀ (c : Lru K V) (ks : List K), c.Sound P → (Lru.run P c ks).1 = ks.map P
  | c, [], _ => rfl
  | c, k :: ks, h => by
    have hs := lru_call_sound P c k h
    simp only [Lru.run, List.map_cons, hs.1, lru_transparent P _ ks hs.2]

/-- from a fresh engine (empty cache), whatever the capacity — tiny, default 512, or 0 -/
theorem fresh_lru_transparent (P : K → V) (cap : Nat) (ks : List K) :
    (Lru.run P ⟨cap, []⟩ ks).1 = ks.map P :=
  lru_transparent P ⟨cap, []⟩ ks (by intro e he; cases he)

/-- any decorator that keeps an invariant under which its answers are `P`'s (custom decorator,
    unbounded memo, no cache at all): transparent over every history -/
theorem decorator_transparent (d : Decorator K V) (P : K → V) (t : Transparent d P) :
    ∀ (s : d.State) (ks : List K), t.Inv s → (Decorator.run d P s ks).1 = ks.map P
  | s, [], _ => rfl
  | s, k :: ks, h => by
    have hs := t.step s k h
    simp only [Decorator.run, List.map_cons, hs.1, decorator_transparent d P t _ ks hs.2]

/-- disabled cache is a transparent decorator -/
def noCache : Decorator K V := ⟨Unit, (), fun P _ k => (P k, ())⟩
def noCacheTransparent (P : K → V) : Transparent (noCache (K := K) (V := V)) P :=
  ⟨fun _ => True, trivial, fun _ _ _ => ⟨rfl, trivial⟩⟩

/-- repeating a request gives the same response; earlier requests (failed or not) leave no trace:
    the i-th answer depends only on the i-th key -/
theorem history_leaves_no_trace (P : K → V) (cap : Nat) (before : List K) (k : K) :
    (Lru.run P ⟨cap, []⟩ (before ++ [k])).1.getLast? = some (P k) := by
  rw [fresh_lru_transparent]; simp

/-- str / bytes spellings are distinct keys with equal parses: they get equal answers at any point of any history -/
theorem spellings_agree (P : K → V) (cap : Nat) (hist : List K) (k1 k2 : K) (h : P k1 = P k2) :
    (Lru.run P ⟨cap, []⟩ (hist ++ [k1])).1.getLast? = (Lru.run P ⟨cap, []⟩ (hist ++ [k2])).1.getLast? := by
  rw [fresh_lru_transparent, fresh_lru_transparent]; simp [h]

/-- non-vacuity: capacity 1, alternating keys (every call evicts) -/
example : (Lru.run (fun n : Nat => n * n) ⟨1, []⟩ [2, 3, 2, 2, 3]).1 = [4, 9, 4, 4, 9] := by decide

end Tart.C16
