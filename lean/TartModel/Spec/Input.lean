import TartModel.Impl.Input
import TartModel.Spec.Scalars
/-
  Specification side of C04/C05: what it means for a Python value to be a spec-coerced value of
  an input type (June-2018 §3, input coercion tables).  Written from the specification text.
-/
namespace Tart.Spec
open Tart

/-- coerced leaf of scalar type `tn` -/
def InLeafOK (tn : String) (v : PyVal) : Prop :=
  match tn with
  | "Int" => ∃ i : Int, v = .int i ∧ minInt ≤ i ∧ i ≤ maxInt
  | "Float" => FloatWire v
  | "String" => StrWire v
  | "ID" => StrWire v
  | "Boolean" => BoolWire v
  | _ => customOk v = true

mutual
/-- `v` is a coerced value of input type `ty` -/
inductive HasType (S : Schema) : TypeRef → PyVal → Prop
  | null {t : TypeRef} : t.isNonNull = false → HasType S t .none
  | nonNull {t : TypeRef} {v : PyVal} : HasType S t v → v ≠ .none → HasType S (.nonNull t) v
  | list {t : TypeRef} {xs : List PyVal} : (∀ x ∈ xs, HasType S t x) → HasType S (.list t) (.list xs)
  | scalar {tn n' : String} {v : PyVal} : S.findType tn = some (.scalar n') → InLeafOK tn v → HasType S (.named tn) v
  | enum {tn n' : String} {vals : List String} {s : String} :
      S.findType tn = some (.enum n' vals) → s ∈ vals → HasType S (.named tn) (.str s)
  | input {tn n' : String} {fields : List ArgDef} {kvs : List (String × PyVal)} :
      S.findType tn = some (.input n' fields) → FieldsOK S fields kvs → HasType S (.named tn) (.dict kvs)
/-- every member of a coerced input object belongs to a declared field and has that field's type
    (no unknown field is ever delivered) -/
inductive FieldsOK (S : Schema) : List ArgDef → List (String × PyVal) → Prop
  | nil {fields : List ArgDef} : FieldsOK S fields []
  | cons {fields : List ArgDef} {fd : ArgDef} {x : PyVal} {rest : List (String × PyVal)} :
      fd ∈ fields → HasType S fd.type x → FieldsOK S fields rest → FieldsOK S fields ((fd.name, x) :: rest)
end

/-- no `UNDEFINED_VALUE` marker inside (left only by an invalid SDL default value) -/
def noUndef : Nat → PyVal → Bool
  | 0, _ => false
  | _, .undef => false
  | n+1, .list xs => xs.all (noUndef n)
  | n+1, .dict kvs => kvs.all (fun kv => noUndef n kv.2)
  | _, _ => true

end Tart.Spec
