import TartModel.Syntax.Schema
/-
  Specification side of C11: what introspection must report for a schema supplied as SDL —
  definitions plus `extend` definitions (merged as list union, in order) plus the engine's built-in
  scalars and directives.  Written from the specification (§4) and the property statement; the
  model works from the PARSED definitions onward (the lark SDL grammar is not modelled).
-/
namespace Tart.Spec.I
open Tart

structure SField where
  name : String
  args : List ArgDef
  type : TypeRef
  deprecated : Option String := none      -- reason, when @deprecated
  hidden : Bool := false                  -- @nonIntrospectable
deriving Repr, Inhabited

structure SEnumValue where
  name : String
  deprecated : Option String := none
deriving Repr, Inhabited

/-- a type definition or a type extension (same shape: an extension only carries its additions) -/
inductive SDef where
  | scalar (name : String)
  | enum (name : String) (values : List SEnumValue)
  | object (name : String) (fields : List SField) (interfaces : List String)
  | interface (name : String) (fields : List SField)
  | union (name : String) (members : List String)
  | input (name : String) (fields : List ArgDef)
deriving Repr, Inhabited

def SDef.name : SDef → String
  | .scalar n => n | .enum n _ => n | .object n _ _ => n | .interface n _ => n | .union n _ => n | .input n _ => n

def SDef.kind : SDef → String
  | .scalar _ => "SCALAR" | .enum _ _ => "ENUM" | .object _ _ _ => "OBJECT" | .interface _ _ => "INTERFACE"
  | .union _ _ => "UNION" | .input _ _ => "INPUT_OBJECT"

structure SModel where
  defs : List SDef
  exts : List SDef
  directives : List DirectiveDef
  query : String
  mutation : Option String
  subscription : Option String
deriving Repr, Inhabited

/-- one extension applied to a definition of the same name and kind -/
def extend1 (d e : SDef) : SDef :=
  match d, e with
  | .enum n vs, .enum n' vs' => if n == n' then .enum n (vs ++ vs') else d
  | .object n fs is, .object n' fs' is' => if n == n' then .object n (fs ++ fs') (is ++ is') else d
  | .interface n fs, .interface n' fs' => if n == n' then .interface n (fs ++ fs') else d
  | .union n ms, .union n' ms' => if n == n' then .union n (ms ++ ms') else d
  | .input n fs, .input n' fs' => if n == n' then .input n (fs ++ fs') else d
  | _, _ => d

/-- the declared types after extension merging -/
def merged (M : SModel) : List SDef := M.defs.map fun d => M.exts.foldl extend1 d

def builtinScalarNames : List String := ["Boolean", "Date", "DateTime", "Float", "ID", "Int", "String", "Time"]

/-- all types introspection lists: declared ones, then the engine's built-in scalars not redeclared -/
def allTypes (M : SModel) : List SDef :=
  merged M ++ (builtinScalarNames.filter fun n => !(merged M).any (fun d => d.name == n)).map SDef.scalar

def findDef (M : SModel) (n : String) : Option SDef := (allTypes M).find? (fun d => d.name == n)

structure FieldDesc where
  name : String
  args : List ArgDef
  type : TypeRef
  isDeprecated : Bool
  reason : Option String
deriving Repr, Inhabited

structure TypeDesc where
  kind : String
  name : String
  fields : Option (List FieldDesc)            -- OBJECT / INTERFACE, `includeDeprecated: true`
  interfaces : Option (List String)           -- OBJECT
  possibleTypes : Option (List String)        -- INTERFACE / UNION
  enumValues : Option (List SEnumValue)       -- ENUM
  inputFields : Option (List ArgDef)          -- INPUT_OBJECT
deriving Repr, Inhabited

def visibleFields (fs : List SField) : List FieldDesc :=
  (fs.filter fun f => !f.hidden).map fun f => ⟨f.name, f.args, f.type, f.deprecated.isSome, f.deprecated⟩

def implementers (M : SModel) (i : String) : List String :=
  (merged M).filterMap fun d => match d with | .object n _ is => if is.contains i then some n else none | _ => none

def describeType (M : SModel) (d : SDef) : TypeDesc :=
  match d with
  | .scalar n => ⟨"SCALAR", n, none, none, none, none, none⟩
  | .enum n vs => ⟨"ENUM", n, none, none, none, some vs, none⟩
  | .object n fs is => ⟨"OBJECT", n, some (visibleFields fs), some is, none, none, none⟩
  | .interface n fs => ⟨"INTERFACE", n, some (visibleFields fs), none, some (implementers M n), none, none⟩
  | .union n ms => ⟨"UNION", n, none, none, some ms, none, none⟩
  | .input n fs => ⟨"INPUT_OBJECT", n, none, none, none, none, some fs⟩

structure SchemaDesc where
  types : List TypeDesc
  directives : List DirectiveDef
  query : String
  mutation : Option String
  subscription : Option String

def engineDirectives : List DirectiveDef :=
  [⟨"deprecated", [⟨"reason", .named "String", some (.str "No longer supported")⟩], ["FIELD_DEFINITION", "ENUM_VALUE"]⟩,
   ⟨"nonIntrospectable", [], ["FIELD_DEFINITION", "SCHEMA"]⟩,
   ⟨"skip", [⟨"if", .nonNull (.named "Boolean"), none⟩], ["FIELD", "FRAGMENT_SPREAD", "INLINE_FRAGMENT"]⟩,
   ⟨"include", [⟨"if", .nonNull (.named "Boolean"), none⟩], ["FIELD", "FRAGMENT_SPREAD", "INLINE_FRAGMENT"]⟩]

def describe (M : SModel) : SchemaDesc :=
  ⟨(allTypes M).map (describeType M), M.directives ++ engineDirectives, M.query, M.mutation, M.subscription⟩

/-- `__type(name:)`: the entry of `__schema.types` with that name, null for unknown names -/
def describeNamed (M : SModel) (n : String) : Option TypeDesc := (findDef M n).map (describeType M)

/-- `fields(includeDeprecated: false)` / `enumValues(includeDeprecated: false)` -/
def withoutDeprecated (fs : List FieldDesc) : List FieldDesc := fs.filter fun f => !f.isDeprecated
def valuesWithoutDeprecated (vs : List SEnumValue) : List SEnumValue := vs.filter fun v => v.deprecated.isNone

end Tart.Spec.I
