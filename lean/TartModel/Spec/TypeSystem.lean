import TartModel.Spec.Introspection
/-
  Specification side of C12: the schema rules the property lists, as decidable predicates over the
  SDL-level model (definitions + extensions + directive definitions + what is implemented).
  Written from the specification (§3) and the property statement.
-/
namespace Tart.Spec.TS
open Tart Tart.Spec.I

def nodup (l : List String) : Bool :=
  match l with
  | [] => true
  | a :: as => !as.contains a && nodup as

def defNames (M : SModel) : List String := M.defs.map (·.name) ++ builtinScalarNames.filter (fun n => !(M.defs.any (·.name == n)))

def isDefined (M : SModel) (n : String) : Bool := (defNames M).contains n

def kindOf (M : SModel) (n : String) : Option String :=
  match M.defs.find? (fun d => d.name == n) with
  | some d => some d.kind
  | none => if builtinScalarNames.contains n then some "SCALAR" else none

def isInputKind (M : SModel) (n : String) : Bool :=
  match kindOf M n with | some "SCALAR" | some "ENUM" | some "INPUT_OBJECT" => true | _ => false

def isOutputKind (M : SModel) (n : String) : Bool :=
  match kindOf M n with | some "SCALAR" | some "ENUM" | some "OBJECT" | some "INTERFACE" | some "UNION" => true | _ => false

def allFieldsOf (d : SDef) : List SField := match d with | .object _ fs _ => fs | .interface _ fs => fs | _ => []
def inputFieldsOf (d : SDef) : List ArgDef := match d with | .input _ fs => fs | _ => []

/-- every type named by a field, an argument, an input field, a directive argument -/
def referencedTypes (M : SModel) : List String :=
  (M.defs ++ M.exts).flatMap (fun d => (allFieldsOf d).flatMap (fun f => f.type.baseName :: f.args.map (·.type.baseName)) ++ (inputFieldsOf d).map (·.type.baseName)) ++
  M.directives.flatMap (fun dd => dd.args.map (·.type.baseName))

/-- sub-typing for interface conformance (§3.6.1): equal, or object/member of the abstract type, through list / non-null -/
def isSubType (M : SModel) (merged : List SDef) : TypeRef → TypeRef → Bool
  | .nonNull a, .nonNull b => isSubType M merged a b
  | .nonNull a, b => isSubType M merged a b
  | .list a, .list b => isSubType M merged a b
  | .named a, .named b =>
    a == b ||
    (match merged.find? (fun d => d.name == b) with
     | some (.union _ ms) => ms.contains a
     | some (.interface i _) => (match merged.find? (fun d => d.name == a) with | some (.object _ _ is) => is.contains i | _ => false)
     | _ => false)
  | _, _ => false

def fieldConforms (M : SModel) (merged : List SDef) (ifield ofield : SField) : Bool :=
  isSubType M merged ofield.type ifield.type &&
  ifield.args.all (fun ia => ofield.args.any (fun oa => oa.name == ia.name && oa.type == ia.type)) &&
  ofield.args.all (fun oa => ifield.args.any (fun ia => ia.name == oa.name) || !(oa.type.isNonNull && oa.default.isNone))

def memberNames (d : SDef) : List String :=
  match d with
  | .enum _ vs => vs.map (·.name) | .object _ fs _ => fs.map (·.name) | .interface _ fs => fs.map (·.name)
  | .union _ ms => ms | .input _ fs => fs.map (·.name) | .scalar _ => []

def interfacesOf (d : SDef) : List String := match d with | .object _ _ is => is | _ => []

/-- what the extensions appended to a definition: the tail of the merged member list -/
def appended (own all : List String) : List String := all.drop own.length

/-- no member added by an extension repeats a member of the definition, of another extension or of itself -/
def extensionMembersFresh (M : SModel) : Bool :=
  M.defs.all fun d =>
    let m := M.exts.foldl extend1 d
    let x := appended (memberNames d) (memberNames m)
    let xi := appended (interfacesOf d) (interfacesOf m)
    nodup x && x.all (fun n => !(memberNames d).contains n) && nodup xi && xi.all (fun n => !(interfacesOf d).contains n)

/-- the rules the property lists: (tag, holds) -/
def rules (M : SModel) (implementedScalars : List String) : List (String × Bool) :=
  let mg := merged M
  [("duplicate-type-definition", nodup (M.defs.map (·.name))),
   ("duplicate-directive-definition", nodup (M.directives.map (·.name) ++ ["deprecated", "nonIntrospectable", "skip", "include"])),
   ("undefined-type", (referencedTypes M).all (isDefined M)),
   ("non-input-type-in-input-position",
    (M.defs ++ M.exts).all fun d => (allFieldsOf d).all (fun f => f.args.all fun a => !isDefined M a.type.baseName || isInputKind M a.type.baseName) &&
                                      (inputFieldsOf d).all (fun a => !isDefined M a.type.baseName || isInputKind M a.type.baseName)),
   ("implements-non-interface",
    mg.all fun d => match d with | .object _ _ is => is.all (fun i => kindOf M i == some "INTERFACE") | _ => true),
   ("interface-not-honoured",
    mg.all fun d => match d with
      | .object _ fs is => is.all fun i =>
          match mg.find? (fun x => x.name == i) with
          | some (.interface _ ifs) => ifs.all fun ifd => match fs.find? (fun f => f.name == ifd.name) with | some ofd => fieldConforms M mg ifd ofd | none => false
          | _ => true
      | _ => true),
   ("missing-query-root", kindOf M M.query == some "OBJECT"),
   ("undefined-root", (match M.mutation with | some n => isDefined M n | none => true) &&
                      (match M.subscription with | some n => isDefined M n | none => true)),
   ("object-without-fields", mg.all fun d => match d with | .object _ fs _ => !fs.isEmpty | _ => true),
   ("union-containing-itself", mg.all fun d => match d with | .union n ms => !ms.contains n | _ => true),
   ("duplicate-enum-value", mg.all fun d => match d with | .enum _ vs => nodup (vs.map (·.name)) | _ => true),
   ("invalid-extension", M.exts.all fun e => match M.defs.find? (fun d => d.name == e.name) with | some d => d.kind == e.kind | none => false),
   ("extension-duplicate-member", extensionMembersFresh M),
   ("scalar-without-implementation", M.defs.all fun d => match d with | .scalar n => implementedScalars.contains n || builtinScalarNames.contains n | _ => true)]

def broken (rs : List (String × Bool)) : List String := rs.filterMap fun r => if r.2 then none else some r.1

/-- schema rules of the property violated by the model (empty = an engine may be built) -/
def violations (M : SModel) (implementedScalars : List String) : List String := broken (rules M implementedScalars)

/-- rules of the GraphQL specification the property does NOT list (reported for information only;
    the check never requires the engine to refuse these) -/
def beyond (M : SModel) : List String :=
  let mg := merged M
  broken
  [("non-output-type-in-output-position",
    (M.defs ++ M.exts).all fun d => (allFieldsOf d).all fun f => !isDefined M f.type.baseName || isOutputKind M f.type.baseName),
   ("root-not-an-object", (match M.mutation with | some n => !isDefined M n || kindOf M n == some "OBJECT" | none => true) &&
                          (match M.subscription with | some n => !isDefined M n || kindOf M n == some "OBJECT" | none => true)),
   ("non-object-type-without-members", mg.all fun d => match d with
      | .interface _ fs => !fs.isEmpty | .input _ fs => !fs.isEmpty | .enum _ vs => !vs.isEmpty | .union _ ms => !ms.isEmpty | _ => true),
   ("union-member-not-an-object", mg.all fun d => match d with | .union n ms => ms.all (fun x => x == n || kindOf M x == some "OBJECT") | _ => true),
   ("duplicate-member-in-definition", M.defs.all fun d => match d with | .enum _ _ => true | _ => nodup (memberNames d) && nodup (interfacesOf d))]

end Tart.Spec.TS
