import TartModel.Impl.Exec
import TartModel.Spec.Scalars
/-
  Specification side of C03: what it means for a response value to conform to the schema.
  Written from the property statement / June-2018 §6.4.3, not from the executor.
-/
namespace Tart.Spec
open Tart

/-- a leaf of scalar type `tn` has the scalar's wire type -/
def LeafOK (tn : String) (v : PyVal) : Prop :=
  match tn with
  | "Int" => IntWire v
  | "Float" => FloatWire v
  | "String" => StrWire v
  | "ID" => StrWire v
  | "Boolean" => BoolWire v
  | _ => customOk v = true          -- custom scalar: whatever its own `coerce_output` lets through

mutual
/-- `v` conforms to output type `ty`: lists where lists are declared, no null at a non-null
    position, leaves of the scalar's wire type, enum results among the declared values, objects
    whose every member is the completed value of a field of the object type, abstract positions
    completed as one of their possible object types. -/
inductive Conforms (S : Schema) : TypeRef → PyVal → Prop
  | null {t : TypeRef} : t.isNonNull = false → Conforms S t .none
  | nonNull {t : TypeRef} {v : PyVal} : Conforms S t v → v ≠ .none → Conforms S (.nonNull t) v
  | list {t : TypeRef} {xs : List PyVal} : (∀ x ∈ xs, Conforms S t x) → Conforms S (.list t) (.list xs)
  | scalar {tn n' : String} {v : PyVal} : S.findType tn = some (.scalar n') → LeafOK tn v → Conforms S (.named tn) v
  | enum {tn n' : String} {vals : List String} {s : String} :
      S.findType tn = some (.enum n' vals) → s ∈ vals → Conforms S (.named tn) (.str s)
  | object {tn rt : String} {kvs : List (String × PyVal)} :
      (rt = tn ∨ (S.isAbstract tn = true ∧ rt ∈ S.possibleTypes tn)) → S.isObject rt = true →
      MembersOK S rt kvs → Conforms S (.named tn) (.dict kvs)
/-- every member of a response object is the completed value of a field of object type `rt` -/
inductive MembersOK (S : Schema) : String → List (String × PyVal) → Prop
  | nil {rt : String} : MembersOK S rt []
  | cons {rt fn k : String} {fd : FieldDef} {x : PyVal} {rest : List (String × PyVal)} :
      findFieldDef S rt fn = some fd → Conforms S fd.type x → MembersOK S rt rest → MembersOK S rt ((k, x) :: rest)
end

end Tart.Spec
