import TartModel.Syntax.Document
/-
  Specification side of C06/C07: the validation rules of the June-2018 specification (§5) that the
  project documents as supported, as decidable predicates over (schema, document).  Written from
  the specification text: each rule is global ("no fragment reaches itself through any nesting",
  "every variable use is position-compatible, also inside list and object literals"), not a
  transcription of the engine's site-by-site checks.
-/
namespace Tart.Spec.V
open Tart

/-- The four places where the engine is known to deviate from the specification (known findings
    KF-C07-3/4/5, KF-C06-2).  `spec` switches them all off: that IS the specification. -/
structure Mode where
  dunderExempt : Bool := false            -- any selected field named `__…` is exempt from fields-exist
  inlineSpreadUnchecked : Bool := false   -- inline fragments are never checked by fragment-spread-is-possible
  nestedVarsUnchecked : Bool := false     -- variables inside list / object literals are not usage-checked
  singleRootCountsSelections : Bool := false  -- single-root-field counts selections, not response keys

def Mode.spec : Mode := {}
def Mode.engine : Mode := ⟨true, true, true, true⟩

/-! ### type helpers -/

def isComposite (S : Schema) (n : String) : Bool :=
  match S.findType n with
  | some (.object _ _ _) | some (.interface _ _) | some (.union _ _) => true
  | _ => false

def isInputType (S : Schema) (n : String) : Bool :=
  match S.findType n with
  | some (.scalar _) | some (.enum _ _) | some (.input _ _) => true
  | _ => false

def isLeafType (S : Schema) (n : String) : Bool :=
  match S.findType n with
  | some (.scalar _) | some (.enum _ _) => true
  | _ => false

/-- field definition of `name` on composite type `p`, meta-fields included -/
def fieldOn (S : Schema) (p name : String) : Option FieldDef :=
  if name == "__typename" then (if isComposite S p then some { name := "__typename", type := .nonNull (.named "String"), args := [] } else none)
  else if p == S.queryType && name == "__schema" then some { name := "__schema", type := .nonNull (.named "__Schema"), args := [] }
  else if p == S.queryType && name == "__type" then
    some { name := "__type", type := .named "__Type", args := [⟨"name", .nonNull (.named "String"), none⟩] }
  else S.findField p name

def nodup (l : List String) : Bool :=
  match l with
  | [] => true
  | a :: as => !as.contains a && nodup as

/-! ### the typed walk -/

inductive Visit where
  | field (parent : Option String) (name : String) (fd : Option FieldDef) (args : List Arg) (dirs : List Directive) (hasSub : Bool)
  | inline (parent : Option String) (tc : Option String) (dirs : List Directive)
  | spread (parent : Option String) (name : String) (dirs : List Directive)

/-- every selection below `sels`, with the type it is selected on (`none`: unknown, a rule already failed above) -/
def visits : Nat → Schema → Option String → List Selection → List Visit
  | 0, _, _, _ => []
  | n+1, S, parent, sels =>
    sels.flatMap fun sel =>
      match sel with
      | .field _ name args dirs _ ss =>
        let fd := parent.bind fun p => fieldOn S p name
        -- selections on the introspection types (`__Schema`, `__Type`, …) are outside this model: unknown parent
        let child := fd.bind fun d => if d.type.baseName.startsWith "__" then none else some d.type.baseName
        Visit.field parent name fd args dirs (!ss.isEmpty) :: visits n S child ss
      | .inline tc dirs ss =>
        Visit.inline parent tc dirs :: visits n S (match tc with | some t => some t | none => parent) ss
      | .spread name dirs => [Visit.spread parent name dirs]

def opRoot (S : Schema) (k : OpKind) : Option String :=
  match k with
  | .query => some S.queryType
  | .mutation => S.mutationType
  | .subscription => S.subscriptionType

def opVisits (fuel : Nat) (S : Schema) (op : Operation) : List Visit := visits fuel S (opRoot S op.kind) op.sels
def fragVisits (fuel : Nat) (S : Schema) (fr : Fragment) : List Visit := visits fuel S (some fr.typeCond) fr.sels

def allVisits (fuel : Nat) (S : Schema) (d : Document) : List Visit :=
  d.operations.flatMap (opVisits fuel S) ++ d.fragments.flatMap (fragVisits fuel S)

/-- every directive occurrence with its location name -/
def directiveSites (fuel : Nat) (S : Schema) (d : Document) : List (String × List Directive) :=
  d.operations.map (fun op => (match op.kind with | .query => "QUERY" | .mutation => "MUTATION" | .subscription => "SUBSCRIPTION", op.dirs)) ++
  d.fragments.map (fun fr => ("FRAGMENT_DEFINITION", fr.dirs)) ++
  (allVisits fuel S d).map fun v =>
    match v with
    | .field _ _ _ _ dirs _ => ("FIELD", dirs)
    | .inline _ _ dirs => ("INLINE_FRAGMENT", dirs)
    | .spread _ _ dirs => ("FRAGMENT_SPREAD", dirs)

/-! ### values -/

/-- a literal is acceptable at input type `ty` (variables are the business of the variable rules) -/
def litOK : Nat → Schema → TypeRef → Value → Bool
  | 0, _, _, _ => false
  | n+1, S, ty, v =>
    match v with
    | .var _ => true
    | _ =>
    match ty with
    | .nonNull t => (match v with | .null => false | _ => litOK n S t v)
    | .list t =>
      match v with
      | .null => true
      | .list items => items.all (litOK n S t)
      | _ => litOK n S t v
    | .named tn =>
      match v with
      | .null => true
      | _ =>
      match S.findType tn with
      | some (.scalar _) =>
        match tn, v with
        | "Int", .int l => (match parseIntLexeme l with | some i => -2147483648 ≤ i && i ≤ 2147483647 | none => false)
        | "Int", _ => false
        | "Float", .int _ => true
        | "Float", .float _ => true       -- (lexemes overflowing binary64 are refused by the engine: not generated)
        | "Float", _ => false
        | "String", .str _ => true
        | "String", _ => false
        | "Boolean", .bool _ => true
        | "Boolean", _ => false
        | "ID", .str _ => true
        | "ID", .int _ => true
        | "ID", _ => false
        | _, .str s => s != "BAD" && s != "BADRAISE"          -- harness custom scalar (refuses "BAD", raises on "BADRAISE")
        | _, .int _ => true
        | _, .bool _ => true
        | _, _ => false
      | some (.enum _ vals) => (match v with | .enum x => vals.contains x | _ => false)
      | some (.input _ fields) =>
        match v with
        | .obj fs =>
          fs.all (fun kv => match fields.find? (fun fd => fd.name == kv.1) with
                            | some fd => litOK n S fd.type kv.2
                            | none => false) &&
          fields.all (fun fd => !(fd.type.isNonNull && fd.default.isNone) || fs.any (fun kv => kv.1 == fd.name))
        | _ => false
      | _ => true                          -- unknown type: another rule's business

/-- object literals have unique field names, at every depth -/
def objFieldsUnique : Nat → Value → Bool
  | 0, _ => true
  | n+1, v =>
    match v with
    | .list items => items.all (objFieldsUnique n)
    | .obj fs => nodup (fs.map (·.1)) && fs.all (fun kv => objFieldsUnique n kv.2)
    | _ => true

/-- all variable names occurring in a value -/
def varsOf : Nat → Value → List String
  | 0, _ => []
  | n+1, v =>
    match v with
    | .var x => [x]
    | .list items => items.flatMap (varsOf n)
    | .obj fs => fs.flatMap (fun kv => varsOf n kv.2)
    | _ => []

/-- typed variable uses: (variable, type of the position, the position has a default value) -/
def varUses : Nat → Schema → TypeRef → Bool → Value → List (String × TypeRef × Bool)
  | 0, _, _, _, _ => []
  | n+1, S, ty, hasDefault, v =>
    match v with
    | .var x => [(x, ty, hasDefault)]
    | .list items =>
      (match ty with
       | .list t => items.flatMap (varUses n S t false)
       | .nonNull (.list t) => items.flatMap (varUses n S t false)
       | _ => [])
    | .obj fs =>
      (match S.findType ty.baseName with
       | some (.input _ fields) =>
         fs.flatMap fun kv =>
           match fields.find? (fun fd => fd.name == kv.1) with
           | some fd => varUses n S fd.type fd.default.isSome kv.2
           | none => []
       | _ => [])
    | _ => []

/-! ### variables of an operation, through fragment spreads -/

/-- fragments reachable from a selection set through spreads at any nesting -/
def spreadNames : Nat → List Selection → List String
  | 0, _ => []
  | n+1, sels =>
    sels.flatMap fun sel =>
      match sel with
      | .field _ _ _ _ _ ss => spreadNames n ss
      | .inline _ _ ss => spreadNames n ss
      | .spread name _ => [name]

def reachable : Nat → Document → List String → List String → List String
  | 0, _, _, seen => seen
  | n+1, d, todo, seen =>
    match todo with
    | [] => seen
    | f :: rest =>
      if seen.contains f then reachable n d rest seen
      else
        match d.fragments.find? (fun fr => fr.name == f) with
        | none => reachable n d rest (seen ++ [f])
        | some fr => reachable n d (rest ++ spreadNames 1000 fr.sels) (seen ++ [f])

def argUsesOfVisits (fuel : Nat) (S : Schema) (vs : List Visit) : List (String × TypeRef × Bool) :=
  vs.flatMap fun v =>
    let dirUses (dirs : List Directive) : List (String × TypeRef × Bool) :=
      dirs.flatMap fun d =>
        match S.directives.find? (fun dd => dd.name == d.name) with
        | some dd => d.args.flatMap fun a =>
            match dd.args.find? (fun ad => ad.name == a.name) with
            | some ad => varUses fuel S ad.type ad.default.isSome a.value
            | none => []
        | none => []
    match v with
    | .field _ _ fd args dirs _ =>
      (match fd with
       | some d => args.flatMap fun a =>
           match d.args.find? (fun ad => ad.name == a.name) with
           | some ad => varUses fuel S ad.type ad.default.isSome a.value
           | none => []
       | none => []) ++ dirUses dirs
    | .inline _ _ dirs => dirUses dirs
    | .spread _ _ dirs => dirUses dirs

def allVarsOfVisits (fuel : Nat) (vs : List Visit) : List String :=
  vs.flatMap fun v =>
    let dv (dirs : List Directive) := dirs.flatMap fun d => d.args.flatMap fun a => varsOf fuel a.value
    match v with
    | .field _ _ _ args dirs _ => args.flatMap (fun a => varsOf fuel a.value) ++ dv dirs
    | .inline _ _ dirs => dv dirs
    | .spread _ _ dirs => dv dirs

def opFragments (fuel : Nat) (d : Document) (op : Operation) : List Fragment :=
  (reachable fuel d (spreadNames fuel op.sels) []).filterMap fun n => d.fragments.find? (fun fr => fr.name == n)

def opDirVars (fuel : Nat) (op : Operation) : List String :=
  op.dirs.flatMap fun d => d.args.flatMap fun a => varsOf fuel a.value

def opAllVars (fuel : Nat) (S : Schema) (d : Document) (op : Operation) : List String :=
  allVarsOfVisits fuel (opVisits fuel S op) ++ opDirVars fuel op ++
  (opFragments fuel d op).flatMap fun fr => allVarsOfVisits fuel (fragVisits fuel S fr) ++ fr.dirs.flatMap fun dd => dd.args.flatMap fun a => varsOf fuel a.value

def opTypedUses (fuel : Nat) (S : Schema) (d : Document) (op : Operation) : List (String × TypeRef × Bool) :=
  argUsesOfVisits fuel S (opVisits fuel S op) ++ (opFragments fuel d op).flatMap fun fr => argUsesOfVisits fuel S (fragVisits fuel S fr)

/-- `IsVariableUsageAllowed` / `AreTypesCompatible` of §5.8.5 -/
def typesCompatible : TypeRef → TypeRef → Bool
  | .nonNull v, .nonNull l => typesCompatible v l
  | _, .nonNull _ => false
  | .nonNull v, l => typesCompatible v l
  | .list v, .list l => typesCompatible v l
  | _, .list _ => false
  | .list _, _ => false
  | .named a, .named b => a == b

def usageAllowed (varType : TypeRef) (varHasDefault : Bool) (locType : TypeRef) (locHasDefault : Bool) : Bool :=
  match locType, varType with
  | .nonNull l, .nonNull _ => typesCompatible varType (.nonNull l)
  | .nonNull l, v => (varHasDefault || locHasDefault) && typesCompatible v l
  | l, v => typesCompatible v l

/-! ### the rules -/

def ruleOperationNameUniqueness (d : Document) : Bool := nodup (d.operations.filterMap (·.name))
def ruleLoneAnonymous (d : Document) : Bool := !(d.operations.any (·.name.isNone)) || d.operations.length == 1

/-- static response keys of a selection set (through fragments and inline fragments) -/
def rootKeys : Nat → Document → List Selection → List String → List String × List String
  | 0, _, _, vis => ([], vis)
  | n+1, d, sels, vis =>
    sels.foldl (fun (acc : List String × List String) sel =>
      match sel with
      | .field .. => (if acc.1.contains sel.key then acc.1 else acc.1 ++ [sel.key], acc.2)
      | .inline _ _ ss => let r := rootKeys n d ss acc.2; (r.1.foldl (fun ks k => if ks.contains k then ks else ks ++ [k]) acc.1, r.2)
      | .spread name _ =>
        if acc.2.contains name then acc else
        match d.fragments.find? (fun fr => fr.name == name) with
        | none => (acc.1, acc.2 ++ [name])
        | some fr => let r := rootKeys n d fr.sels (acc.2 ++ [name]); (r.1.foldl (fun ks k => if ks.contains k then ks else ks ++ [k]) acc.1, r.2)) ([], vis)

/-- the engine's variant: at most one selection per level, descending through a lone fragment -/
def singleSelection : Nat → Document → List Selection → Bool
  | 0, _, _ => true
  | n+1, d, sels =>
    match sels with
    | [] => true
    | [.spread name _] => (match d.fragments.find? (fun fr => fr.name == name) with | some fr => singleSelection n d fr.sels | none => true)
    | [.inline _ _ ss] => singleSelection n d ss
    | [_] => true
    | _ => false

def ruleSingleRootField (m : Mode) (fuel : Nat) (d : Document) : Bool :=
  d.operations.all fun op => op.kind != .subscription ||
    (if m.singleRootCountsSelections then singleSelection fuel d op.sels else (rootKeys fuel d op.sels []).1.length == 1)

def ruleFieldsExist (m : Mode) (vs : List Visit) : Bool :=
  vs.all fun v => match v with | .field (some _) name none _ _ _ => m.dunderExempt && name.startsWith "__" | _ => true

def ruleLeafSelections (S : Schema) (vs : List Visit) : Bool :=
  vs.all fun v =>
    match v with
    | .field _ _ (some fd) _ _ hasSub =>
      if isLeafType S fd.type.baseName then !hasSub
      else if isComposite S fd.type.baseName || fd.type.baseName.startsWith "__" then hasSub else true
    | _ => true

def dirArgsOK (S : Schema) (dirs : List Directive) (f : DirectiveDef → Directive → Bool) : Bool :=
  dirs.all fun d => match S.directives.find? (fun dd => dd.name == d.name) with | some dd => f dd d | none => true

def forDirs (fuel : Nat) (S : Schema) (d : Document) (f : DirectiveDef → Directive → Bool) : Bool :=
  (directiveSites fuel S d).all fun site => dirArgsOK S site.2 f

def ruleArgumentNames (fuel : Nat) (S : Schema) (d : Document) (vs : List Visit) : Bool :=
  (vs.all fun v => match v with
    | .field _ _ (some fd) args _ _ => args.all fun a => fd.args.any (fun ad => ad.name == a.name)
    | _ => true) &&
  forDirs fuel S d fun dd dn => dn.args.all fun a => dd.args.any (fun ad => ad.name == a.name)

def ruleArgumentUniqueness (fuel : Nat) (S : Schema) (d : Document) (vs : List Visit) : Bool :=
  (vs.all fun v => match v with | .field _ _ _ args _ _ => nodup (args.map (·.name)) | _ => true) &&
  (directiveSites fuel S d).all fun site => site.2.all fun dn => nodup (dn.args.map (·.name))

def requiredOK (defs : List ArgDef) (args : List Arg) : Bool :=
  defs.all fun ad => !(ad.type.isNonNull && ad.default.isNone) || args.any (fun a => a.name == ad.name)

def ruleRequiredArguments (fuel : Nat) (S : Schema) (d : Document) (vs : List Visit) : Bool :=
  (vs.all fun v => match v with | .field _ _ (some fd) args _ _ => requiredOK fd.args args | _ => true) &&
  forDirs fuel S d fun dd dn => requiredOK dd.args dn.args

def argsValuesOK (fuel : Nat) (S : Schema) (defs : List ArgDef) (args : List Arg) : Bool :=
  args.all fun a => match defs.find? (fun ad => ad.name == a.name) with | some ad => litOK fuel S ad.type a.value | none => true

def ruleValuesOfCorrectType (fuel : Nat) (S : Schema) (d : Document) (vs : List Visit) : Bool :=
  (vs.all fun v => match v with | .field _ _ (some fd) args _ _ => argsValuesOK fuel S fd.args args | _ => true) &&
  forDirs fuel S d (fun dd dn => argsValuesOK fuel S dd.args dn.args) &&
  d.operations.all fun op => op.varDefs.all fun vd => match vd.default with | some dv => litOK fuel S vd.type dv | none => true

def ruleInputFieldUniqueness (fuel : Nat) (S : Schema) (d : Document) (vs : List Visit) : Bool :=
  (vs.all fun v => match v with | .field _ _ _ args _ _ => args.all (fun a => objFieldsUnique fuel a.value) | _ => true) &&
  ((directiveSites fuel S d).all fun site => site.2.all fun dn => dn.args.all fun a => objFieldsUnique fuel a.value) &&
  d.operations.all fun op => op.varDefs.all fun vd => match vd.default with | some dv => objFieldsUnique fuel dv | none => true

def ruleFragmentNameUniqueness (d : Document) : Bool := nodup (d.fragments.map (·.name))

def typeConds (d : Document) (vs : List Visit) : List String :=
  d.fragments.map (·.typeCond) ++ vs.filterMap fun v => match v with | .inline _ (some tc) _ => some tc | _ => none

def ruleFragmentTypeExistence (S : Schema) (d : Document) (vs : List Visit) : Bool :=
  (typeConds d vs).all fun tc => (S.findType tc).isSome

def ruleFragmentsOnComposite (S : Schema) (d : Document) (vs : List Visit) : Bool :=
  (typeConds d vs).all fun tc => (S.findType tc).isNone || isComposite S tc

def allSpreads (vs : List Visit) : List String := vs.filterMap fun v => match v with | .spread _ n _ => some n | _ => none

def ruleFragmentsUsed (d : Document) (vs : List Visit) : Bool :=
  d.fragments.all fun fr => (allSpreads vs).contains fr.name

def ruleSpreadTargetDefined (d : Document) (vs : List Visit) : Bool :=
  (allSpreads vs).all fun n => d.fragments.any (fun fr => fr.name == n)

/-- no fragment reaches itself through spreads at any nesting -/
def ruleNoCycles (fuel : Nat) (d : Document) : Bool :=
  d.fragments.all fun fr => !(reachable fuel d (spreadNames fuel fr.sels) []).contains fr.name

def overlap (S : Schema) (a b : String) : Bool := (S.possibleTypes a).any fun t => (S.possibleTypes b).contains t

def ruleSpreadPossible (m : Mode) (S : Schema) (d : Document) (vs : List Visit) : Bool :=
  vs.all fun v =>
    match v with
    | .inline (some p) (some tc) _ => m.inlineSpreadUnchecked || !(isComposite S p && isComposite S tc) || overlap S p tc
    | .spread (some p) n _ =>
      (match d.fragments.find? (fun fr => fr.name == n) with
       | some fr => !(isComposite S p && isComposite S fr.typeCond) || overlap S p fr.typeCond
       | none => true)
    | _ => true

def ruleDirectivesDefined (fuel : Nat) (S : Schema) (d : Document) : Bool :=
  (directiveSites fuel S d).all fun site => site.2.all fun dn => S.directives.any (fun dd => dd.name == dn.name)

def ruleDirectiveLocations (fuel : Nat) (S : Schema) (d : Document) : Bool :=
  (directiveSites fuel S d).all fun site => site.2.all fun dn =>
    match S.directives.find? (fun dd => dd.name == dn.name) with | some dd => dd.locations.contains site.1 | none => true

def ruleDirectivesUnique (fuel : Nat) (S : Schema) (d : Document) : Bool :=
  (directiveSites fuel S d).all fun site => nodup (site.2.map (·.name))

def ruleVariableUniqueness (d : Document) : Bool := d.operations.all fun op => nodup (op.varDefs.map (·.name))

def ruleVariablesInputTypes (S : Schema) (d : Document) : Bool :=
  d.operations.all fun op => op.varDefs.all fun vd => isInputType S vd.type.baseName

def ruleVariableUsesDefined (fuel : Nat) (S : Schema) (d : Document) : Bool :=
  d.operations.all fun op => (opAllVars fuel S d op).all fun x => op.varDefs.any (fun vd => vd.name == x)

def ruleVariablesUsed (fuel : Nat) (S : Schema) (d : Document) : Bool :=
  d.operations.all fun op => op.varDefs.all fun vd => (opAllVars fuel S d op).contains vd.name

def topLevelOnly (fuel : Nat) (S : Schema) (d : Document) (op : Operation) : List (String × TypeRef × Bool) :=
  -- uses where the argument value IS the variable: `varUses` with fuel 1 sees nothing deeper
  argUsesOfVisits 1 S (opVisits fuel S op) ++ (opFragments fuel d op).flatMap fun fr => argUsesOfVisits 1 S (fragVisits fuel S fr)

def ruleVariableUsagesAllowed (m : Mode) (fuel : Nat) (S : Schema) (d : Document) : Bool :=
  d.operations.all fun op => (if m.nestedVarsUnchecked then topLevelOnly fuel S d op else opTypedUses fuel S d op).all fun u =>
    match op.varDefs.find? (fun vd => vd.name == u.1) with
    | some vd => usageAllowed vd.type (match vd.default with | some .null => false | some _ => true | none => false) u.2.1 u.2.2
    | none => true

def chk (tag : String) (ok : Bool) : List String := if ok then [] else [tag]

/-- rules on which the engine and the specification agree by construction -/
def commonViolations (fuel : Nat) (S : Schema) (d : Document) : List String :=
  let vs := allVisits fuel S d
  chk "operation-name-uniqueness" (ruleOperationNameUniqueness d) ++
  chk "lone-anonymous-operation" (ruleLoneAnonymous d) ++
  chk "leaf-field-selections" (ruleLeafSelections S vs) ++
  chk "argument-names" (ruleArgumentNames fuel S d vs) ++
  chk "argument-uniqueness" (ruleArgumentUniqueness fuel S d vs) ++
  chk "required-arguments" (ruleRequiredArguments fuel S d vs) ++
  chk "values-of-correct-type" (ruleValuesOfCorrectType fuel S d vs) ++
  chk "input-object-field-uniqueness" (ruleInputFieldUniqueness fuel S d vs) ++
  chk "fragment-name-uniqueness" (ruleFragmentNameUniqueness d) ++
  chk "fragment-spread-type-existence" (ruleFragmentTypeExistence S d vs) ++
  chk "fragments-on-composite-types" (ruleFragmentsOnComposite S d vs) ++
  chk "fragment-must-be-used" (ruleFragmentsUsed d vs) ++
  chk "fragment-spread-target-defined" (ruleSpreadTargetDefined d vs) ++
  chk "fragment-spreads-must-not-form-cycles" (ruleNoCycles fuel d) ++
  chk "directives-are-defined" (ruleDirectivesDefined fuel S d) ++
  chk "directives-are-in-valid-locations" (ruleDirectiveLocations fuel S d) ++
  chk "directives-are-unique-per-location" (ruleDirectivesUnique fuel S d) ++
  chk "variable-uniqueness" (ruleVariableUniqueness d) ++
  chk "variables-are-input-types" (ruleVariablesInputTypes S d) ++
  chk "all-variable-uses-defined" (ruleVariableUsesDefined fuel S d) ++
  chk "all-variables-used" (ruleVariablesUsed fuel S d)

/-- the four rules where the engine's variant differs (`m`) -/
def modeViolations (m : Mode) (fuel : Nat) (S : Schema) (d : Document) : List String :=
  chk "single-root-field" (ruleSingleRootField m fuel d) ++
  chk "field-selections-on-objects-interfaces-and-unions-types" (ruleFieldsExist m (allVisits fuel S d)) ++
  chk "fragment-spread-is-possible" (ruleSpreadPossible m S d (allVisits fuel S d)) ++
  chk "all-variable-usages-are-allowed" (ruleVariableUsagesAllowed m fuel S d)

/-- the supported rules a document violates (tags as in docs/graphql-query-rules-supported.md) -/
def violations (m : Mode) (fuel : Nat) (S : Schema) (d : Document) : List String :=
  commonViolations fuel S d ++ modeViolations m fuel S d

/-- the specification's verdict -/
def valid (fuel : Nat) (S : Schema) (d : Document) : Bool := (violations .spec fuel S d).isEmpty

/-- the engine's verdict as modelled: the specification with the four known deviations -/
def engineAccepts (fuel : Nat) (S : Schema) (d : Document) : Bool := (violations .engine fuel S d).isEmpty

end Tart.Spec.V
