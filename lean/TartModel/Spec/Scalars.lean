import TartModel.Base.PyPrims
/-
  Specification side of C10: wire types and accepted input kinds of the five built-in
  scalars, written from the GraphQL June-2018 text (§3.5), not from the code.
-/
namespace Tart.Spec
open Tart

def minInt : Int := -2147483648      -- −2^31
def maxInt : Int := 2147483647       --  2^31 − 1

/-- Int on the wire: an integral number within signed 32 bits. (An integral `float` such as
    `1.0` is an integral JSON number; `coerce_output` passes it through unchanged.) -/
def IntWire : PyVal → Prop
  | .int i => minInt ≤ i ∧ i ≤ maxInt
  | .float (.fin m e) => m % (10:Int)^e = 0 ∧ minInt * (10:Int)^e ≤ m ∧ m ≤ maxInt * (10:Int)^e
  | _ => False

def FloatWire : PyVal → Prop
  | .float (.fin _ _) => True
  | _ => False

def StrWire : PyVal → Prop | .str _ => True | _ => False
def BoolWire : PyVal → Prop | .bool _ => True | _ => False

/-- `r` denotes the same number as the resolver value `v` (never truncated or wrapped). -/
def SameNumber (o : Oracle) (v r : PyVal) : Prop :=
  match v with
  | .bool b => r = .int (if b then 1 else 0)
  | .int _ => r = v
  | .float _ => r = v
  | .str s => ∃ f, o.stf s = some f ∧ py_eq r (.float f) = true
  | _ => False

/-- value kinds input coercion must accept, per scalar -/
def AcceptsInt : PyVal → Prop
  | .int i => minInt ≤ i ∧ i ≤ maxInt
  | .float (.fin m e) => m % (10:Int)^e = 0 ∧ minInt * (10:Int)^e ≤ m ∧ m ≤ maxInt * (10:Int)^e
  | _ => False            -- no booleans, no strings, no fractional / out-of-range numbers

def AcceptsFloat : PyVal → Prop
  | .int i => (roundIntToDouble i).isSome      -- representable magnitude
  | .float f => f.isFinite = true
  | _ => False            -- no booleans, no strings, no non-finite numbers

def AcceptsString : PyVal → Prop | .str _ => True | _ => False
def AcceptsBoolean : PyVal → Prop | .bool _ => True | _ => False
def AcceptsID : PyVal → Prop
  | .str _ => True
  | .int _ => True
  | .float f => f.isIntegral = true
  | _ => False

end Tart.Spec
