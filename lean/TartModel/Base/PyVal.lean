/-
  Python value universe used by the model (resolver results, variables, coerced
  arguments, response data).  Floats are exact decimals `m · 10^-e` (every finite
  binary64 value is one); NaN / ±inf are separate constructors.  No Lean `Float`.
-/
namespace Tart

inductive F where
  | nan | inf | ninf
  | fin (m : Int) (e : Nat)          -- value = m / 10^e
deriving Repr, Inhabited, DecidableEq

inductive PyExc where
  | typeError | valueError | overflowError | keyError | attributeError | other
deriving Repr, Inhabited, DecidableEq

/-- Python values.  `dict` has string keys only (JSON objects / resolver dicts);
    `obj` is an instance of a plain user class with attributes (no dunder methods);
    `exc` is an exception instance used as a value; `node` is a literal AST node
    (`IntValueNode(value=…)` etc.); `undef` is tartiflette's `UNDEFINED_VALUE`. -/
inductive PyVal where
  | none
  | undef
  | bool  (b : Bool)
  | int   (i : Int)
  | float (f : F)
  | str   (s : String)
  | list  (xs : List PyVal)
  | tuple (xs : List PyVal)
  | dict  (kvs : List (String × PyVal))
  | obj   (cls : String) (attrs : List (String × PyVal))
  | exc   (tart : Bool) (msg : String) (ext : List (String × PyVal))
  | node  (kind : String) (value : PyVal)
deriving Repr, Inhabited

namespace F
def isFinite : F → Bool | .fin _ _ => true | _ => false
def isIntegral : F → Bool | .fin m e => m % ((10:Int)^e) == 0 | _ => false
/-- truncation toward zero, as `int(float)` -/
def trunc : F → Except PyExc Int
  | .fin m e => .ok (Int.tdiv m ((10:Int)^e))
  | .nan => .error .valueError
  | _ => .error .overflowError
def isZero : F → Bool | .fin m _ => m == 0 | _ => false
def ofInt (i : Int) : F := .fin i 0
/-- exact comparison of two finite decimals -/
def cmpFin (m1 : Int) (e1 : Nat) (m2 : Int) (e2 : Nat) : Ordering :=
  compare (m1 * (10:Int)^e2) (m2 * (10:Int)^e1)
def le : F → F → Bool
  | .nan, _ => false | _, .nan => false
  | .ninf, _ => true | _, .inf => true
  | .inf, _ => false | _, .ninf => false
  | .fin m1 e1, .fin m2 e2 => m1 * (10:Int)^e2 ≤ m2 * (10:Int)^e1
def eq : F → F → Bool
  | .nan, _ => false | _, .nan => false
  | .inf, .inf => true | .ninf, .ninf => true
  | .fin m1 e1, .fin m2 e2 => m1 * (10:Int)^e2 == m2 * (10:Int)^e1
  | _, _ => false
end F

/-- round an integer to the nearest binary64 value (ties to even); `none` = OverflowError. -/
def roundIntToDouble (i : Int) : Option Int :=
  let n := i.natAbs
  let l := Nat.log2 n + 1
  if n == 0 then some 0
  else if l ≤ 53 then some i
  else
    let sh := l - 53
    let q := n >>> sh
    let r := n - (q <<< sh)
    let half := 1 <<< (sh - 1)
    let q' := if r > half then q + 1 else if r < half then q else (if q % 2 == 0 then q else q + 1)
    let v := q' <<< sh
    if v ≥ 2^1024 then none else some (if i < 0 then - (v : Int) else (v : Int))

end Tart
