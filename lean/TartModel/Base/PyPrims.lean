import TartModel.Base.PyVal
/-
  Python primitives used by the translated (T-tier) functions.  Hand-written once,
  total, validated against CPython by the value corpus (harness/tv_scalars.py).
  `Oracle.stf` is CPython's `float(<str>)` (modelled, not verified): `none` = ValueError.
-/
namespace Tart

structure Oracle where
  stf : String → Option F

abbrev PyR := Except PyExc PyVal

@[inline] def bindE {α β : Type} (x : Except PyExc α) (f : α → Except PyExc β) : Except PyExc β :=
  match x with
  | .error e => .error e
  | .ok a => f a

@[simp] theorem bindE_ok {α β} (a : α) (f : α → Except PyExc β) : bindE (.ok a) f = f a := rfl
@[simp] theorem bindE_error {α β} (e : PyExc) (f : α → Except PyExc β) : bindE (.error e : Except PyExc α) f = .error e := rfl

/-- `try: body  except Exception: handler` -/
@[inline] def tryExcept {α : Type} (body : Except PyExc α) (handler : Except PyExc α) : Except PyExc α :=
  match body with
  | .error _ => handler
  | .ok a => .ok a
@[simp] theorem tryExcept_ok {α} (a : α) (h : Except PyExc α) : tryExcept (.ok a) h = .ok a := rfl
@[simp] theorem tryExcept_error {α} (e : PyExc) (h : Except PyExc α) : tryExcept (.error e) h = h := rfl

/-- control result of a `try` body: returned a value, or fell through with the assigned locals -/
inductive Ctl (σ : Type) where
  | ret (v : PyVal)
  | fall (s : σ)

-- isinstance tests -----------------------------------------------------------
def py_is_bool : PyVal → Bool | .bool _ => true | _ => false
def py_is_int : PyVal → Bool | .bool _ => true | .int _ => true | _ => false     -- bool ⊂ int
def py_is_float : PyVal → Bool | .float _ => true | _ => false
def py_is_str : PyVal → Bool | .str _ => true | _ => false
def py_is_node (kinds : List String) : PyVal → Bool | .node k _ => kinds.contains k | _ => false

def py_truthy : PyVal → Bool
  | .none => false | .undef => true
  | .bool b => b | .int i => i != 0
  | .float f => !f.isZero
  | .str s => s != ""
  | .list xs => !xs.isEmpty | .tuple xs => !xs.isEmpty | .dict kvs => !kvs.isEmpty
  | .obj _ _ => true | .exc _ _ _ => true | .node _ _ => true

/-- numeric view of a value for comparisons: bool/int/float -/
def py_num : PyVal → Option F
  | .bool b => some (.fin (if b then 1 else 0) 0)
  | .int i => some (.fin i 0)
  | .float f => some f
  | _ => none

/-- `a <= b` on numbers; anything else: TypeError (strings never reach it in translated code) -/
def py_le (a b : PyVal) : Except PyExc Bool :=
  match py_num a, py_num b with
  | some x, some y => .ok (F.le x y)
  | _, _ => .error .typeError

/-- `a == b` (numbers exact across int/float/bool; strings; None) -/
def py_eq (a b : PyVal) : Bool :=
  match py_num a, py_num b with
  | some x, some y => F.eq x y
  | _, _ =>
    match a, b with
    | .str s, .str t => s == t
    | .none, .none => true
    | _, _ => false

def py_isfinite : PyVal → Except PyExc Bool
  | .bool _ => .ok true
  | .int i => if (roundIntToDouble i).isSome then .ok true else .error .overflowError
  | .float f => .ok f.isFinite
  | _ => .error .typeError

/-- `math.floor(x)` -/
def py_floor : PyVal → PyR
  | .bool b => .ok (.int (if b then 1 else 0))
  | .int i => .ok (.int i)
  | .float (.fin m e) => .ok (.int (m / ((10:Int)^e)))      -- Int `/` floors
  | .float .nan => .error .valueError
  | .float _ => .error .overflowError
  | _ => .error .typeError

/-- strict decimal integer lexeme (what the GraphQL grammar produces) -/
def parseIntLexeme (s : String) : Option Int :=
  let cs := s.toList
  let (neg, ds) := match cs with | '-' :: r => (true, r) | r => (false, r)
  if ds.isEmpty || !ds.all Char.isDigit then none
  else
    let n := ds.foldl (fun acc c => acc * 10 + (c.toNat - '0'.toNat)) 0
    some (if neg then - (n : Int) else (n : Int))

/-- `int(x)`; for strings only strict decimal lexemes are modelled exactly (others: ValueError,
    an approximation — Python also accepts surrounding blanks / underscores / unicode digits). -/
def py_int : PyVal → PyR
  | .bool b => .ok (.int (if b then 1 else 0))
  | .int i => .ok (.int i)
  | .float f => match f.trunc with | .ok i => .ok (.int i) | .error e => .error e
  | .str s => match parseIntLexeme s with | some i => .ok (.int i) | none => .error .valueError
  | _ => .error .typeError

/-- `float(x)` -/
def py_float (o : Oracle) : PyVal → PyR
  | .bool b => .ok (.float (.fin (if b then 1 else 0) 0))
  | .int i => match roundIntToDouble i with | some r => .ok (.float (.fin r 0)) | none => .error .overflowError
  | .float f => .ok (.float f)
  | .str s => match o.stf s with | some f => .ok (.float f) | none => .error .valueError
  | _ => .error .typeError

def opaqueStr : String := "\u0001opaque"

/-- `str(x)`: exact for str/int; other renderings (float repr, containers, objects) are opaque -/
def py_str : PyVal → PyR
  | .str s => .ok (.str s)
  | .int i => .ok (.str (toString i))
  | .bool b => .ok (.str (if b then "True" else "False"))
  | .none => .ok (.str "None")
  | _ => .ok (.str opaqueStr)

def py_bool (v : PyVal) : PyR := .ok (.bool (py_truthy v))

/-- `x.value` on literal AST nodes -/
def py_attr_value : PyVal → PyR
  | .node _ v => .ok v
  | _ => .error .attributeError

def lookupKV (k : String) : List (String × PyVal) → Option PyVal
  | [] => none
  | (k', v) :: r => if k' == k then some v else lookupKV k r

end Tart
