import TartModel.Impl.Input
import TartModel.Proofs.InputLemmas
/-
  literal = variable, structurally: a constant literal and the JSON value it denotes are coerced to
  the same Python value — through non-null, lists (including a single value standing for a list),
  nulls, enums, input objects (with omitted fields and defaults) — provided the leaves agree
  (`LeafAgree`: the C10 theorems for the built-in scalars).
-/
namespace Tart

mutual
/-- the JSON value a constant literal denotes (what a client would put in `variables`) -/
def jsonOf (o : Oracle) : Value → Option PyVal
  | .var _ => none
  | .int l => (parseIntLexeme l).map PyVal.int
  | .float l => (o.stf l).map PyVal.float
  | .str s => some (.str s)
  | .bool b => some (.bool b)
  | .null => some .none
  | .enum n => some (.str n)
  | .list vs => (jsonOfList o vs).map PyVal.list
  | .obj fs => (jsonOfFields o fs).map PyVal.dict
def jsonOfList (o : Oracle) : List Value → Option (List PyVal)
  | [] => some []
  | v :: vs => match jsonOf o v, jsonOfList o vs with | some j, some js => some (j :: js) | _, _ => none
def jsonOfFields (o : Oracle) : List (String × Value) → Option (List (String × PyVal))
  | [] => some []
  | (k, v) :: fs => match jsonOf o v, jsonOfFields o fs with | some j, some js => some ((k, j) :: js) | _, _ => none
end

/-- a literal of the natural shape for its position (what values-of-correct-type accepts), leaves
    constrained by `Leaf` -/
inductive NatLit (S : Schema) (Leaf : String → Value → Prop) : TypeRef → Value → Prop
  | null (t : TypeRef) (h : t.isNonNull = false) : NatLit S Leaf t .null
  | nonNull (t : TypeRef) (v : Value) (hv : v ≠ .null) (h : NatLit S Leaf t v) : NatLit S Leaf (.nonNull t) v
  | list (t : TypeRef) (vs : List Value) (h : ∀ v ∈ vs, NatLit S Leaf t v) : NatLit S Leaf (.list t) (.list vs)
  | single (t : TypeRef) (v : Value) (hl : ∀ vs, v ≠ .list vs) (hn : v ≠ .null) (h : NatLit S Leaf t v) :
      NatLit S Leaf (.list t) v
  | scalar (tn nm : String) (node : Value) (hs : S.findType tn = some (.scalar nm)) (hn : node ≠ .null)
      (hl : Leaf tn node) : NatLit S Leaf (.named tn) node
  | enum (tn nm : String) (vals : List String) (x : String) (hs : S.findType tn = some (.enum nm vals)) :
      NatLit S Leaf (.named tn) (.enum x)
  | input (tn nm : String) (fields : List ArgDef) (fs : List (String × Value))
      (hs : S.findType tn = some (.input nm fields)) (hu : (fs.map (·.1)).Nodup)
      (hk : ∀ kv ∈ fs, ∃ fd ∈ fields, fd.name = kv.1)
      (hf : ∀ kv ∈ fs, ∀ fd ∈ fields, fd.name = kv.1 → NatLit S Leaf fd.type kv.2) : NatLit S Leaf (.named tn) (.obj fs)

/-- the leaves agree: a literal the scalar's `parse_literal` accepts and the JSON value it denotes give the
    same result through `coerce_input` -/
def LeafAgree (o : Oracle) (Leaf : String → Value → Prop) : Prop :=
  ∀ tn node j r, Leaf tn node → jsonOf o node = some j → scalarLit o tn node = .ok r → r ≠ .undef → scalarIn o tn j = .ok r

theorem jsonOf_ne_none (o : Oracle) (node : Value) (j : PyVal) (hn : node ≠ .null) (h : jsonOf o node = some j) : j ≠ .none := by
  cases node <;> simp [jsonOf] at h <;> first | exact absurd rfl hn | (try obtain ⟨_, _, rfl⟩ := h) <;> (try subst h) <;> simp

theorem jsonOf_not_list (o : Oracle) (node : Value) (j : PyVal) (hl : ∀ vs, node ≠ .list vs) (h : jsonOf o node = some j) :
    ∀ xs, j ≠ .list xs := by
  intro xs
  cases node <;> simp [jsonOf] at h <;> first | exact absurd rfl (hl _) | (try obtain ⟨_, _, rfl⟩ := h) <;> (try subst h) <;> simp

theorem mk'_nil (v : PyVal) : CoRes.mk' v [] = ⟨v, []⟩ := by simp [CoRes.mk']

/-- the recursive statement -/
def LitVarAt (S : Schema) (o : Oracle) (Leaf : String → Value → Prop) (n : Nat) : Prop :=
  ∀ flag ty node j v, NatLit S Leaf ty node → jsonOf o node = some j →
    coerceLiteral n S o none flag ty node = some v → coerceInput n S o ty j = ⟨v, []⟩

theorem natLit_jsonOf_not_var {S : Schema} {Leaf : String → Value → Prop} {o : Oracle} {node : Value} {j : PyVal}
    (h : jsonOf o node = some j) : isMissingVariable node none = false := by
  cases node <;> simp [jsonOf] at h <;> simp [isMissingVariable]

theorem list_items_agree {S : Schema} {o : Oracle} {Leaf : String → Value → Prop} {n : Nat} (ih : LitVarAt S o Leaf n) (t : TypeRef) :
    ∀ (vs : List Value) (js rs : List PyVal), (∀ v ∈ vs, NatLit S Leaf t v) → jsonOfList o vs = some js →
      allSome (vs.map (litListItem (coerceLiteral n S o none) none t)) = some rs →
      js.map (coerceInput n S o t) = rs.map (fun r => (⟨r, []⟩ : CoRes))
  | [], js, rs, _, hj, hr => by
    simp [jsonOfList] at hj; simp [allSome] at hr; subst hj; subst hr; rfl
  | v :: vs, js, rs, hn, hj, hr => by
    simp only [jsonOfList] at hj
    cases hjv : jsonOf o v with
    | none => simp [hjv] at hj
    | some j0 =>
      cases hjs : jsonOfList o vs with
      | none => simp [hjv, hjs] at hj
      | some js0 =>
        simp [hjv, hjs] at hj; subst hj
        have hnv : isMissingVariable v none = false := natLit_jsonOf_not_var (S := S) (Leaf := Leaf) hjv
        simp only [List.map_cons, litListItem, hnv, Bool.false_eq_true, ↓reduceIte] at hr
        cases hv0 : coerceLiteral n S o none false t v with
        | none => simp [hv0, allSome] at hr
        | some r0 =>
          cases hrs : allSome (vs.map (litListItem (coerceLiteral n S o none) none t)) with
          | none => simp [hv0, allSome, hrs] at hr
          | some rs0 =>
            simp [hv0, allSome, hrs] at hr; subst hr
            have h1 := ih false t v j0 r0 (hn v (by simp)) hjv hv0
            have h2 := list_items_agree ih t vs js0 rs0 (fun x hx => hn x (by simp [hx])) hjs hrs
            simp [h1, h2]

/-! ### input objects -/

theorem lookupLast_some_mem (k : String) (fs : List (String × Value)) (vn : Value) (h : lookupLast k fs = some vn) : (k, vn) ∈ fs := by
  unfold lookupLast at h
  cases hf : fs.reverse.find? (fun p => p.1 == k) with
  | none => simp [hf] at h
  | some p =>
    simp [hf] at h
    have hm := List.mem_of_find?_eq_some hf
    have hp := List.find?_some hf
    simp at hp
    obtain ⟨a, b⟩ := p
    simp at hp h; subst hp; subst h
    simpa using hm

theorem lookupLast_none_notin (k : String) (fs : List (String × Value)) (h : lookupLast k fs = none) : ∀ kv ∈ fs, kv.1 ≠ k := by
  unfold lookupLast at h
  cases hf : fs.reverse.find? (fun p => p.1 == k) with
  | some p => simp [hf] at h
  | none =>
    intro kv hkv hk
    have := List.find?_eq_none.mp hf kv (by simpa using hkv)
    simp [hk] at this

theorem jsonOfFields_keys (o : Oracle) : ∀ (fs : List (String × Value)) (kvs : List (String × PyVal)),
    jsonOfFields o fs = some kvs → kvs.map (·.1) = fs.map (·.1)
  | [], kvs, h => by simp [jsonOfFields] at h; subst h; rfl
  | (k, v) :: fs, kvs, h => by
    simp only [jsonOfFields] at h
    cases hj : jsonOf o v with
    | none => simp [hj] at h
    | some j =>
      cases hjs : jsonOfFields o fs with
      | none => simp [hj, hjs] at h
      | some js =>
        simp [hj, hjs] at h; subst h
        simp [jsonOfFields_keys o fs js hjs]

theorem jsonOfFields_mem (o : Oracle) : ∀ (fs : List (String × Value)) (kvs : List (String × PyVal)),
    jsonOfFields o fs = some kvs → ∀ k vn, (k, vn) ∈ fs → ∃ jv, jsonOf o vn = some jv ∧ (k, jv) ∈ kvs
  | [], _, _, k, vn, hm => by cases hm
  | (k0, v0) :: fs, kvs, h, k, vn, hm => by
    simp only [jsonOfFields] at h
    cases hj : jsonOf o v0 with
    | none => simp [hj] at h
    | some j =>
      cases hjs : jsonOfFields o fs with
      | none => simp [hj, hjs] at h
      | some js =>
        simp [hj, hjs] at h; subst h
        simp only [List.mem_cons] at hm
        rcases hm with heq | hm
        · cases heq; exact ⟨j, hj, by simp⟩
        · obtain ⟨jv, h1, h2⟩ := jsonOfFields_mem o fs js hjs k vn hm
          exact ⟨jv, h1, by simp [h2]⟩

theorem lookupKV_of_mem_nodup : ∀ (kvs : List (String × PyVal)) (k : String) (v : PyVal),
    (kvs.map (·.1)).Nodup → (k, v) ∈ kvs → lookupKV k kvs = some v
  | [], _, _, _, hm => by cases hm
  | (k0, v0) :: rest, k, v, hnd, hm => by
    simp only [List.map_cons, List.nodup_cons] at hnd
    simp only [List.mem_cons] at hm
    unfold lookupKV
    rcases hm with heq | hm
    · cases heq; simp
    · have hne : k0 ≠ k := by
        intro he; subst he
        exact hnd.1 (List.mem_map.mpr ⟨(k0, v), hm, rfl⟩)
      simp [hne]
      exact lookupKV_of_mem_nodup rest k v hnd.2 hm

theorem lookupKV_none_of_notin : ∀ (kvs : List (String × PyVal)) (k : String), (∀ kv ∈ kvs, kv.1 ≠ k) → lookupKV k kvs = none
  | [], _, _ => rfl
  | (k0, v0) :: rest, k, h => by
    unfold lookupKV
    have : k0 ≠ k := h (k0, v0) (by simp)
    simp [this]
    exact lookupKV_none_of_notin rest k (fun kv hkv => h kv (by simp [hkv]))

theorem litField_agree {S : Schema} {o : Oracle} {Leaf : String → Value → Prop} {n : Nat} (ih : LitVarAt S o Leaf n)
    (fields : List ArgDef) (fs : List (String × Value)) (kvs : List (String × PyVal))
    (hu : (fs.map (·.1)).Nodup) (hj : jsonOfFields o fs = some kvs)
    (hf : ∀ kv ∈ fs, ∀ fd ∈ fields, fd.name = kv.1 → NatLit S Leaf fd.type kv.2)
    (fd : ArgDef) (hfd : fd ∈ fields) (r : Option (String × PyVal))
    (h : litField (coerceLiteral n S o none) none fs fd = some r) :
    inField (coerceInput n S o) (coerceLiteral n S o none false) kvs fd = r.map fun kv => (kv.1, (⟨kv.2, []⟩ : CoRes)) := by
  have hkeys := jsonOfFields_keys o fs kvs hj
  unfold litField at h
  unfold inField
  cases hl : lookupLast fd.name fs with
  | none =>
    have hnone : lookupKV fd.name kvs = none := by
      apply lookupKV_none_of_notin
      intro kv hkv hk
      have : kv.1 ∈ fs.map (·.1) := by rw [← hkeys]; exact List.mem_map.mpr ⟨kv, hkv, rfl⟩
      obtain ⟨kv', hkv', he⟩ := List.mem_map.mp this
      exact lookupLast_none_notin fd.name fs hl kv' hkv' (by rw [he, hk])
    simp only [hl, hnone] at h ⊢
    cases hd : fd.default with
    | some d =>
      simp only [hd] at h ⊢
      cases hv : coerceLiteral n S o none false fd.type d with
      | none => simp [hv] at h
      | some dv => simp [hv] at h; subst h; simp [CoRes.ok]
    | none =>
      simp only [hd] at h ⊢
      by_cases hnn : fd.type.isNonNull = true
      · simp [hnn] at h
      · simp [hnn] at h ⊢; subst h; rfl
  | some vn =>
    have hmem := lookupLast_some_mem fd.name fs vn hl
    obtain ⟨jv, hjv, hjmem⟩ := jsonOfFields_mem o fs kvs hj fd.name vn hmem
    have hkv : lookupKV fd.name kvs = some jv := lookupKV_of_mem_nodup kvs fd.name jv (by rw [hkeys]; exact hu) hjmem
    have hnv : isMissingVariable vn none = false := natLit_jsonOf_not_var (S := S) (Leaf := Leaf) hjv
    simp only [hl, hkv, hnv, Bool.false_eq_true, ↓reduceIte] at h ⊢
    cases hv : coerceLiteral n S o none false fd.type vn with
    | none => simp [hv] at h
    | some v0 =>
      simp [hv] at h; subst h
      have := ih false fd.type vn jv v0 (hf (fd.name, vn) hmem fd hfd rfl) hjv hv
      simp [this]

theorem litFields_agree {S : Schema} {o : Oracle} {Leaf : String → Value → Prop} {n : Nat} (ih : LitVarAt S o Leaf n)
    (fields : List ArgDef) (fs : List (String × Value)) (kvs : List (String × PyVal))
    (hu : (fs.map (·.1)).Nodup) (hj : jsonOfFields o fs = some kvs)
    (hf : ∀ kv ∈ fs, ∀ fd ∈ fields, fd.name = kv.1 → NatLit S Leaf fd.type kv.2) :
    ∀ (fds : List ArgDef) (rs : List (Option (String × PyVal))), (∀ fd ∈ fds, fd ∈ fields) →
      allSome (fds.map (litField (coerceLiteral n S o none) none fs)) = some rs →
      (fds.map (inField (coerceInput n S o) (coerceLiteral n S o none false) kvs)).filterMap id =
        (rs.filterMap id).map fun kv => (kv.1, (⟨kv.2, []⟩ : CoRes))
  | [], rs, _, h => by simp [allSome] at h; subst h; rfl
  | fd :: fds, rs, hsub, h => by
    simp only [List.map_cons] at h
    cases h0 : litField (coerceLiteral n S o none) none fs fd with
    | none => simp [h0, allSome] at h
    | some r0 =>
      cases h1 : allSome (fds.map (litField (coerceLiteral n S o none) none fs)) with
      | none => simp [h0, h1, allSome] at h
      | some rs0 =>
        simp [h0, h1, allSome] at h; subst h
        have a0 := litField_agree ih fields fs kvs hu hj hf fd (hsub fd (by simp)) r0 h0
        have a1 := litFields_agree ih fields fs kvs hu hj hf fds rs0 (fun x hx => hsub x (by simp [hx])) h1
        simp only [List.map_cons, List.filterMap_cons, a0]
        cases r0 <;> simp [a1]

theorem litWrapped_nonvar (flag : Bool) (node : Value) (body : Option PyVal) (hn : node ≠ .null) (hv : ∀ x, node ≠ .var x) :
    litWrapped none flag node body = body := by
  cases node <;> simp [litWrapped] <;> first | exact absurd rfl hn | exact absurd rfl (hv _)

theorem jsonOf_not_var (o : Oracle) (node : Value) (j : PyVal) (h : jsonOf o node = some j) : ∀ x, node ≠ .var x := by
  intro x hx; subst hx; simp [jsonOf] at h

theorem map_value_mk : ∀ rs : List PyVal, rs.map ((fun x : CoRes => x.value) ∘ fun r => ({ value := r, errors := [] } : CoRes)) = rs
  | [] => rfl
  | a :: as => by simp [map_value_mk as]

theorem flatMap_errors_mk : ∀ rs : List PyVal, (rs.map fun r => ({ value := r, errors := [] } : CoRes)).flatMap (fun x => x.errors) = []
  | [] => rfl
  | a :: as => by simp [flatMap_errors_mk as]

theorem map_kv_value_mk : ∀ l : List (String × PyVal),
    l.map ((fun p : String × CoRes => (p.1, p.2.value)) ∘ fun kv => (kv.1, ({ value := kv.2, errors := [] } : CoRes))) = l
  | [] => rfl
  | a :: as => by simp [map_kv_value_mk as]

theorem flatMap_kv_errors_mk : ∀ l : List (String × PyVal),
    (l.map fun kv => (kv.1, ({ value := kv.2, errors := [] } : CoRes))).flatMap (fun x => x.2.errors) = []
  | [] => rfl
  | a :: as => by simp [flatMap_kv_errors_mk as]

/-- literal = variable, for every type, every natural literal, any nesting depth -/
theorem lit_var_all (S : Schema) (o : Oracle) (Leaf : String → Value → Prop) (hleaf : LeafAgree o Leaf) :
    ∀ n, LitVarAt S o Leaf n := by
  intro n
  induction n with
  | zero => intro flag ty node j v _ _ h; simp [coerceLiteral] at h
  | succ n ih =>
    intro flag ty node j v hnat hj h
    cases hnat with
    | @null t hnn =>
      simp [jsonOf] at hj; subst hj
      cases ty with
      | nonNull t => simp [TypeRef.isNonNull] at hnn
      | list t => simp [coerceLiteral, litWrapped] at h; subst h; simp [coerceInput, CoRes.ok]
      | named tn => simp [coerceLiteral, litWrapped] at h; subst h; simp [coerceInput, CoRes.ok]
    | @nonNull t v0 hv hn =>
      have hjn := jsonOf_ne_none o node j hv hj
      have h' : coerceLiteral n S o none true t node = some v := by
        cases node <;> simp [coerceLiteral] at h <;> first | exact absurd rfl hv | exact h
      have := ih true t node j v hn hj h'
      cases j <;> simp [coerceInput] <;> first | exact absurd rfl hjn | exact this
    | @list t vs hall =>
      simp only [jsonOf, Option.map_eq_some_iff] at hj
      obtain ⟨js, hjs, rfl⟩ := hj
      simp only [coerceLiteral, litWrapped, litList, Option.map_eq_some_iff] at h
      obtain ⟨rs, hrs, rfl⟩ := h
      have := list_items_agree ih t vs js rs hall hjs hrs
      simp only [coerceInput, this, List.map_map]
      have hv := map_value_mk rs
      have he := flatMap_errors_mk rs
      rw [hv, he, mk'_nil]
    | @single t v0 hl hn hnat0 =>
      have hnv := jsonOf_not_var o node j hj
      rw [coerceLiteral, litWrapped_nonvar flag node _ hn hnv] at h
      have hlit : litList (coerceLiteral n S o none) none t node = (coerceLiteral n S o none false t node).map fun v => PyVal.list [v] := by
        cases node <;> first | rfl | exact absurd rfl (hl _)
      rw [hlit, Option.map_eq_some_iff] at h
      obtain ⟨v0, hv0, rfl⟩ := h
      have := ih false t node j v0 hnat0 hj hv0
      have hjn := jsonOf_ne_none o node j hn hj
      have hjl := jsonOf_not_list o node j hl hj
      cases j <;> simp [coerceInput, this, mk'_nil] <;> first | exact absurd rfl hjn | exact absurd rfl (hjl _)
    | @scalar tn nm node0 hs hn hl =>
      have hnv := jsonOf_not_var o node j hj
      rw [coerceLiteral, litWrapped_nonvar flag node _ hn hnv] at h
      simp only [litNamed, hs] at h
      have hjn := jsonOf_ne_none o node j hn hj
      cases hsl : scalarLit o tn node with
      | error e => simp [hsl] at h
      | ok r =>
        have hr : r ≠ .undef ∧ r = v := by
          cases r <;> simp [hsl] at h <;> (subst h; simp)
        obtain ⟨hru, rfl⟩ := hr
        have hin := hleaf tn node j r hl hj hsl hru
        have : coerceInput (n+1) S o (.named tn) j = inNamed (coerceInput n S o) (coerceLiteral n S o none false) S o tn j := by
          cases j <;> simp [coerceInput] <;> exact absurd rfl hjn
        rw [this]
        simp only [inNamed, hs, hin]
        cases r <;> simp [CoRes.ok] <;> exact absurd rfl hru
    | @enum tn nm vals x hs =>
      simp [jsonOf] at hj; subst hj
      simp only [coerceLiteral, litWrapped, litNamed, hs] at h
      by_cases hc : vals.contains x = true
      · simp [hc] at h; obtain ⟨hmem, rfl⟩ := h
        simp [coerceInput, inNamed, hs, CoRes.ok, hmem]
      · simp at hc; simp [hc] at h
    | @input tn nm fields fs hs hu hk hf =>
      simp only [jsonOf, Option.map_eq_some_iff] at hj
      obtain ⟨kvs, hkvs, rfl⟩ := hj
      simp only [coerceLiteral, litWrapped, litNamed, hs, Option.map_eq_some_iff] at h
      obtain ⟨rs, hrs, rfl⟩ := h
      have hag := litFields_agree ih fields fs kvs hu hkvs hf fields rs (fun _ h => h) hrs
      have hkeys := jsonOfFields_keys o fs kvs hkvs
      have hunk : (kvs.filterMap fun kv => if fields.any (fun fd => fd.name == kv.1) then none else some "unknown-field") = [] := by
        rw [List.filterMap_eq_nil_iff]
        intro kv hkv
        have : kv.1 ∈ fs.map (·.1) := by rw [← hkeys]; exact List.mem_map.mpr ⟨kv, hkv, rfl⟩
        obtain ⟨kv', hkv', he⟩ := List.mem_map.mp this
        obtain ⟨fd, hfd, hname⟩ := hk kv' hkv'
        have : fields.any (fun fd => fd.name == kv.1) = true := by
          rw [List.any_eq_true]; exact ⟨fd, hfd, by simp [hname, he]⟩
        simp [this]
      simp only [coerceInput, inNamed, hs, hag, hunk, List.append_nil, List.map_map]
      have hv := map_kv_value_mk (rs.filterMap id)
      have he := flatMap_kv_errors_mk (rs.filterMap id)
      rw [hv, he, mk'_nil]

/-! ### a constant literal does not look at the variables -/

mutual
def varFree : Value → Bool
  | .var _ => false
  | .list vs => varFreeList vs
  | .obj fs => varFreeFields fs
  | _ => true
def varFreeList : List Value → Bool
  | [] => true
  | v :: vs => varFree v && varFreeList vs
def varFreeFields : List (String × Value) → Bool
  | [] => true
  | (_, v) :: fs => varFree v && varFreeFields fs
end

theorem varFreeList_mem : ∀ (vs : List Value), varFreeList vs = true → ∀ v ∈ vs, varFree v = true
  | [], _, _, hm => by cases hm
  | v0 :: vs, h, v, hm => by
    simp only [varFreeList, Bool.and_eq_true] at h
    simp only [List.mem_cons] at hm
    rcases hm with rfl | hm
    · exact h.1
    · exact varFreeList_mem vs h.2 v hm

theorem varFreeFields_mem : ∀ (fs : List (String × Value)), varFreeFields fs = true → ∀ kv ∈ fs, varFree kv.2 = true
  | [], _, _, hm => by cases hm
  | (k0, v0) :: fs, h, kv, hm => by
    simp only [varFreeFields, Bool.and_eq_true] at h
    simp only [List.mem_cons] at hm
    rcases hm with rfl | hm
    · exact h.1
    · exact varFreeFields_mem fs h.2 kv hm

/-- SDL default values are constant literals (the SDL grammar has no variables) -/
def DefaultsConst (S : Schema) : Prop :=
  ∀ tn nm fields, S.findType tn = some (.input nm fields) → ∀ fd ∈ fields, ∀ d, fd.default = some d → varFree d = true

theorem varFree_not_missing (node : Value) (vars : Option Vars) (h : varFree node = true) : isMissingVariable node vars = false := by
  cases node <;> simp [varFree] at h <;> simp [isMissingVariable]

theorem litWrapped_varFree (vars : Option Vars) (flag : Bool) (node : Value) (body : Option PyVal) (h : varFree node = true) :
    litWrapped vars flag node body = litWrapped none flag node body := by
  cases node <;> simp [varFree] at h <;> simp [litWrapped]

theorem const_ignores_vars (S : Schema) (o : Oracle) (hS : DefaultsConst S) (vars : Option Vars) :
    ∀ n flag ty node, varFree node = true → coerceLiteral n S o vars flag ty node = coerceLiteral n S o none flag ty node := by
  intro n
  induction n with
  | zero => intro flag ty node _; simp [coerceLiteral]
  | succ n ih =>
    intro flag ty node hvf
    cases ty with
    | nonNull t =>
      cases node <;> simp only [coerceLiteral] <;> exact ih true t _ hvf
    | list t =>
      simp only [coerceLiteral]
      rw [litWrapped_varFree vars flag node _ hvf]
      congr 1
      cases node with
      | list items =>
        simp only [varFree] at hvf
        simp only [litList]
        congr 2
        apply List.map_congr_left
        intro it hit
        have hi := varFreeList_mem items hvf it hit
        simp only [litListItem, varFree_not_missing it _ hi, Bool.false_eq_true, ↓reduceIte]
        exact ih false t it hi
      | _ => simp only [litList]; rw [ih false t _ hvf]
    | named tn =>
      simp only [coerceLiteral]
      rw [litWrapped_varFree vars flag node _ hvf]
      congr 1
      unfold litNamed
      cases hft : S.findType tn with
      | none => rfl
      | some td =>
        cases td with
        | input nm fields =>
          simp only []
          cases node with
          | obj fs =>
            simp only [varFree] at hvf
            simp only []
            congr 2
            apply List.map_congr_left
            intro fd hfd
            unfold litField
            cases hd : fd.default with
            | none =>
              simp only []
              cases hl : lookupLast fd.name fs with
              | none => simp only []
              | some vn =>
                have hvn := varFreeFields_mem fs hvf (fd.name, vn) (lookupLast_some_mem fd.name fs vn hl)
                simp only [varFree_not_missing vn _ hvn, Bool.false_eq_true, ↓reduceIte]
                rw [ih false fd.type vn hvn]
            | some d =>
              have hdv := ih false fd.type d (hS tn nm fields hft fd hfd d hd)
              simp only []
              cases hl : lookupLast fd.name fs with
              | none => simp only [hdv]
              | some vn =>
                have hvn := varFreeFields_mem fs hvf (fd.name, vn) (lookupLast_some_mem fd.name fs vn hl)
                simp only [varFree_not_missing vn _ hvn, Bool.false_eq_true, ↓reduceIte]
                rw [ih false fd.type vn hvn]
          | _ => rfl
        | _ => rfl

theorem coerceLiteral_const_ne_undef (S : Schema) (o : Oracle) :
    ∀ n flag ty node v, coerceLiteral n S o none flag ty node = some v → v ≠ .undef := by
  intro n
  induction n with
  | zero => intro flag ty node v h; simp [coerceLiteral] at h
  | succ n ih =>
    intro flag ty node v h
    cases ty with
    | nonNull t =>
      cases node <;> simp only [coerceLiteral] at h <;> first | exact ih true t _ v h | cases h
    | list t =>
      simp only [coerceLiteral] at h
      rcases litWrapped_const flag node _ v h with ⟨_, rfl⟩ | ⟨_, hb⟩
      · simp
      · unfold litList at hb
        split at hb <;> simp only [Option.map_eq_some_iff] at hb <;> obtain ⟨_, _, rfl⟩ := hb <;> simp
    | named tn =>
      simp only [coerceLiteral] at h
      rcases litWrapped_const flag node _ v h with ⟨_, rfl⟩ | ⟨_, hb⟩
      · simp
      · unfold litNamed at hb
        cases hft : S.findType tn with
        | none => simp [hft] at hb
        | some td =>
          cases td with
          | scalar nm =>
            simp only [hft] at hb
            cases hsl : scalarLit o tn node with
            | error e => simp [hsl] at hb
            | ok r => cases r <;> simp [hsl] at hb <;> (subst hb; simp)
          | enum nm vals =>
            simp only [hft] at hb
            cases node <;> simp at hb
            obtain ⟨_, rfl⟩ := hb; simp
          | input nm fields =>
            simp only [hft] at hb
            cases node <;> simp at hb
            obtain ⟨_, _, rfl⟩ := hb; simp
          | object nm fs is => simp [hft] at hb
          | interface nm fs => simp [hft] at hb
          | union nm ms => simp [hft] at hb

theorem varFreeList_of_mem : ∀ (vs : List Value), (∀ v ∈ vs, varFree v = true) → varFreeList vs = true
  | [], _ => rfl
  | v :: vs, h => by
    simp only [varFreeList, Bool.and_eq_true]
    exact ⟨h v (by simp), varFreeList_of_mem vs (fun x hx => h x (by simp [hx]))⟩

theorem varFreeFields_of_mem : ∀ (fs : List (String × Value)), (∀ kv ∈ fs, varFree kv.2 = true) → varFreeFields fs = true
  | [], _ => rfl
  | (k, v) :: fs, h => by
    simp only [varFreeFields, Bool.and_eq_true]
    exact ⟨h (k, v) (by simp), varFreeFields_of_mem fs (fun x hx => h x (by simp [hx]))⟩

/-- natural literals contain no variable -/
theorem natLit_varFree {S : Schema} {Leaf : String → Value → Prop} (hLeaf : ∀ tn node, Leaf tn node → varFree node = true)
    (node : Value) (ty : TypeRef) (h : NatLit S Leaf ty node) : varFree node = true := by
  induction h with
  | null t _ => rfl
  | nonNull t v _ _ ih => exact ih
  | list t vs _ ih => simp only [varFree]; exact varFreeList_of_mem vs ih
  | single t v _ _ _ ih => exact ih
  | scalar tn nm node _ _ hl => exact hLeaf tn node hl
  | enum tn nm vals x _ => rfl
  | input tn nm fields fs _ _ hk _ ih =>
    simp only [varFree]
    apply varFreeFields_of_mem
    intro kv hkv
    obtain ⟨fd, hfd, hn⟩ := hk kv hkv
    exact ih kv hkv fd hfd hn

end Tart
