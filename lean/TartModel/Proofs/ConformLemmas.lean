/- Helper lemmas for C03: the executor model only produces conforming values. -/
import TartModel.Spec.Conforms
import TartModel.Properties.C10
import TartModel.Proofs.ExecLemmas
namespace Tart
open Tart.Spec

def MemOK (S : Schema) (rt : String) (kv : String × PyVal) : Prop :=
  ∃ fn fd, findFieldDef S rt fn = some fd ∧ Conforms S fd.type kv.2

theorem membersOK_of_forall (S : Schema) (rt : String) : ∀ kvs : List (String × PyVal),
    (∀ kv ∈ kvs, MemOK S rt kv) → MembersOK S rt kvs
  | [], _ => .nil
  | (k, x) :: rest, h => by
    obtain ⟨fn, fd, hf, hc⟩ := h (k, x) (List.mem_cons_self ..)
    exact .cons hf hc (membersOK_of_forall S rt rest (fun kv hkv => h kv (List.mem_cons_of_mem _ hkv)))

def JobConf (S : Schema) : Job → PyVal → Prop
  | .complete ty _ _ _ _ _, v => Conforms S ty v
  | .fields tn _ _ _ _, v => ∃ kvs, v = .dict kvs ∧ ∀ kv ∈ kvs, MemOK S tn kv

def RecConf (S : Schema) (rec : Rec) : Prop := ∀ job st v, (rec job st).1 = .ok v → JobConf S job v

theorem scalarOut_leaf (o : Oracle) (tn : String) (v r : PyVal) (h : scalarOut o tn v = .ok r) : LeafOK tn r := by
  unfold scalarOut at h
  unfold LeafOK
  split at h
  · exact (C10.int_out_wire o v r h).1
  · exact (C10.float_out_wire o v r h).1
  · exact (C10.string_out_wire o v r h).1
  · exact (C10.boolean_out_wire o v r h).1
  · exact (C10.id_out_wire o v r h).1
  · rename_i h1 h2 h3 h4 h5
    have hc : customOk r = true := by
      by_cases hn : isNullMe v = true
      · simp [hn] at h; subst h; simp [customOk, isJsonKind]
      · by_cases hk : customOk v = true
        · simp [hn, hk] at h; subst h; exact hk
        · simp [hn, hk] at h
    split <;> first | (exact absurd rfl ‹_›) | exact hc

theorem catchField_ok (nn : Bool) (nodes : List Selection) (p : List PathSeg) (r : Except Exn PyVal) (st : St) (x : PyVal)
    (h : (catchField nn nodes p (r, st)).1 = .ok x) : r = .ok x ∨ (x = .none ∧ nn = false) := by
  cases r with
  | ok v => simp [catchField] at h; exact Or.inl (by rw [h])
  | error e =>
    by_cases hnn : nn = true
    · simp [catchField, hnn] at h
    · simp [catchField, hnn] at h; exact Or.inr ⟨h.symm, by simpa using hnn⟩

theorem itemStep_conf {S : Schema} {rec : Rec} (hrec : RecConf S rec) (t : TypeRef) (pt fname : String)
    (nodes : List Selection) (path : List PathSeg) (ix : Nat × PyVal) (st : St) (x : PyVal)
    (h : (itemStep rec t pt fname nodes path ix st).1 = .ok x) : Conforms S t x := by
  unfold itemStep at h
  split at h
  · rcases catchField_ok _ _ _ _ _ _ h with h1 | ⟨rfl, hnn⟩
    · cases h1
    · exact .null hnn
  · rcases catchField_ok _ _ _ _ _ _ h with h1 | ⟨rfl, hnn⟩
    · exact hrec (.complete t pt fname nodes _ ix.2) st x (by rw [← h1])
    · exact .null hnn

theorem gatherRes_ok_mem : ∀ (rs : List Res) (vs : List PyVal), gatherRes rs = .ok vs →
    ∀ v ∈ vs, (Except.ok v : Res) ∈ rs
  | [], vs, h => by simp [gatherRes] at h; subst h; simp
  | r :: rs, vs, h => by
    simp only [gatherRes] at h
    cases r with
    | error es => cases hg : gatherRes rs <;> simp [hg] at h
    | ok v0 =>
      cases hg : gatherRes rs with
      | error es => simp [hg] at h
      | ok vs0 =>
        simp [hg] at h; subst h
        intro v hv
        rcases List.mem_cons.mp hv with rfl | hv
        · exact List.mem_cons_self ..
        · exact List.mem_cons_of_mem _ (gatherRes_ok_mem rs vs0 hg v hv)

theorem mapSt_mem {α β σ : Type} (f : α → σ → β × σ) : ∀ (xs : List α) (s : σ) (b : β), b ∈ (mapSt f xs s).1 →
    ∃ a s', a ∈ xs ∧ b = (f a s').1
  | [], s, b, h => by simp [mapSt] at h
  | a :: as, s, b, h => by
    simp only [mapSt, List.mem_cons] at h
    rcases h with rfl | h
    · exact ⟨a, s, List.mem_cons_self .., rfl⟩
    · obtain ⟨a', s', ha, hb⟩ := mapSt_mem f as _ b h
      exact ⟨a', s', List.mem_cons_of_mem _ ha, hb⟩

theorem completeList_conf {S : Schema} {rec : Rec} (hrec : RecConf S rec) (t : TypeRef) (pt fname : String)
    (nodes : List Selection) (path : List PathSeg) (items : List PyVal) (st : St) (v : PyVal)
    (h : (completeList rec t pt fname nodes path items st).1 = .ok v) : Conforms S (.list t) v := by
  unfold completeList at h
  simp only [] at h
  cases hg : gatherRes (mapSt (itemStep rec t pt fname nodes path) (enumFrom 0 items) st).1 with
  | error es => simp [hg] at h
  | ok vs =>
    simp [hg] at h; subst h
    refine .list ?_
    intro x hx
    have hmem := gatherRes_ok_mem _ vs hg x hx
    obtain ⟨a, s', _, hb⟩ := mapSt_mem _ _ _ _ hmem
    exact itemStep_conf hrec t pt fname nodes path a s' x hb.symm

theorem isObject_of_find {S : Schema} {tn n : String} {fs : List FieldDef} {is : List String}
    (h : S.findType tn = some (.object n fs is)) : S.isObject tn = true := by
  simp [Schema.isObject, h]

theorem validRuntimeType_spec {S : Schema} {tn : String} {tnv : PyVal} {rt : String}
    (h : validRuntimeType S tn tnv = some rt) : S.isObject rt = true ∧ rt ∈ S.possibleTypes tn := by
  unfold validRuntimeType at h
  split at h
  · split at h
    · rename_i hc; cases h; simp at hc; exact ⟨hc.1, by simpa using hc.2⟩
    · cases h
  · cases h

theorem completeNamed_conf {S : Schema} {ctx : Ctx} (hS : ctx.S = S) {rec : Rec} (hrec : RecConf S rec) (fuel : Nat)
    (tn pt fname : String) (nodes : List Selection) (path : List PathSeg) (v : PyVal) (st : St) (r : PyVal)
    (h : (completeNamed rec fuel ctx tn pt fname nodes path v st).1 = .ok r) : Conforms S (.named tn) r := by
  subst hS
  unfold completeNamed at h
  split at h
  · rename_i n' hft
    split at h
    · simp at h
    · rename_i r' _ hso
      simp at h; subst h
      exact .scalar hft (scalarOut_leaf _ _ _ _ hso)
    · simp at h
  · rename_i n' vals hft
    split at h
    · split at h
      · rename_i s hc; simp at h; subst h; exact .enum hft (by simpa using hc)
      · simp at h
    · simp at h
  · rename_i n' fs is hft
    obtain ⟨kvs, rfl, hm⟩ := hrec (.fields tn v path _ false) st r h
    exact .object (Or.inl rfl) (isObject_of_find hft) (membersOK_of_forall _ _ _ hm)
  · rename_i n' fs hft
    split at h
    · simp at h
    · rename_i rt hv
      obtain ⟨kvs, rfl, hm⟩ := hrec (.fields rt v path _ false) st r h
      have := validRuntimeType_spec hv
      exact .object (Or.inr ⟨by simp [Schema.isAbstract, hft], this.2⟩) this.1 (membersOK_of_forall _ _ _ hm)
  · rename_i n' ms hft
    split at h
    · simp at h
    · rename_i rt hv
      obtain ⟨kvs, rfl, hm⟩ := hrec (.fields rt v path _ false) st r h
      have := validRuntimeType_spec hv
      exact .object (Or.inr ⟨by simp [Schema.isAbstract, hft], this.2⟩) this.1 (membersOK_of_forall _ _ _ hm)
  · simp at h; subst h; exact .null rfl


/-- a field job built by `fieldJobs` names a field definition of the type -/
def JobsOK (S : Schema) (tn : String) (defs : List FieldJob) : Prop :=
  ∀ d ∈ defs, ∃ fn, findFieldDef S tn fn = some d.2.2

theorem fieldJobs_ok (S : Schema) (tn : String) (coll : Collected) : JobsOK S tn (fieldJobs S tn coll) := by
  intro d hd
  simp only [fieldJobs, List.mem_filterMap] at hd
  obtain ⟨kn, _, hk⟩ := hd
  cases hf : findFieldDef S tn kn.2.head!.fname with
  | none => simp [hf] at hk
  | some fd => simp [hf] at hk; subst hk; exact ⟨_, hf⟩

theorem fieldStep_conf {S : Schema} {ctx : Ctx} {rec : Rec} (hrec : RecConf S rec) (fuel : Nat) (tn : String)
    (parent : PyVal) (path : List PathSeg) (d : FieldJob) (st : St) (x : PyVal)
    (h : (fieldStep rec fuel ctx tn parent path d st).1.2 = .ok x) :
    (fieldStep rec fuel ctx tn parent path d st).1.1 = d.1 ∧ Conforms S d.2.2.type x := by
  unfold fieldStep at h ⊢
  simp only [] at h ⊢
  cases hres : resolveValue fuel ctx tn d.2.2 parent d.2.1 (path ++ [PathSeg.key d.1]) st with
  | mk r st1 =>
    simp only [hres] at h ⊢
    cases r with
    | error e =>
      simp only [] at h ⊢
      refine ⟨trivial, ?_⟩
      rcases catchField_ok _ _ _ _ _ _ h with h1 | ⟨rfl, hnn⟩
      · cases h1
      · exact .null hnn
    | ok v =>
      simp only [] at h ⊢
      refine ⟨trivial, ?_⟩
      rcases catchField_ok _ _ _ _ _ _ h with h1 | ⟨rfl, hnn⟩
      · exact hrec (.complete d.2.2.type tn d.2.2.name d.2.1 _ v) st1 x (by rw [← h1])
      · exact .null hnn

theorem serialSt_conf {S : Schema} {tn : String} (f : FieldJob → St → (String × Res) × St)
    (hf : ∀ d st x, (f d st).1.2 = .ok x → Conforms S d.2.2.type x) :
    ∀ (defs : List FieldJob) (st : St) (kvs : List (String × PyVal)), JobsOK S tn defs →
      (serialSt f defs st).1 = .ok kvs → ∀ kv ∈ kvs, MemOK S tn kv := by
  intro defs
  induction defs with
  | nil => intro st kvs _ h; simp [serialSt] at h; subst h; simp
  | cons d ds ih =>
    intro st kvs hj h
    simp only [serialSt] at h
    cases hfd : f d st with
    | mk kr s1 =>
      cases kr with
      | mk k r =>
        simp only [hfd] at h
        cases r with
        | error es => simp at h
        | ok v =>
          simp only [] at h
          cases hs : serialSt f ds s1 with
          | mk r2 s2 =>
            simp only [hs] at h
            cases r2 with
            | error es => simp at h
            | ok kvs0 =>
              simp at h; subst h
              intro kv hkv
              rcases List.mem_cons.mp hkv with rfl | hkv
              · obtain ⟨fn, hfn⟩ := hj d (List.mem_cons_self ..)
                exact ⟨fn, d.2.2, hfn, hf d st v (by rw [hfd])⟩
              · exact ih s1 kvs0 (fun d' hd' => hj d' (List.mem_cons_of_mem _ hd')) (by rw [hs]) kv hkv

theorem gatherKV_ok_mem : ∀ (rs : List (String × Res)) (kvs : List (String × PyVal)), gatherKV rs = .ok kvs →
    ∀ kv ∈ kvs, (kv.1, (Except.ok kv.2 : Res)) ∈ rs
  | [], kvs, h => by simp [gatherKV] at h; subst h; simp
  | (k, r) :: rs, kvs, h => by
    simp only [gatherKV] at h
    cases r with
    | error es => cases hg : gatherKV rs <;> simp [hg] at h
    | ok v0 =>
      cases hg : gatherKV rs with
      | error es => simp [hg] at h
      | ok vs0 =>
        simp [hg] at h; subst h
        intro kv hkv
        rcases List.mem_cons.mp hkv with rfl | hkv
        · exact List.mem_cons_self ..
        · exact List.mem_cons_of_mem _ (gatherKV_ok_mem rs vs0 hg kv hkv)

theorem orderBy_mem (defs : List FieldJob) (kvs : List (String × PyVal)) (kv : String × PyVal)
    (h : kv ∈ orderBy defs kvs) : ∃ kv' ∈ kvs, kv'.2 = kv.2 := by
  simp only [orderBy, List.mem_filterMap] at h
  obtain ⟨d, _, hd⟩ := h
  cases hl : lookupKV d.1 kvs with
  | none => simp [hl] at hd
  | some v =>
    simp [hl] at hd; subst hd
    -- lookupKV finds a member
    have : ∀ (l : List (String × PyVal)), lookupKV d.1 l = some v → ∃ kv' ∈ l, kv'.2 = v := by
      intro l
      induction l with
      | nil => intro h; simp [lookupKV] at h
      | cons a as ih =>
        intro h
        simp only [lookupKV] at h
        split at h
        · cases h; exact ⟨a, List.mem_cons_self .., rfl⟩
        · obtain ⟨kv', hm, hv⟩ := ih h; exact ⟨kv', List.mem_cons_of_mem _ hm, hv⟩
    exact this kvs hl


theorem executeFields_conf {S : Schema} {ctx : Ctx} {rec : Rec} (hrec : RecConf S rec) (fuel : Nat) (tn : String)
    (parent : PyVal) (path : List PathSeg) (defs : List FieldJob) (hj : JobsOK S tn defs) (serial : Bool) (st : St)
    (v : PyVal) (h : (executeFields rec fuel ctx tn parent path defs serial st).1 = .ok v) :
    ∃ kvs, v = .dict kvs ∧ ∀ kv ∈ kvs, MemOK S tn kv := by
  have hf : ∀ d st x, (fieldStep rec fuel ctx tn parent path d st).1.2 = .ok x → Conforms S d.2.2.type x :=
    fun d st x hx => (fieldStep_conf hrec fuel tn parent path d st x hx).2
  unfold executeFields at h
  by_cases hs : serial = true
  · simp only [hs, if_true] at h
    cases hser : serialSt (fieldStep rec fuel ctx tn parent path) defs st with
    | mk r s1 =>
      simp only [hser] at h
      cases r with
      | error es => simp at h
      | ok kvs =>
        simp at h; subst h
        exact ⟨kvs, rfl, serialSt_conf _ hf defs st kvs hj (by rw [hser])⟩
  · simp only [hs] at h
    cases hser : serialSt (fieldStep rec fuel ctx tn parent path) (defs.filter fun d => !d.2.2.parentConc) st with
    | mk r s1 =>
      simp only [hser] at h
      cases r with
      | error es => simp at h
      | ok kv1 =>
        simp only [] at h
        have h1 := serialSt_conf (tn := tn) _ hf (defs.filter fun d => !d.2.2.parentConc) st kv1
          (fun d hd => hj d ((List.mem_filter.mp hd).1)) (by rw [hser])
        cases hg : gatherKV (mapSt (fieldStep rec fuel ctx tn parent path) (defs.filter fun d => d.2.2.parentConc) s1).1 with
        | error es => simp [hg] at h
        | ok kv2 =>
          simp [hg] at h; subst h
          refine ⟨_, rfl, ?_⟩
          intro kv hkv
          obtain ⟨kv', hm, hv⟩ := orderBy_mem defs (kv1 ++ kv2) kv hkv
          rcases List.mem_append.mp hm with hm1 | hm2
          · obtain ⟨fn, fd, hfd, hc⟩ := h1 kv' hm1
            exact ⟨fn, fd, hfd, by rw [← hv]; exact hc⟩
          · have hmem := gatherKV_ok_mem _ kv2 hg kv' hm2
            obtain ⟨d, s', hd, hb⟩ := mapSt_mem _ _ _ _ hmem
            have hd' := (List.mem_filter.mp hd).1
            obtain ⟨fn, hfn⟩ := hj d hd'
            have : (fieldStep rec fuel ctx tn parent path d s').1.2 = .ok kv'.2 := by rw [← hb]
            exact ⟨fn, d.2.2, hfn, by rw [← hv]; exact hf d s' kv'.2 this⟩

theorem run_conf : ∀ (fuel : Nat) (ctx : Ctx), RecConf ctx.S (run fuel ctx) := by
  intro fuel
  induction fuel with
  | zero => intro ctx job st v h; simp [run] at h
  | succ n ih =>
    intro ctx job st v h
    cases job with
    | complete ty pt fname nodes path x =>
      simp only [JobConf]
      cases ty with
      | nonNull t =>
        simp only [run] at h
        split at h
        · simp at h
        · rename_i r hne
          have := ih ctx (.complete t pt fname nodes path x) st v h
          refine .nonNull this ?_
          intro hv; subst hv
          cases hr : run n ctx (.complete t pt fname nodes path x) st with
          | mk r1 s1 =>
            rw [hr] at h; simp at h; subst h
            exact hne s1 hr
      | list t =>
        simp only [run] at h
        split at h
        · simp at h; subst h; exact .null rfl
        · exact completeList_conf (ih ctx) t pt fname nodes path _ st v h
        · simp at h
      | named tn =>
        simp only [run] at h
        split at h
        · simp at h; subst h; exact .null rfl
        · exact completeNamed_conf rfl (ih ctx) (n+1) tn pt fname nodes path x st v h
    | fields tn parent path collected serial =>
      simp only [run] at h
      exact executeFields_conf (ih ctx) (n+1) tn parent path _ (fieldJobs_ok _ _ _) serial st v h

/-- values `json.dumps(…, allow_nan=False)` accepts -/
inductive JsonOK : PyVal → Prop
  | none : JsonOK .none
  | bool (b : Bool) : JsonOK (.bool b)
  | int (i : Int) : JsonOK (.int i)
  | str (s : String) : JsonOK (.str s)
  | float (m : Int) (e : Nat) : JsonOK (.float (.fin m e))
  | list {xs : List PyVal} : (∀ x ∈ xs, JsonOK x) → JsonOK (.list xs)
  | dict {kvs : List (String × PyVal)} : (∀ kv ∈ kvs, JsonOK kv.2) → JsonOK (.dict kvs)

theorem isJsonKind_ok : ∀ (n : Nat) (v : PyVal), isJsonKind n v = true → JsonOK v := by
  intro n
  induction n with
  | zero => intro v h; simp [isJsonKind] at h
  | succ n ih =>
    intro v h
    cases v with
    | none => exact .none
    | bool b => exact .bool b
    | int i => exact .int i
    | str s => exact .str s
    | float f => cases f <;> simp [isJsonKind, F.isFinite] at h; exact .float _ _
    | list xs =>
      simp only [isJsonKind, List.all_eq_true] at h
      exact .list (fun x hx => ih x (h x hx))
    | dict kvs =>
      simp only [isJsonKind, List.all_eq_true] at h
      exact .dict (fun kv hkv => ih kv.2 (h kv hkv))
    | _ => simp [isJsonKind] at h

theorem leaf_json (tn : String) (v : PyVal) (h : LeafOK tn v) : JsonOK v := by
  unfold LeafOK at h
  split at h
  · cases v with
    | int i => exact .int i
    | float f => cases f <;> first | exact .float _ _ | exact h.elim
    | _ => exact h.elim
  · cases v with
    | float f => cases f <;> first | exact .float _ _ | exact h.elim
    | _ => exact h.elim
  · cases v <;> first | exact .str _ | exact h.elim
  · cases v <;> first | exact .str _ | exact h.elim
  · cases v <;> first | exact .bool _ | exact h.elim
  · simp [customOk] at h; exact isJsonKind_ok _ _ h.1

mutual
theorem conforms_json {S : Schema} : ∀ {ty : TypeRef} {v : PyVal}, Conforms S ty v → JsonOK v
  | _, _, .null _ => .none
  | _, _, .nonNull h _ => conforms_json h
  | _, _, .list h => .list (fun x hx => conforms_json (h x hx))
  | _, _, .scalar _ hl => leaf_json _ _ hl
  | _, _, .enum _ _ => .str _
  | _, _, .object _ _ hm => .dict (members_json hm)
theorem members_json {S : Schema} : ∀ {rt : String} {kvs : List (String × PyVal)}, MembersOK S rt kvs → ∀ kv ∈ kvs, JsonOK kv.2
  | _, _, .nil => by simp
  | _, _, .cons _ hc hr => by
    intro kv hkv
    rcases List.mem_cons.mp hkv with rfl | hkv
    · exact conforms_json hc
    · exact members_json hr kv hkv
end
end Tart
