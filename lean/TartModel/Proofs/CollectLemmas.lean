/- Helper lemmas for C01: collection order / uniqueness, result keys. -/
import TartModel.Impl.Exec
namespace Tart

def Collected.keys (c : Collected) : List String := c.map (·.1)

theorem add_keys (acc : Collected) (k : String) (n : Selection) :
    (acc.add k n).keys = if k ∈ acc.keys then acc.keys else acc.keys ++ [k] := by
  unfold Collected.add Collected.keys
  by_cases h : (acc.any fun p => p.1 == k) = true
  · have hk : k ∈ acc.map (·.1) := by
      simp only [List.any_eq_true] at h
      obtain ⟨p, hp, hpk⟩ := h
      simp only [List.mem_map]
      exact ⟨p, hp, by simpa using hpk⟩
    simp only [h, if_true, hk, List.map_map]
    congr 1
    funext p
    simp only [Function.comp]
    split <;> rfl
  · have hk : k ∉ acc.map (·.1) := by
      intro hk
      simp only [List.mem_map] at hk
      obtain ⟨p, hp, hpk⟩ := hk
      apply h
      simp only [List.any_eq_true]
      exact ⟨p, hp, by simp [hpk]⟩
    simp [h, hk]

theorem add_nodup (acc : Collected) (k : String) (n : Selection) (h : acc.keys.Nodup) : (acc.add k n).keys.Nodup := by
  rw [add_keys]
  by_cases hk : k ∈ acc.keys
  · simp [hk, h]
  · simp only [hk, if_false]
    exact List.nodup_append.mpr ⟨h, by simp, by intro a ha b hb; simp at hb; subst hb; intro hab; exact hk (hab ▸ ha)⟩

theorem add_prefix (acc : Collected) (k : String) (n : Selection) : acc.keys <+: (acc.add k n).keys := by
  rw [add_keys]
  by_cases hk : k ∈ acc.keys
  · simp [hk]
  · simp only [hk, if_false]; exact List.prefix_append _ _

/-- invariant carried through `collectFields`: keys stay duplicate-free and earlier keys keep their place -/
def CollInv (a b : Collected × List String) : Prop := (a.1.keys.Nodup → b.1.keys.Nodup) ∧ a.1.keys <+: b.1.keys

theorem CollInv.refl (a : Collected × List String) : CollInv a a := ⟨id, List.prefix_refl _⟩
theorem CollInv.trans {a b c : Collected × List String} (h1 : CollInv a b) (h2 : CollInv b c) : CollInv a c :=
  ⟨fun h => h2.1 (h1.1 h), List.IsPrefix.trans h1.2 h2.2⟩

theorem foldl_inv {α : Type} (f : Collected × List String → α → Collected × List String)
    (hf : ∀ acc x, CollInv acc (f acc x)) : ∀ (xs : List α) (acc : Collected × List String), CollInv acc (xs.foldl f acc) := by
  intro xs
  induction xs with
  | nil => intro acc; exact CollInv.refl _
  | cons x xs ih => intro acc; exact CollInv.trans (hf acc x) (ih _)

theorem collectFields_inv : ∀ (n : Nat) (ctx : Ctx) (rt : String) (sels : List Selection) (acc : Collected × List String),
    CollInv acc (collectFields n ctx rt sels acc) := by
  intro n
  induction n with
  | zero => intro ctx rt sels acc; simp only [collectFields]; exact CollInv.refl _
  | succ n ih =>
    intro ctx rt sels acc
    simp only [collectFields]
    apply foldl_inv
    intro acc sel
    cases sel with
    | field al nm args dirs loc ss =>
      simp only []
      split
      · exact ⟨fun h => add_nodup _ _ _ h, add_prefix _ _ _⟩
      · exact CollInv.refl _
    | inline tc dirs ss =>
      simp only []
      split
      · exact CollInv.refl _
      · exact ih ctx rt ss acc
    | spread name dirs =>
      simp only []
      split
      · exact CollInv.refl _
      · have h0 : CollInv acc (acc.1, acc.2 ++ [name]) := ⟨id, List.prefix_refl _⟩
        split
        · exact h0
        · split
          · exact h0
          · exact CollInv.trans h0 (ih ctx rt _ _)

theorem collectSubfields_nodup (fuel : Nat) (ctx : Ctx) (rt : String) (nodes : List Selection) :
    (collectSubfields fuel ctx rt nodes).keys.Nodup := by
  unfold collectSubfields
  have : ∀ (ns : List Selection) (acc : Collected × List String), acc.1.keys.Nodup →
      (ns.foldl (fun acc node => if node.fsels.isEmpty then acc else collectFields fuel ctx rt node.fsels acc) acc).1.keys.Nodup := by
    intro ns
    induction ns with
    | nil => intro acc h; exact h
    | cons x xs ih =>
      intro acc h
      simp only [List.foldl]
      apply ih
      split
      · exact h
      · exact (collectFields_inv fuel ctx rt _ acc).1 h
  exact this nodes ([], []) (by simp [Collected.keys])

/-! ### result keys -/

theorem fieldStep_key (rec : Rec) (fuel : Nat) (ctx : Ctx) (tn : String) (parent : PyVal) (path : List PathSeg)
    (d : FieldJob) (st : St) : (fieldStep rec fuel ctx tn parent path d st).1.1 = d.1 := by
  unfold fieldStep
  simp only []
  split <;> rfl

theorem serialSt_keys (f : FieldJob → St → (String × Res) × St) (hk : ∀ d st, (f d st).1.1 = d.1) :
    ∀ (defs : List FieldJob) (st : St) (kvs : List (String × PyVal)),
      (serialSt f defs st).1 = .ok kvs → kvs.map (·.1) = defs.map (·.1) := by
  intro defs
  induction defs with
  | nil => intro st kvs h; simp [serialSt] at h; subst h; rfl
  | cons d ds ih =>
    intro st kvs h
    simp only [serialSt] at h
    have hkd := hk d st
    cases hfd : f d st with
    | mk kr s1 =>
      cases kr with
      | mk k r =>
        rw [hfd] at hkd
        simp only [hfd] at h
        cases r with
        | error es => simp at h
        | ok v =>
          simp only [] at h
          cases hs : serialSt f ds s1 with
          | mk r2 s2 =>
            simp only [hs] at h
            cases r2 with
            | error es => simp at h
            | ok kvs0 =>
              simp at h; subst h
              simp at hkd
              simp [hkd, ih s1 kvs0 (by rw [hs])]

theorem mapSt_keys (f : FieldJob → St → (String × Res) × St) (hk : ∀ d st, (f d st).1.1 = d.1) :
    ∀ (defs : List FieldJob) (st : St), (mapSt f defs st).1.map (·.1) = defs.map (·.1) := by
  intro defs
  induction defs with
  | nil => intro st; rfl
  | cons d ds ih => intro st; simp [mapSt, hk d st, ih]

theorem gatherKV_keys : ∀ (rs : List (String × Res)) (kvs : List (String × PyVal)), gatherKV rs = .ok kvs →
    kvs.map (·.1) = rs.map (·.1)
  | [], kvs, h => by simp [gatherKV] at h; subst h; rfl
  | (k, r) :: rs, kvs, h => by
    simp only [gatherKV] at h
    cases r with
    | error es => cases hg : gatherKV rs <;> simp [hg] at h
    | ok v0 =>
      cases hg : gatherKV rs with
      | error es => simp [hg] at h
      | ok vs0 => simp [hg] at h; subst h; simp [gatherKV_keys rs vs0 hg]

theorem lookupKV_isSome_of_mem (k : String) : ∀ (kvs : List (String × PyVal)), k ∈ kvs.map (·.1) → (lookupKV k kvs).isSome = true
  | [], h => by simp at h
  | (k', v) :: rest, h => by
    simp only [lookupKV]
    by_cases hk : (k' == k) = true
    · simp [hk]
    · simp only [hk]
      apply lookupKV_isSome_of_mem k rest
      simp only [List.map, List.mem_cons] at h
      rcases h with h | h
      · exact absurd (by simp [h]) hk
      · exact h

theorem orderBy_keys (defs : List FieldJob) (kvs : List (String × PyVal))
    (h : ∀ d ∈ defs, d.1 ∈ kvs.map (·.1)) : (orderBy defs kvs).map (·.1) = defs.map (·.1) := by
  unfold orderBy
  induction defs with
  | nil => rfl
  | cons d ds ih =>
    have hd := lookupKV_isSome_of_mem d.1 kvs (h d (List.mem_cons_self ..))
    cases hl : lookupKV d.1 kvs with
    | none => simp [hl] at hd
    | some v =>
      simp only [List.filterMap_cons, hl, Option.map_some, List.map_cons]
      rw [ih (fun x hx => h x (List.mem_cons_of_mem _ hx))]

/-- the response object of a selection set lists exactly the collected fields that exist on the
    type, once each, in collection order -/
theorem executeFields_keys (rec : Rec) (fuel : Nat) (ctx : Ctx) (tn : String) (parent : PyVal) (path : List PathSeg)
    (defs : List FieldJob) (serial : Bool) (st : St) (kvs : List (String × PyVal))
    (h : (executeFields rec fuel ctx tn parent path defs serial st).1 = .ok (.dict kvs)) :
    kvs.map (·.1) = defs.map (·.1) := by
  have hk := fieldStep_key rec fuel ctx tn parent path
  unfold executeFields at h
  by_cases hs : serial = true
  · simp only [hs, if_true] at h
    cases hser : serialSt (fieldStep rec fuel ctx tn parent path) defs st with
    | mk r s1 =>
      simp only [hser] at h
      cases r with
      | error es => simp at h
      | ok kvs0 => simp at h; subst h; exact serialSt_keys _ hk defs st kvs0 (by rw [hser])
  · simp only [hs] at h
    cases hser : serialSt (fieldStep rec fuel ctx tn parent path) (defs.filter fun d => !d.2.2.parentConc) st with
    | mk r s1 =>
      simp only [hser] at h
      cases r with
      | error es => simp at h
      | ok kv1 =>
        simp only [] at h
        have h1 := serialSt_keys _ hk (defs.filter fun d => !d.2.2.parentConc) st kv1 (by rw [hser])
        cases hg : gatherKV (mapSt (fieldStep rec fuel ctx tn parent path) (defs.filter fun d => d.2.2.parentConc) s1).1 with
        | error es => simp [hg] at h
        | ok kv2 =>
          simp [hg] at h; subst h
          have h2 := gatherKV_keys _ kv2 hg
          rw [mapSt_keys _ hk] at h2
          apply orderBy_keys
          intro d hd
          simp only [List.map_append, List.mem_append, h1, h2]
          by_cases hc : d.2.2.parentConc = true
          · right; exact List.mem_map.mpr ⟨d, List.mem_filter.mpr ⟨hd, hc⟩, rfl⟩
          · left; exact List.mem_map.mpr ⟨d, List.mem_filter.mpr ⟨hd, by simpa using hc⟩, rfl⟩

end Tart
