import TartModel.Impl.Exec
/- Helper lemmas about the executor model (error accounting invariants). -/
namespace Tart

/-- `st'` extends `st` by errors whose paths all lie under `p` -/
def Ext (p : List PathSeg) (st st' : St) : Prop :=
  ∃ new, st'.errors = st.errors ++ new ∧ ∀ e ∈ new, p <+: e.path

theorem Ext.refl (p : List PathSeg) (st : St) : Ext p st st := ⟨[], by simp, by simp⟩

theorem Ext.trans {p : List PathSeg} {a b c : St} (h1 : Ext p a b) (h2 : Ext p b c) : Ext p a c := by
  obtain ⟨n1, e1, q1⟩ := h1
  obtain ⟨n2, e2, q2⟩ := h2
  refine ⟨n1 ++ n2, by rw [e2, e1, List.append_assoc], ?_⟩
  intro e he
  rcases List.mem_append.mp he with h | h
  · exact q1 e h
  · exact q2 e h

theorem Ext.weaken {p q : List PathSeg} {a b : St} (hpq : p <+: q) (h : Ext q a b) : Ext p a b := by
  obtain ⟨n, e, hq⟩ := h
  exact ⟨n, e, fun x hx => List.IsPrefix.trans hpq (hq x hx)⟩

/-- a raised `Res` carries at least one error and every error lies under `p` -/
def ResOK (p : List PathSeg) : Res → Prop
  | .error es => es ≠ [] ∧ ∀ e ∈ es, p <+: e.path
  | .ok _ => True

/-- an exception in flight: located errors lie under `p` or are not located yet -/
def ExnOK (p : List PathSeg) : Except Exn PyVal → Prop
  | .error (.multi es) => es ≠ [] ∧ ∀ e ∈ es, e.path = [] ∨ p <+: e.path
  | _ => True

theorem ResOK.weaken {p q : List PathSeg} {r : Res} (hpq : p <+: q) (h : ResOK q r) : ResOK p r := by
  cases r with
  | ok v => trivial
  | error es => exact ⟨h.1, fun e he => List.IsPrefix.trans hpq (h.2 e he)⟩

theorem locate_ne_nil (e : Exn) (nodes : List Selection) (p : List PathSeg) (h : ExnOK p (.error e)) :
    locate e nodes p ≠ [] := by
  cases e with
  | raw k t m x => simp [locate]
  | multi es => simp [locate]; exact h.1

theorem locate_paths (e : Exn) (nodes : List Selection) (p : List PathSeg) (h : ExnOK p (.error e)) :
    ∀ g ∈ locate e nodes p, p <+: g.path := by
  cases e with
  | raw k t m x => intro g hg; simp [locate] at hg; subst hg; exact List.prefix_refl _
  | multi es =>
    intro g hg
    simp only [locate, List.mem_map] at hg
    obtain ⟨g0, hg0, rfl⟩ := hg
    rcases h.2 g0 hg0 with h0 | h0
    · simp [h0]
    · by_cases hp : g0.path.isEmpty = true
      · simp [hp]
      · simp [hp]; exact h0

/-- `catchField` turns an in-flight exception into a located, accounted error -/
theorem catchField_spec (nn : Bool) (nodes : List Selection) (p : List PathSeg)
    (r : Except Exn PyVal) (st0 st : St) (hext : Ext p st0 st) (hr : ExnOK p r) :
    Ext p st0 (catchField nn nodes p (r, st)).2 ∧ ResOK p (catchField nn nodes p (r, st)).1 := by
  cases r with
  | ok v => exact ⟨by simpa [catchField] using hext, by simp [catchField, ResOK]⟩
  | error e =>
    by_cases hnn : nn = true
    · simp only [catchField, hnn, if_true]
      exact ⟨hext, locate_ne_nil e nodes p hr, locate_paths e nodes p hr⟩
    · simp only [catchField, hnn]
      refine ⟨?_, by simp [ResOK]⟩
      exact Ext.trans hext ⟨locate e nodes p, rfl, locate_paths e nodes p hr⟩

/-- whenever `catchField` swallows a failure (nullable position), at least one error was recorded -/
theorem catchField_null_has_error (nodes : List Selection) (p : List PathSeg) (e : Exn) (st : St)
    (hr : ExnOK p (.error e)) :
    (catchField false nodes p (.error e, st)).1 = .ok .none ∧
    ∃ g ∈ (catchField false nodes p (.error e, st)).2.errors, p <+: g.path := by
  refine ⟨by simp [catchField], ?_⟩
  have hne := locate_ne_nil e nodes p hr
  have hp := locate_paths e nodes p hr
  cases hl : locate e nodes p with
  | nil => exact absurd hl hne
  | cons g gs =>
    refine ⟨g, ?_, hp g (by simp [hl])⟩
    simp [catchField, hl]

theorem mapSt_ext {α β : Type} (p : List PathSeg) (f : α → St → β × St)
    (h : ∀ a st, Ext p st (f a st).2) : ∀ (xs : List α) (st : St), Ext p st (mapSt f xs st).2 := by
  intro xs
  induction xs with
  | nil => intro st; exact Ext.refl p st
  | cons a as ih => intro st; simp only [mapSt]; exact Ext.trans (h a st) (ih _)

theorem mapSt_forall {α β : Type} (f : α → St → β × St) (Q : β → Prop)
    (h : ∀ a st, Q (f a st).1) : ∀ (xs : List α) (st : St), ∀ b ∈ (mapSt f xs st).1, Q b := by
  intro xs
  induction xs with
  | nil => intro st b hb; simp [mapSt] at hb
  | cons a as ih =>
    intro st b hb
    simp only [mapSt, List.mem_cons] at hb
    rcases hb with rfl | hb
    · exact h a st
    · exact ih _ b hb

theorem gatherRes_err (p : List PathSeg) : ∀ (rs : List Res), (∀ r ∈ rs, ResOK p r) →
    ∀ es, gatherRes rs = .error es → es ≠ [] ∧ ∀ e ∈ es, p <+: e.path
  | [], _, es, hg => by simp [gatherRes] at hg
  | r :: rs, h, es, hg => by
    have ih := gatherRes_err p rs (fun x hx => h x (List.mem_cons_of_mem _ hx))
    have hr := h r (List.mem_cons_self ..)
    simp only [gatherRes] at hg
    cases r with
    | ok v =>
      cases hg2 : gatherRes rs with
      | ok vs => simp [hg2] at hg
      | error es2 => simp [hg2] at hg; subst hg; exact ih es2 hg2
    | error es1 =>
      cases hg2 : gatherRes rs with
      | ok vs => simp [hg2] at hg; subst hg; exact hr
      | error es2 =>
        simp [hg2] at hg; subst hg
        have ih2 := ih es2 hg2
        refine ⟨fun h0 => hr.1 (List.append_eq_nil_iff.mp h0).1, ?_⟩
        intro e he
        rcases List.mem_append.mp he with h1 | h1
        · exact hr.2 e h1
        · exact ih2.2 e h1

end Tart

namespace Tart

def jobPath : Job → List PathSeg
  | .complete _ _ _ _ p _ => p
  | .fields _ _ p _ _ => p

/-- invariant of the (recursive) executor: errors are only appended, new errors lie under the job's
    path, and a propagating MultipleException is never empty -/
def RecInv (rec : Rec) : Prop :=
  ∀ job st, Ext (jobPath job) st (rec job st).2 ∧ ExnOK (jobPath job) (rec job st).1

theorem prefix_snoc (p : List PathSeg) (s : PathSeg) : p <+: p ++ [s] := List.prefix_append p [s]

theorem itemStep_inv {rec : Rec} (hrec : RecInv rec) (t : TypeRef) (pt fname : String) (nodes : List Selection)
    (path : List PathSeg) (ix : Nat × PyVal) (st : St) :
    Ext path st (itemStep rec t pt fname nodes path ix st).2 ∧
    ResOK path (itemStep rec t pt fname nodes path ix st).1 := by
  have key : ∀ (r : Except Exn PyVal) (st1 : St), Ext (path ++ [PathSeg.idx ix.1]) st st1 →
      ExnOK (path ++ [PathSeg.idx ix.1]) r →
      Ext path st (catchField t.isNonNull nodes (path ++ [PathSeg.idx ix.1]) (r, st1)).2 ∧
      ResOK path (catchField t.isNonNull nodes (path ++ [PathSeg.idx ix.1]) (r, st1)).1 := by
    intro r st1 h1 h2
    have := catchField_spec t.isNonNull nodes (path ++ [PathSeg.idx ix.1]) r st st1 h1 h2
    exact ⟨Ext.weaken (prefix_snoc _ _) this.1, ResOK.weaken (prefix_snoc _ _) this.2⟩
  unfold itemStep
  split
  · exact key _ st (Ext.refl _ _) (by simp [ExnOK])
  · have h := hrec (.complete t pt fname nodes (path ++ [PathSeg.idx ix.1]) ix.2) st
    exact key _ _ h.1 h.2

theorem completeList_inv {rec : Rec} (hrec : RecInv rec) (t : TypeRef) (pt fname : String) (nodes : List Selection)
    (path : List PathSeg) (items : List PyVal) (st : St) :
    Ext path st (completeList rec t pt fname nodes path items st).2 ∧
    ExnOK path (completeList rec t pt fname nodes path items st).1 := by
  have hext := mapSt_ext path (itemStep rec t pt fname nodes path)
    (fun a s => (itemStep_inv hrec t pt fname nodes path a s).1) (enumFrom 0 items) st
  have hres := mapSt_forall (itemStep rec t pt fname nodes path) (ResOK path)
    (fun a s => (itemStep_inv hrec t pt fname nodes path a s).2) (enumFrom 0 items) st
  cases hgr : gatherRes (mapSt (itemStep rec t pt fname nodes path) (enumFrom 0 items) st).1 with
  | ok vs => simp only [completeList, hgr]; exact ⟨hext, by simp [ExnOK]⟩
  | error es =>
    have hg := gatherRes_err path _ hres es hgr
    simp only [completeList, hgr]
    exact ⟨hext, hg.1, fun e he => Or.inr (hg.2 e he)⟩

theorem coerceArguments_error_ne_nil (fuel : Nat) (S : Schema) (o : Oracle) (defs : List ArgDef) (l : Loc)
    (args : List Arg) (vars : Vars) (errs : List (String × Loc))
    (h : coerceArguments fuel S o defs l args vars = .error errs) : errs ≠ [] := by
  unfold coerceArguments at h
  split at h
  · cases h
  · simp only [] at h
    split at h
    · rename_i hne
      cases h
      intro h0; simp [h0] at hne
    · cases h

theorem logCall_errors (spec : ResolverSpec) (coord : String) (path : List PathSeg) (parent : PyVal)
    (args : List (String × PyVal)) (st : St) : (logCall spec coord path parent args st).errors = st.errors := by
  cases spec <;> rfl

theorem raiseIfExc_ok (p : List PathSeg) (spec : ResolverSpec) (parent : PyVal) (fn : String) (args : List (String × PyVal)) :
    ExnOK p (raiseIfExc (resolverResult spec parent fn args)) := by
  cases spec <;> simp [resolverResult, raiseIfExc, excToExn] <;> (split <;> simp [ExnOK]) 


theorem resolveValue_inv (fuel : Nat) (ctx : Ctx) (tn : String) (fd : FieldDef) (parent : PyVal)
    (nodes : List Selection) (p : List PathSeg) (st : St) :
    (resolveValue fuel ctx tn fd parent nodes p st).2.errors = st.errors ∧
    ExnOK p (resolveValue fuel ctx tn fd parent nodes p st).1 := by
  unfold resolveValue
  cases hco : coerceArguments fuel ctx.S ctx.o fd.args nodes.head!.floc nodes.head!.fargs ctx.vars with
  | error errs =>
    refine ⟨rfl, ?_⟩
    have hne := coerceArguments_error_ne_nil _ _ _ _ _ _ _ _ hco
    simp only [argErrors, ExnOK]
    refine ⟨by simpa using hne, ?_⟩
    intro e he
    simp only [List.mem_map] at he
    obtain ⟨a, _, rfl⟩ := he
    exact Or.inl rfl
  | ok args =>
    simp only []
    split
    · exact ⟨rfl, by simp [ExnOK]⟩
    · exact ⟨logCall_errors _ _ _ _ _ _, raiseIfExc_ok _ _ _ _ _⟩

theorem ext_of_errors_eq {p : List PathSeg} {a b : St} (h : b.errors = a.errors) : Ext p a b :=
  ⟨[], by simp [h], by simp⟩

theorem fieldStep_inv {rec : Rec} (hrec : RecInv rec) (fuel : Nat) (ctx : Ctx) (tn : String) (parent : PyVal)
    (path : List PathSeg) (d : FieldJob) (st : St) :
    Ext path st (fieldStep rec fuel ctx tn parent path d st).2 ∧
    ResOK path (fieldStep rec fuel ctx tn parent path d st).1.2 := by
  have hrv := resolveValue_inv fuel ctx tn d.2.2 parent d.2.1 (path ++ [PathSeg.key d.1]) st
  have key : ∀ (r : Except Exn PyVal) (st1 : St), Ext (path ++ [PathSeg.key d.1]) st st1 →
      ExnOK (path ++ [PathSeg.key d.1]) r →
      Ext path st (catchField d.2.2.type.isNonNull d.2.1 (path ++ [PathSeg.key d.1]) (r, st1)).2 ∧
      ResOK path (catchField d.2.2.type.isNonNull d.2.1 (path ++ [PathSeg.key d.1]) (r, st1)).1 := by
    intro r st1 h1 h2
    have := catchField_spec d.2.2.type.isNonNull d.2.1 (path ++ [PathSeg.key d.1]) r st st1 h1 h2
    exact ⟨Ext.weaken (prefix_snoc _ _) this.1, ResOK.weaken (prefix_snoc _ _) this.2⟩
  unfold fieldStep
  simp only []
  cases hres : resolveValue fuel ctx tn d.2.2 parent d.2.1 (path ++ [PathSeg.key d.1]) st with
  | mk r st1 =>
    rw [hres] at hrv
    cases r with
    | error e =>
      simp only []
      exact key (.error e) st1 (ext_of_errors_eq hrv.1) hrv.2
    | ok v =>
      simp only []
      have h := hrec (.complete d.2.2.type tn d.2.2.name d.2.1 (path ++ [PathSeg.key d.1]) v) st1
      exact key _ _ (Ext.trans (ext_of_errors_eq hrv.1) h.1) h.2

theorem serialSt_inv (p : List PathSeg) (f : FieldJob → St → (String × Res) × St)
    (h : ∀ a st, Ext p st (f a st).2 ∧ ResOK p (f a st).1.2) :
    ∀ (xs : List FieldJob) (st : St), Ext p st (serialSt f xs st).2 ∧
      (∀ es, (serialSt f xs st).1 = .error es → es ≠ [] ∧ ∀ e ∈ es, p <+: e.path) := by
  intro xs
  induction xs with
  | nil => intro st; exact ⟨Ext.refl _ _, by simp [serialSt]⟩
  | cons a as ih =>
    intro st
    have ha := h a st
    simp only [serialSt]
    cases hf : f a st with
    | mk kr s1 =>
      rw [hf] at ha
      cases kr with
      | mk k r =>
        cases r with
        | error es =>
          simp only []
          refine ⟨ha.1, ?_⟩
          intro es' he; cases he; exact ha.2
        | ok v =>
          simp only []
          have ih1 := ih s1
          cases hs : serialSt f as s1 with
          | mk r2 s2 =>
            rw [hs] at ih1
            cases r2 with
            | error es2 =>
              simp only []
              exact ⟨Ext.trans ha.1 ih1.1, fun es' he => by cases he; exact ih1.2 es2 rfl⟩
            | ok kvs =>
              simp only []
              exact ⟨Ext.trans ha.1 ih1.1, fun es' he => by cases he⟩

theorem gatherKV_err (p : List PathSeg) : ∀ (rs : List (String × Res)), (∀ r ∈ rs, ResOK p r.2) →
    ∀ es, gatherKV rs = .error es → es ≠ [] ∧ ∀ e ∈ es, p <+: e.path
  | [], _, es, hg => by simp [gatherKV] at hg
  | (k, r) :: rs, h, es, hg => by
    have ih := gatherKV_err p rs (fun x hx => h x (List.mem_cons_of_mem _ hx))
    have hr : ResOK p r := h (k, r) (List.mem_cons_self ..)
    simp only [gatherKV] at hg
    cases r with
    | ok v =>
      cases hg2 : gatherKV rs with
      | ok vs => simp [hg2] at hg
      | error es2 => simp [hg2] at hg; subst hg; exact ih es2 hg2
    | error es1 =>
      cases hg2 : gatherKV rs with
      | ok vs => simp [hg2] at hg; subst hg; exact hr
      | error es2 =>
        simp [hg2] at hg; subst hg
        have ih2 := ih es2 hg2
        refine ⟨fun h0 => hr.1 (List.append_eq_nil_iff.mp h0).1, ?_⟩
        intro e he
        rcases List.mem_append.mp he with h1 | h1
        · exact hr.2 e h1
        · exact ih2.2 e h1

theorem executeFields_inv {rec : Rec} (hrec : RecInv rec) (fuel : Nat) (ctx : Ctx) (tn : String) (parent : PyVal)
    (path : List PathSeg) (defs : List FieldJob) (serial : Bool) (st : St) :
    Ext path st (executeFields rec fuel ctx tn parent path defs serial st).2 ∧
    ExnOK path (executeFields rec fuel ctx tn parent path defs serial st).1 := by
  have hf := fun a s => fieldStep_inv hrec fuel ctx tn parent path a s
  unfold executeFields
  by_cases hs : serial = true
  · simp only [hs, if_true]
    have h1 := serialSt_inv path _ hf defs st
    cases hser : serialSt (fieldStep rec fuel ctx tn parent path) defs st with
    | mk r s1 =>
      rw [hser] at h1
      cases r with
      | ok kvs => exact ⟨h1.1, by simp [ExnOK]⟩
      | error es => have := h1.2 es rfl; exact ⟨h1.1, this.1, fun e he => Or.inr (this.2 e he)⟩
  · simp only [hs]
    have h1 := serialSt_inv path _ hf (defs.filter fun d => !d.2.2.parentConc) st
    cases hser : serialSt (fieldStep rec fuel ctx tn parent path) (defs.filter fun d => !d.2.2.parentConc) st with
    | mk r s1 =>
      rw [hser] at h1
      cases r with
      | error es => have := h1.2 es rfl; exact ⟨h1.1, this.1, fun e he => Or.inr (this.2 e he)⟩
      | ok kv1 =>
        simp only []
        have hext := mapSt_ext path (fieldStep rec fuel ctx tn parent path) (fun a s => (hf a s).1)
          (defs.filter fun d => d.2.2.parentConc) s1
        have hres := mapSt_forall (fieldStep rec fuel ctx tn parent path) (fun kr => ResOK path kr.2)
          (fun a s => (hf a s).2) (defs.filter fun d => d.2.2.parentConc) s1
        cases hg : gatherKV (mapSt (fieldStep rec fuel ctx tn parent path) (defs.filter fun d => d.2.2.parentConc) s1).1 with
        | ok kv2 => exact ⟨Ext.trans h1.1 hext, by simp [ExnOK]⟩
        | error es =>
          have := gatherKV_err path _ hres es hg
          exact ⟨Ext.trans h1.1 hext, this.1, fun e he => Or.inr (this.2 e he)⟩

theorem completeNamed_inv {rec : Rec} (hrec : RecInv rec) (fuel : Nat) (ctx : Ctx) (tn pt fname : String)
    (nodes : List Selection) (path : List PathSeg) (v : PyVal) (st : St) :
    Ext path st (completeNamed rec fuel ctx tn pt fname nodes path v st).2 ∧
    ExnOK path (completeNamed rec fuel ctx tn pt fname nodes path v st).1 := by
  unfold completeNamed
  split
  · split <;> exact ⟨Ext.refl _ _, by simp [ExnOK]⟩
  · split
    · split <;> exact ⟨Ext.refl _ _, by simp [ExnOK]⟩
    · exact ⟨Ext.refl _ _, by simp [ExnOK]⟩
  · exact hrec (.fields tn v path _ false) st
  · split
    · exact ⟨Ext.refl _ _, by simp [ExnOK, abstractErr]⟩
    · exact hrec (.fields _ v path _ false) st
  · split
    · exact ⟨Ext.refl _ _, by simp [ExnOK, abstractErr]⟩
    · exact hrec (.fields _ v path _ false) st
  · exact ⟨Ext.refl _ _, by simp [ExnOK]⟩

theorem run_inv : ∀ (fuel : Nat) (ctx : Ctx), RecInv (run fuel ctx) := by
  intro fuel
  induction fuel with
  | zero => intro ctx job st; simp only [run]; exact ⟨Ext.refl _ _, by simp [ExnOK]⟩
  | succ n ih =>
    intro ctx job st
    cases job with
    | complete ty pt fname nodes path v =>
      simp only [jobPath]
      cases ty with
      | nonNull t =>
        have h := ih ctx (.complete t pt fname nodes path v) st
        simp only [run]
        split
        · rename_i st' heq
          rw [heq] at h
          exact ⟨h.1, by simp [ExnOK]⟩
        · exact h
      | list t =>
        simp only [run]
        split
        · exact ⟨Ext.refl _ _, by simp [ExnOK]⟩
        · exact completeList_inv (ih ctx) t pt fname nodes path _ st
        · exact ⟨Ext.refl _ _, by simp [ExnOK]⟩
      | named tn =>
        simp only [run]
        split
        · exact ⟨Ext.refl _ _, by simp [ExnOK]⟩
        · exact completeNamed_inv (ih ctx) (n+1) ctx tn pt fname nodes path v st
    | fields tn parent path collected serial =>
      simp only [jobPath, run]
      exact executeFields_inv (ih ctx) (n+1) ctx tn parent path _ serial st

theorem executeFields_ok_dict (rec : Rec) (fuel : Nat) (ctx : Ctx) (tn : String) (parent : PyVal)
    (path : List PathSeg) (defs : List FieldJob) (serial : Bool) (st : St) (v : PyVal)
    (h : (executeFields rec fuel ctx tn parent path defs serial st).1 = .ok v) : ∃ kvs, v = .dict kvs := by
  unfold executeFields at h
  split at h
  · split at h
    · simp at h; exact ⟨_, h.symm⟩
    · simp at h
  · split at h
    · simp at h
    · simp only [] at h
      split at h
      · simp at h
      · simp at h; exact ⟨_, h.symm⟩

theorem run_fields_ok_dict (fuel : Nat) (ctx : Ctx) (tn : String) (parent : PyVal) (path : List PathSeg)
    (coll : Collected) (serial : Bool) (st : St) (v : PyVal)
    (h : (run fuel ctx (.fields tn parent path coll serial) st).1 = .ok v) : ∃ kvs, v = .dict kvs := by
  cases fuel with
  | zero => simp [run] at h
  | succ n => simp only [run] at h; exact executeFields_ok_dict _ _ _ _ _ _ _ _ _ _ h

/-- request level: `data` is null only together with at least one error -/
theorem executeRequest_null_has_error (fuel : Nat) (S : Schema) (o : Oracle) (env : Env) (doc : Document)
    (opName : Option String) (rawVars : List (String × PyVal)) (root : PyVal)
    (h : (executeRequest fuel S o env doc opName rawVars root).data = .none) :
    (executeRequest fuel S o env doc opName rawVars root).errors ≠ [] := by
  unfold executeRequest at h ⊢
  cases hsel : selectOperation doc opName with
  | none => simp only [hsel]; exact List.cons_ne_nil _ _
  | some op =>
    simp only [hsel] at h ⊢
    cases hcv : coerceVariables fuel S o op.varDefs rawVars with
    | mk vars verrs =>
      simp only [hcv] at h ⊢
      by_cases hve : (!verrs.isEmpty) = true
      · simp only [hve, if_true]
        cases verrs with
        | nil => simp at hve
        | cons a as => simp
      · simp only [hve] at h ⊢
        cases hrt : rootTypeName S op.kind with
        | none => simp only [hrt]; exact List.cons_ne_nil _ _
        | some rt =>
          simp only [hrt] at h ⊢
          cases hrun : run fuel ⟨S, doc, vars, env, o⟩ (.fields rt root []
              (collectFields fuel ⟨S, doc, vars, env, o⟩ rt op.sels ([], [])).1 (op.kind == .mutation)) {} with
          | mk r st =>
            simp only [hrun] at h ⊢
            cases r with
            | ok d =>
              simp only [] at h
              obtain ⟨kvs, hk⟩ := run_fields_ok_dict fuel _ rt root [] _ _ {} d (by rw [hrun])
              rw [hk] at h; cases h
            | error e =>
              simp only []
              have hinv := (run_inv fuel ⟨S, doc, vars, env, o⟩ (.fields rt root []
                (collectFields fuel ⟨S, doc, vars, env, o⟩ rt op.sels ([], [])).1 (op.kind == .mutation)) {}).2
              rw [hrun] at hinv
              cases e with
              | multi es => simp [ExnOK] at hinv; simp; intro _; exact hinv.1
              | raw k t m x => simp
end Tart
