/- Helper lemmas for C04/C05: the input-coercion model only produces typed values. -/
import TartModel.Spec.Input
import TartModel.Proofs.ScalarLemmas
import TartModel.Properties.C10
namespace Tart
open Tart.Spec Tart.Gen

theorem scalarLit_typed (o : Oracle) (tn : String) (node : Value) (r : PyVal)
    (h : scalarLit o tn node = .ok r) (hu : r ≠ .undef) : InLeafOK tn r := by
  unfold scalarLit at h
  unfold InLeafOK
  split at h
  · -- Int
    cases node <;> simp [Value.toNode, ScalarInt.parse_literal, ScalarInt.parse_literal.try1, py_is_node, py_attr_value] at h <;>
      (try (subst h; exact absurd rfl hu))
    rename_i lex
    simp only [py_int] at h
    cases hp : parseIntLexeme lex with
    | none => simp [hp] at h; subst h; exact absurd rfl hu
    | some i =>
      simp [hp, py_le, py_num, C_MIN_INT, C_MAX_INT, F.le] at h
      by_cases h1 : (-2147483648 : Int) ≤ i <;> by_cases h2 : i ≤ (2147483647 : Int) <;> simp [h1, h2] at h <;>
        (try (subst h; exact absurd rfl hu))
      subst h
      exact ⟨i, rfl, by simp [minInt, h1], by simp [maxInt, h2]⟩
  · -- Float
    cases node <;> simp [Value.toNode, ScalarFloat.parse_literal, ScalarFloat.parse_literal.try1, py_is_node, py_attr_value] at h <;>
      (try (subst h; exact absurd rfl hu))
    all_goals
      rename_i lex
      simp only [py_float] at h
      cases hs : o.stf lex with
      | none => simp [hs] at h; subst h; exact absurd rfl hu
      | some f =>
        cases f <;> simp [hs, py_isfinite, F.isFinite] at h <;> (try (subst h; exact absurd rfl hu))
        subst h; simp [FloatWire]
  · cases node <;> simp [Value.toNode, ScalarString.parse_literal, py_is_node, py_attr_value] at h <;>
      (try (subst h; exact absurd rfl hu))
    subst h; simp [StrWire]
  · cases node <;> simp [Value.toNode, ScalarBoolean.parse_literal, py_is_node, py_attr_value] at h <;>
      (try (subst h; exact absurd rfl hu))
    subst h; simp [BoolWire]
  · cases node <;> simp [Value.toNode, ScalarID.parse_literal, py_is_node, py_attr_value, py_str] at h <;>
      (try (subst h; exact absurd rfl hu))
    all_goals (subst h; simp [StrWire])
  · rename_i h1 h2 h3 h4 h5
    have hc : customOk r = true := by
      cases node <;> simp at h <;> (try (subst h; exact absurd rfl hu))
      · rename_i lex
        simp only [py_int] at h
        cases hp : parseIntLexeme lex with
        | none => simp [hp] at h
        | some i => simp [hp] at h; subst h; simp [customOk, isJsonKind]
      · rename_i s
        split at h
        · cases h; exact absurd rfl hu
        · rename_i hb; cases h; simp [customOk, isJsonKind]; simpa using hb
      · subst h; simp [customOk, isJsonKind]
    split <;> first | (exact absurd rfl ‹_›) | exact hc

theorem scalarLit_ne_none (o : Oracle) (tn : String) (node : Value) (r : PyVal)
    (h : scalarLit o tn node = .ok r) (hu : r ≠ .undef) : r ≠ .none := by
  intro hr; subst hr
  have ht := scalarLit_typed o tn node .none h hu
  unfold InLeafOK at ht
  split at ht
  · obtain ⟨i, hi, _⟩ := ht; cases hi
  · exact ht
  · exact ht
  · exact ht
  · exact ht
  · unfold scalarLit at h
    split at h <;> (try (exact absurd rfl ‹_›))
    cases node <;> simp at h
    · rename_i lex
      simp only [py_int] at h
      cases hp : parseIntLexeme lex <;> simp [hp] at h
    · split at h <;> cases h

theorem fieldsOK_of_forall (S : Schema) (fields : List ArgDef) : ∀ kvs : List (String × PyVal),
    (∀ kv ∈ kvs, ∃ fd ∈ fields, kv.1 = fd.name ∧ HasType S fd.type kv.2) → FieldsOK S fields kvs
  | [], _ => .nil
  | (k, x) :: rest, h => by
    obtain ⟨fd, hfd, hk, ht⟩ := h (k, x) (List.mem_cons_self ..)
    simp at hk; subst hk
    exact .cons hfd ht (fieldsOK_of_forall S fields rest (fun kv hkv => h kv (List.mem_cons_of_mem _ hkv)))

theorem allSome_mem {α : Type} : ∀ (l : List (Option α)) (r : List α), allSome l = some r → ∀ a ∈ r, some a ∈ l
  | [], r, h => by simp [allSome] at h; subst h; simp
  | none :: rest, r, h => by simp [allSome] at h
  | some a :: rest, r, h => by
    simp only [allSome, Option.map_eq_some_iff] at h
    obtain ⟨r0, hr0, rfl⟩ := h
    intro x hx
    rcases List.mem_cons.mp hx with rfl | hx
    · exact List.mem_cons_self ..
    · exact List.mem_cons_of_mem _ (allSome_mem rest r0 hr0 x hx)

/-- what the recursive literal coercer is assumed to satisfy -/
def LitRecOK (S : Schema) (rec : LitRec) : Prop :=
  ∀ flag ty node v, rec flag ty node = some v → HasType S ty v ∧ (v = .none → node = .null)

theorem litWrapped_const (flag : Bool) (node : Value) (body : Option PyVal) (v : PyVal)
    (h : litWrapped none flag node body = some v) : (node = .null ∧ v = .none) ∨ (node ≠ .null ∧ body = some v) := by
  cases node <;> simp [litWrapped] at h <;> first | (exact Or.inl ⟨rfl, h.symm⟩) | (exact Or.inr ⟨by simp, h⟩)

theorem litList_typed {S : Schema} {rec : LitRec} (hrec : LitRecOK S rec) (t : TypeRef) (node : Value) (v : PyVal)
    (h : litList rec none t node = some v) : HasType S (.list t) v ∧ v ≠ .none := by
  unfold litList at h
  split at h
  · rename_i items
    simp only [Option.map_eq_some_iff] at h
    obtain ⟨xs, hxs, rfl⟩ := h
    refine ⟨.list ?_, by simp⟩
    intro x hx
    have hm := allSome_mem _ xs hxs x hx
    simp only [List.mem_map] at hm
    obtain ⟨it, _, hit⟩ := hm
    unfold litListItem at hit
    split at hit
    · split at hit
      · cases hit
      · rename_i hnn; cases hit; exact .null (by simpa using hnn)
    · exact (hrec false t it x hit).1
  · simp only [Option.map_eq_some_iff] at h
    obtain ⟨x, hx, rfl⟩ := h
    refine ⟨.list ?_, by simp⟩
    intro y hy; simp at hy; rw [hy]
    exact (hrec false t node x hx).1

theorem litField_typed {S : Schema} {rec : LitRec} (hrec : LitRecOK S rec) (fs : List (String × Value)) (fd : ArgDef)
    (kv : String × PyVal) (h : litField rec none fs fd = some (some kv)) : kv.1 = fd.name ∧ HasType S fd.type kv.2 := by
  unfold litField at h
  have hdef : ∀ (r : Option (Option (String × PyVal))),
      r = (match fd.default with
        | some d => (rec false fd.type d).map (fun v => some (fd.name, v))
        | none => if fd.type.isNonNull then none else some none) →
      r = some (some kv) → kv.1 = fd.name ∧ HasType S fd.type kv.2 := by
    intro r hr hk
    subst hr
    split at hk
    · simp only [Option.map_eq_some_iff] at hk
      obtain ⟨v, hv, hk⟩ := hk
      cases hk
      exact ⟨rfl, (hrec false fd.type _ v hv).1⟩
    · split at hk <;> cases hk
  simp only [] at h
  split at h
  · exact hdef _ rfl h
  · split at h
    · exact hdef _ rfl h
    · simp only [Option.map_eq_some_iff] at h
      obtain ⟨v, hv, hk⟩ := h
      cases hk
      exact ⟨rfl, (hrec false fd.type _ v hv).1⟩

theorem litNamed_typed {S : Schema} {rec : LitRec} (hrec : LitRecOK S rec) (o : Oracle) (tn : String) (node : Value) (v : PyVal)
    (h : litNamed rec S o none tn node = some v) : HasType S (.named tn) v ∧ v ≠ .none := by
  unfold litNamed at h
  split at h
  · rename_i n' hft
    split at h
    · cases h
    · rename_i r hne hso
      cases h
      exact ⟨.scalar hft (scalarLit_typed o tn node v hso hne), scalarLit_ne_none o tn node v hso hne⟩
    · cases h
  · rename_i n' vals hft
    split at h
    · split at h
      · rename_i x hc; cases h; exact ⟨.enum hft (by simpa using hc), by simp⟩
      · cases h
    · cases h
  · rename_i n' fields hft
    split at h
    · rename_i fs
      simp only [Option.map_eq_some_iff] at h
      obtain ⟨rs, hrs, rfl⟩ := h
      refine ⟨.input hft (fieldsOK_of_forall S fields _ ?_), by simp⟩
      intro kv hkv
      simp only [List.mem_filterMap] at hkv
      obtain ⟨okv, hokv, hid⟩ := hkv
      simp at hid; subst hid
      have hm := allSome_mem _ rs hrs _ hokv
      simp only [List.mem_map] at hm
      obtain ⟨fd, hfd, hf⟩ := hm
      have := litField_typed hrec fs fd kv hf
      exact ⟨fd, hfd, this.1, this.2⟩
    · cases h
  · cases h

/-- literal coercion without variables (const literals: SDL defaults, variable defaults) is typed,
    and only the `null` literal yields None -/
theorem coerceLiteral_const_typed : ∀ (n : Nat) (S : Schema) (o : Oracle), LitRecOK S (coerceLiteral n S o none) := by
  intro n
  induction n with
  | zero => intro S o flag ty node v h; simp [coerceLiteral] at h
  | succ n ih =>
    intro S o flag ty node v h
    cases ty with
    | nonNull t =>
      simp only [coerceLiteral] at h
      split at h
      · cases h
      · rename_i hnn
        have := ih S o true t node v h
        refine ⟨.nonNull this.1 ?_, this.2⟩
        intro hv; exact hnn (this.2 hv)
    | list t =>
      simp only [coerceLiteral] at h
      rcases litWrapped_const _ _ _ _ h with ⟨rfl, rfl⟩ | ⟨_, hb⟩
      · exact ⟨.null rfl, fun _ => rfl⟩
      · have := litList_typed (ih S o) t node v hb
        exact ⟨this.1, fun hv => absurd hv this.2⟩
    | named tn =>
      simp only [coerceLiteral] at h
      rcases litWrapped_const _ _ _ _ h with ⟨rfl, rfl⟩ | ⟨_, hb⟩
      · exact ⟨.null rfl, fun _ => rfl⟩
      · have := litNamed_typed (ih S o) o tn node v hb
        exact ⟨this.1, fun hv => absurd hv this.2⟩

/-- no `UNDEFINED_VALUE` marker inside a coerced value (one is left only by an invalid SDL default) -/
inductive NoUndef : PyVal → Prop
  | none : NoUndef .none
  | bool (b : Bool) : NoUndef (.bool b)
  | int (i : Int) : NoUndef (.int i)
  | float (f : F) : NoUndef (.float f)
  | str (s : String) : NoUndef (.str s)
  | list {xs : List PyVal} : (∀ x ∈ xs, NoUndef x) → NoUndef (.list xs)
  | dict {kvs : List (String × PyVal)} : (∀ kv ∈ kvs, NoUndef kv.2) → NoUndef (.dict kvs)

theorem scalarIn_typed (o : Oracle) (tn : String) (v r : PyVal) (hv : v ≠ .none)
    (h : scalarIn o tn v = .ok r) : InLeafOK tn r ∧ r ≠ .none := by
  unfold scalarIn at h
  unfold InLeafOK
  split at h
  · have := (C10.int_in_value o v r h).1
    obtain ⟨i, rfl, h1, h2⟩ := this
    exact ⟨⟨i, rfl, h1, h2⟩, by simp⟩
  · have := (C10.float_in_value o v r h).1
    refine ⟨this, ?_⟩
    intro hr; subst hr; exact this
  · have h1 := C10.string_in_value o v r h
    have h2 := (C10.string_in_exact o v).mp ⟨r, h⟩
    subst h1
    cases r <;> first | exact h2.elim | exact ⟨trivial, by simp⟩
  · have h1 := C10.boolean_in_value o v r h
    have h2 := (C10.boolean_in_exact o v).mp ⟨r, h⟩
    subst h1
    cases r <;> first | exact h2.elim | exact ⟨trivial, by simp⟩
  · have := C10.id_in_value o v r h
    refine ⟨this, ?_⟩
    intro hr; subst hr; exact this
  · rename_i h1 h2 h3 h4 h5
    split at h
    · rename_i hok; cases h
      refine ⟨?_, hv⟩
      split <;> first | (exact absurd rfl ‹_›) | exact hok
    · cases h

def InRecOK (S : Schema) (rec : InRec) : Prop :=
  ∀ ty v, (rec ty v).errors = [] → NoUndef (rec ty v).value →
    HasType S ty (rec ty v).value ∧ (v ≠ .none → (rec ty v).value ≠ .none)

theorem mk'_noerr (v : PyVal) (errs : List String) (h : (CoRes.mk' v errs).errors = []) :
    errs = [] ∧ (CoRes.mk' v errs).value = v := by
  simp [CoRes.mk'] at h ⊢
  subst h; simp

theorem flatMap_nil {α β : Type} (l : List α) (f : α → List β) (h : l.flatMap f = []) : ∀ a ∈ l, f a = [] := by
  intro a ha
  simp [List.flatMap_eq_nil_iff] at h
  exact h a ha

theorem inField_typed {S : Schema} {rec : InRec} (hrec : InRecOK S rec) {lit : TypeRef → Value → Option PyVal}
    (hlit : ∀ ty node v, lit ty node = some v → HasType S ty v) (kvs : List (String × PyVal)) (fd : ArgDef)
    (p : String × CoRes) (h : inField rec lit kvs fd = some p) (he : p.2.errors = []) (hu : NoUndef p.2.value) :
    p.1 = fd.name ∧ HasType S fd.type p.2.value := by
  unfold inField at h
  split at h
  · split at h
    · rename_i d _
      simp at h; subst h
      cases hl : lit fd.type d with
      | none => simp [hl, CoRes.ok] at hu; cases hu
      | some dv => simp [CoRes.ok]; exact hlit _ _ _ hl
    · split at h
      · simp at h; subst h; simp [CoRes.err] at he
      · cases h
  · rename_i fv _
    simp at h; subst h
    exact ⟨rfl, (hrec fd.type fv he hu).1⟩

theorem inNamed_typed {S : Schema} {rec : InRec} (hrec : InRecOK S rec) {lit : TypeRef → Value → Option PyVal}
    (hlit : ∀ ty node v, lit ty node = some v → HasType S ty v) (o : Oracle) (tn : String) (v : PyVal) (hv : v ≠ .none)
    (he : (inNamed rec lit S o tn v).errors = []) (hu : NoUndef (inNamed rec lit S o tn v).value) :
    HasType S (.named tn) (inNamed rec lit S o tn v).value ∧ (inNamed rec lit S o tn v).value ≠ .none := by
  unfold inNamed at he hu ⊢
  cases hft : S.findType tn with
  | none => simp [hft, CoRes.err] at he
  | some td =>
    cases td with
    | scalar n' =>
      simp only [hft] at he hu ⊢
      cases hs : scalarIn o tn v with
      | error e => simp [hs, CoRes.err] at he
      | ok r =>
        by_cases hr : r = .undef
        · subst hr; simp [hs, CoRes.err] at he
        · have := scalarIn_typed o tn v r hv hs
          have hmatch : (match (Except.ok r : PyR) with | .ok .undef => CoRes.err "scalar" | .ok r => .ok r | .error _ => .err "scalar") = CoRes.ok r := by
            cases r <;> first | rfl | exact absurd rfl hr
          simp only [hmatch, CoRes.ok]
          exact ⟨.scalar hft this.1, this.2⟩
    | enum n' vals =>
      simp only [hft] at he hu ⊢
      cases v with
      | str s =>
        simp only [] at he hu ⊢
        by_cases hc : vals.contains s = true
        · simp only [hc, if_true, CoRes.ok]; exact ⟨.enum hft (by simpa using hc), by simp⟩
        · have hc' : s ∉ vals := by simpa using hc
          simp [hc', CoRes.err] at he
      | _ => simp [CoRes.err] at he
    | input n' fields =>
      simp only [hft] at he hu ⊢
      cases v with
      | dict kvs =>
        simp only [] at he hu ⊢
        obtain ⟨herr, hval⟩ := mk'_noerr _ _ he
        rw [hval] at hu ⊢
        refine ⟨.input hft (fieldsOK_of_forall S fields _ ?_), by simp⟩
        intro kv hkv
        simp only [List.mem_map] at hkv
        obtain ⟨p, hp, rfl⟩ := hkv
        have hpe : p.2.errors = [] := by
          have := List.append_eq_nil_iff.mp herr
          exact flatMap_nil _ _ this.1 p hp
        have hpu : NoUndef p.2.value := by
          cases hu with
          | dict hd => exact hd (p.1, p.2.value) (by simp only [List.mem_map]; exact ⟨p, hp, rfl⟩)
        simp only [List.mem_filterMap, List.mem_map] at hp
        obtain ⟨op, ⟨fd, hfd, hop⟩, hid⟩ := hp
        simp at hid; subst hid
        have := inField_typed hrec hlit kvs fd p hop hpe hpu
        exact ⟨fd, hfd, this.1, this.2⟩
      | _ => simp [CoRes.err] at he
    | object _ _ _ => simp [hft, CoRes.err] at he
    | interface _ _ => simp [hft, CoRes.err] at he
    | union _ _ => simp [hft, CoRes.err] at he

theorem coerceInput_list_single (n : Nat) (S : Schema) (o : Oracle) (t : TypeRef) (v : PyVal)
    (h1 : v ≠ .none) (h2 : ∀ xs, v ≠ .list xs) :
    coerceInput (n+1) S o (.list t) v = CoRes.mk' (.list [(coerceInput n S o t v).value]) (coerceInput n S o t v).errors := by
  cases v <;> simp_all [coerceInput]

theorem coerceInput_nonNull (n : Nat) (S : Schema) (o : Oracle) (t : TypeRef) (v : PyVal) (h1 : v ≠ .none) :
    coerceInput (n+1) S o (.nonNull t) v = coerceInput n S o t v := by
  cases v <;> simp_all [coerceInput]

theorem coerceInput_named (n : Nat) (S : Schema) (o : Oracle) (tn : String) (v : PyVal) (h1 : v ≠ .none) :
    coerceInput (n+1) S o (.named tn) v = inNamed (coerceInput n S o) (coerceLiteral n S o none false) S o tn v := by
  cases v <;> simp_all [coerceInput]

/-- JSON (variable) value coercion: a result without errors (and without UNDEFINED markers) is a
    coerced value of the declared type -/
theorem coerceInput_typed : ∀ (n : Nat) (S : Schema) (o : Oracle), InRecOK S (coerceInput n S o) := by
  intro n
  induction n with
  | zero => intro S o ty v he; simp [coerceInput, CoRes.err] at he
  | succ n ih =>
    intro S o ty v he hu
    cases ty with
    | nonNull t =>
      by_cases hn : v = .none
      · subst hn; simp [coerceInput, CoRes.err] at he
      · rw [coerceInput_nonNull n S o t v hn] at he hu ⊢
        have := ih S o t v he hu
        exact ⟨.nonNull this.1 (this.2 hn), fun _ => this.2 hn⟩
    | list t =>
      by_cases hn : v = .none
      · subst hn; simp only [coerceInput, CoRes.ok]; exact ⟨.null rfl, fun h => absurd rfl h⟩
      · by_cases hl : ∃ xs, v = .list xs
        · obtain ⟨xs, rfl⟩ := hl
          simp only [coerceInput] at he hu ⊢
          obtain ⟨herr, hval⟩ := mk'_noerr _ _ he
          rw [hval] at hu ⊢
          refine ⟨.list ?_, fun _ => by simp⟩
          intro x hx
          simp only [List.mem_map] at hx
          obtain ⟨r, ⟨a, ha, rfl⟩, rfl⟩ := hx
          have hre := flatMap_nil _ _ herr _ (List.mem_map.mpr ⟨a, ha, rfl⟩)
          have hru : NoUndef (coerceInput n S o t a).value := by
            cases hu with
            | list hl => exact hl _ (by simp only [List.mem_map]; exact ⟨_, ⟨a, ha, rfl⟩, rfl⟩)
          exact (ih S o t a hre hru).1
        · have hl' : ∀ xs, v ≠ .list xs := fun xs h => hl ⟨xs, h⟩
          rw [coerceInput_list_single n S o t v hn hl'] at he hu ⊢
          obtain ⟨herr, hval⟩ := mk'_noerr _ _ he
          rw [hval] at hu ⊢
          refine ⟨.list ?_, fun _ => by simp⟩
          intro x hx; simp at hx; rw [hx]
          have hru : NoUndef (coerceInput n S o t v).value := by
            cases hu with
            | list hl => exact hl _ (by simp)
          exact (ih S o t v herr hru).1
    | named tn =>
      by_cases hn : v = .none
      · subst hn; simp only [coerceInput, CoRes.ok]; exact ⟨.null rfl, fun h => absurd rfl h⟩
      · rw [coerceInput_named n S o tn v hn] at he hu ⊢
        have := inNamed_typed (ih S o) (fun ty node x hx => (coerceLiteral_const_typed n S o false ty node x hx).1) o tn v hn he hu
        exact ⟨this.1, fun _ => this.2⟩

end Tart
