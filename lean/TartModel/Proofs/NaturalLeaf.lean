import TartModel.Proofs.LitVarLemmas
import TartModel.Properties.C10
namespace Tart
open Tart.Gen Tart.Spec

/-- the natural literal kinds of the built-in scalars (and of the harness's pass-through custom scalars) -/
def NaturalLeaf (tn : String) (node : Value) : Prop :=
  (tn = "Int" ∧ ∃ l, node = .int l) ∨
  (tn = "Float" ∧ ∃ l, node = .float l) ∨
  (tn = "String" ∧ ∃ s, node = .str s) ∨
  (tn = "Boolean" ∧ ∃ b, node = .bool b) ∨
  (tn = "ID" ∧ ((∃ s, node = .str s) ∨ (∃ l i, node = .int l ∧ parseIntLexeme l = some i ∧ toString i = l))) ∨
  (tn ∉ builtinScalars ∧ ((∃ s, node = .str s) ∨ (∃ l, node = .int l) ∨ (∃ b, node = .bool b)))

theorem naturalLeaf_varFree (tn : String) (node : Value) (h : NaturalLeaf tn node) : varFree node = true := by
  unfold NaturalLeaf at h
  rcases h with ⟨_, l, rfl⟩ | ⟨_, l, rfl⟩ | ⟨_, s, rfl⟩ | ⟨_, b, rfl⟩ | ⟨_, ⟨s, rfl⟩ | ⟨l, i, rfl, _, _⟩⟩ | ⟨_, ⟨s, rfl⟩ | ⟨l, rfl⟩ | ⟨b, rfl⟩⟩ <;> rfl

theorem naturalLeaf_agree (o : Oracle) : LeafAgree o NaturalLeaf := by
  intro tn node j r hl hj hlit hru
  unfold NaturalLeaf at hl
  rcases hl with ⟨rfl, l, rfl⟩ | ⟨rfl, l, rfl⟩ | ⟨rfl, s, rfl⟩ | ⟨rfl, b, rfl⟩ | ⟨rfl, ⟨s, rfl⟩ | ⟨l, i, rfl, hp, hc⟩⟩ | ⟨hcust, hk⟩
  · -- Int
    simp only [jsonOf, Option.map_eq_some_iff] at hj
    obtain ⟨i, hi, rfl⟩ := hj
    have h := C10.int_literal_eq_variable o l i hi
    simp only [scalarLit, Value.toNode] at hlit
    simp only [scalarIn]
    by_cases hr : Spec.minInt ≤ i ∧ i ≤ Spec.maxInt
    · obtain ⟨h1, h2⟩ := h.1 hr
      rw [h1] at hlit; cases hlit; exact h2
    · obtain ⟨h1, _⟩ := h.2 hr
      rw [h1] at hlit; cases hlit; exact absurd rfl hru
  · -- Float
    simp only [jsonOf, Option.map_eq_some_iff] at hj
    obtain ⟨f, hf, rfl⟩ := hj
    have h := C10.float_literal_eq_variable o "FloatValueNode" l f (Or.inl rfl) hf
    simp only [scalarLit, Value.toNode] at hlit
    simp only [scalarIn]
    cases hfin : f.isFinite with
    | true => obtain ⟨h1, h2⟩ := h.1 hfin; rw [h1] at hlit; cases hlit; exact h2
    | false => obtain ⟨h1, _⟩ := h.2 hfin; rw [h1] at hlit; cases hlit; exact absurd rfl hru
  · -- String
    simp only [jsonOf] at hj; cases hj
    have h := C10.string_literal_eq_variable o s
    simp only [scalarLit, Value.toNode] at hlit
    rw [h.1] at hlit; cases hlit
    simpa [scalarIn] using h.2
  · -- Boolean
    simp only [jsonOf] at hj; cases hj
    have h := C10.boolean_literal_eq_variable o b
    simp only [scalarLit, Value.toNode] at hlit
    rw [h.1] at hlit; cases hlit
    simpa [scalarIn] using h.2
  · -- ID, string literal
    simp only [jsonOf] at hj; cases hj
    have h := (C10.id_literal_eq_variable o s).1
    simp only [scalarLit, Value.toNode] at hlit
    rw [h.1] at hlit; cases hlit
    simpa [scalarIn] using h.2
  · -- ID, canonical integer literal
    simp only [jsonOf, hp, Option.map_some] at hj; cases hj
    have h := (C10.id_literal_eq_variable o l).2 i hc
    simp only [scalarLit, Value.toNode] at hlit
    rw [h.1] at hlit; cases hlit
    simpa [scalarIn] using h.2
  · -- custom scalars
    have hne : tn ≠ "Int" ∧ tn ≠ "Float" ∧ tn ≠ "String" ∧ tn ≠ "Boolean" ∧ tn ≠ "ID" := by
      simp [builtinScalars] at hcust; exact hcust
    obtain ⟨h1, h2, h3, h4, h5⟩ := hne
    rcases hk with ⟨s, rfl⟩ | ⟨l, rfl⟩ | ⟨b, rfl⟩
    · simp only [jsonOf] at hj; cases hj
      simp only [scalarLit, h1, h2, h3, h4, h5] at hlit
      simp only [scalarIn, h1, h2, h3, h4, h5]
      by_cases hb : s == "BAD"
      · simp [hb] at hlit; cases hlit; exact absurd rfl hru
      · simp [hb] at hlit; cases hlit; simp [customOk, isJsonKind, hb]
    · simp only [jsonOf, Option.map_eq_some_iff] at hj
      obtain ⟨i, hi, rfl⟩ := hj
      simp only [scalarLit, h1, h2, h3, h4, h5, py_int, hi] at hlit
      cases hlit
      simp [scalarIn, h1, h2, h3, h4, h5, customOk, isJsonKind]
    · simp only [jsonOf] at hj; cases hj
      simp only [scalarLit, h1, h2, h3, h4, h5] at hlit
      cases hlit
      simp [scalarIn, h1, h2, h3, h4, h5, customOk, isJsonKind]

end Tart
