import TartModel.Generated.Scalars
import TartModel.Spec.Scalars
/- Helper lemmas about the generated scalar functions (T-tier). -/
namespace Tart
open Tart.Gen Tart.Spec

theorem ediv_mul_eq_iff (m d : Int) : (m / d * d = m) ↔ (m % d = 0) := by
  have h := Int.mul_ediv_add_emod m d
  rw [Int.mul_comm] at h
  constructor <;> intro h' <;> omega

theorem ediv_mul_beq (m d : Int) : (m / d * d == m) = (m % d == 0) := by
  rw [Bool.eq_iff_iff]; simp [ediv_mul_eq_iff]

/-- Specification of Python-side "is an integer value" (bool excluded). -/
def IsIntegerVal : PyVal → Bool
  | .int _ => true
  | .float f => f.isIntegral
  | _ => false

theorem is_integer_spec (o : Oracle) (v : PyVal) :
    is_integer o v = .ok (.bool (IsIntegerVal v)) := by
  cases v with
  | int i =>
      simp [is_integer, is_integer.try1, py_is_bool, py_is_int, IsIntegerVal]
  | float f =>
      cases f with
      | fin m e =>
          simp only [is_integer, is_integer.try1, py_is_bool, py_is_int, py_isfinite, F.isFinite,
            py_floor, py_eq, py_num, F.eq, IsIntegerVal, F.isIntegral, bindE_ok, Bool.false_eq_true, if_false,
            if_true]
          simp [ediv_mul_beq]
      | nan => simp [is_integer, is_integer.try1, py_is_bool, py_is_int, py_isfinite, F.isFinite, IsIntegerVal, F.isIntegral]
      | inf => simp [is_integer, is_integer.try1, py_is_bool, py_is_int, py_isfinite, F.isFinite, IsIntegerVal, F.isIntegral]
      | ninf => simp [is_integer, is_integer.try1, py_is_bool, py_is_int, py_isfinite, F.isFinite, IsIntegerVal, F.isIntegral]
  | _ => simp [is_integer, is_integer.try1, py_is_bool, py_is_int, py_isfinite, IsIntegerVal]



theorem tdiv_mul_of_emod_zero (m d : Int) (h : m % d = 0) : m.tdiv d * d = m := by
  have hd : d ∣ m := Int.dvd_of_emod_eq_zero h
  rw [Int.tdiv_eq_ediv]
  simp [hd]
  exact (ediv_mul_eq_iff m d).mpr h

theorem int_try1_spec (o : Oracle) (v : PyVal) (c : Ctl PyVal) (hb : py_is_bool v = false)
    (h : ScalarInt.coerce_output.try1 o v = .ok c) :
    ∃ r, c = Ctl.fall r ∧ IsIntegerVal r = true ∧ SameNumber o v r := by
  unfold ScalarInt.coerce_output.try1 at h
  cases v with
  | str s =>
    by_cases hs : s = ""
    · subst hs; simp [py_truthy, py_is_str, is_integer_spec, IsIntegerVal] at h
    · simp only [py_truthy, py_is_str, py_float] at h
      cases hf : o.stf s with
      | none => simp [hs, hf] at h
      | some f =>
        simp only [hf] at h
        cases f with
        | fin m e =>
          simp [hs, py_int, F.trunc, is_integer_spec, IsIntegerVal] at h
          by_cases he : py_eq (PyVal.int (m.tdiv (10 ^ e))) (PyVal.float (F.fin m e)) = true
          · simp [he] at h
            exact ⟨_, h.symm, rfl, _, hf, he⟩
          · simp [he] at h
        | _ => simp [hs, py_int, F.trunc] at h
  | int i =>
    simp [py_truthy, py_is_str, is_integer_spec, IsIntegerVal] at h
    exact ⟨_, h.symm, rfl, rfl⟩
  | float f =>
    simp [py_truthy, py_is_str, is_integer_spec, IsIntegerVal] at h
    by_cases hi : f.isIntegral = true
    · simp [hi] at h; exact ⟨_, h.symm, by simp [IsIntegerVal, hi], rfl⟩
    · simp [hi] at h
  | bool b => simp [py_is_bool] at hb
  | _ => simp [py_truthy, py_is_str, is_integer_spec, IsIntegerVal] at h

theorem int_range_spec (r : PyVal) (hi : IsIntegerVal r = true)
    (h1 : py_le C_MIN_INT r = .ok true) (h2 : py_le r C_MAX_INT = .ok true) : IntWire r := by
  cases r with
  | int i =>
    simp [py_le, py_num, F.le, C_MIN_INT, C_MAX_INT, minInt, maxInt] at h1 h2
    exact ⟨h1, h2⟩
  | float f =>
    cases f with
    | fin m e =>
      simp [py_le, py_num, F.le, C_MIN_INT, C_MAX_INT, minInt, maxInt] at h1 h2
      simp [IsIntegerVal, F.isIntegral] at hi
      exact ⟨hi, h1, h2⟩
    | _ => simp [IsIntegerVal, F.isIntegral] at hi
  | _ => simp [IsIntegerVal] at hi


end Tart
