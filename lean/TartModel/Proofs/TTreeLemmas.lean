/- Helper lemmas: every scheduled step preserves the deterministic meaning of a task tree. -/
import TartModel.Impl.TTree
namespace Tart

theorem perm_mid {α : Type} (l a x b : List α) : (l ++ (a ++ (x ++ b))).Perm (a ++ ((l ++ x) ++ b)) := by
  have h1 : (l ++ (a ++ (x ++ b))).Perm ((l ++ a) ++ (x ++ b)) := by rw [List.append_assoc]
  have h2 : ((l ++ a) ++ (x ++ b)).Perm ((a ++ l) ++ (x ++ b)) := List.Perm.append_right _ List.perm_append_comm
  have h3 : ((a ++ l) ++ (x ++ b)) = (a ++ ((l ++ x) ++ b)) := by simp [List.append_assoc]
  exact h1.trans (h3 ▸ h2)

theorem perm_lift {α : Type} (l l' a x x' b : List α) (h : (l' ++ x').Perm (l ++ x)) :
    (l' ++ (a ++ (x' ++ b))).Perm (l ++ (a ++ (x ++ b))) :=
  (perm_mid l' a x' b).trans ((List.Perm.append_left a (List.Perm.append_right b h)).trans (perm_mid l a x b).symm)

theorem denoteList_append (ans : Answers) : ∀ (pre : List TTree) (t : TTree) (post : List TTree),
    denoteList ans (pre ++ t :: post) =
      ((denoteList ans pre).1 ++ (denote ans t).1 :: (denoteList ans post).1,
       (denoteList ans pre).2 ++ ((denote ans t).2 ++ (denoteList ans post).2))
  | [], t, post => by simp [denoteList]
  | p :: pre, t, post => by simp [denoteList, denoteList_append ans pre t post, List.append_assoc]

theorem weightList_append (ans : Answers) : ∀ (pre : List TTree) (t : TTree) (post : List TTree),
    weightList ans (pre ++ t :: post) = weightList ans pre + weight ans t + weightList ans post
  | [], t, post => by simp [weightList]
  | p :: pre, t, post => by simp [weightList, weightList_append ans pre t post]; omega

theorem allDone_spec (ans : Answers) : ∀ (ts : List TTree) (outs : List Out), allDone ts = some outs →
    denoteList ans ts = (outs, []) ∧ weightList ans ts = 0
  | [], outs, h => by simp [allDone] at h; subst h; simp [denoteList, weightList]
  | .done r :: ts, outs, h => by
    simp only [allDone, Option.map_eq_some_iff] at h
    obtain ⟨o2, h2, rfl⟩ := h
    have := allDone_spec ans ts o2 h2
    simp [denoteList, weightList, denote, weight, this.1, this.2]
  | .call _ _ :: _, _, h => by simp [allDone] at h
  | .gather _ _ :: _, _, h => by simp [allDone] at h
  | .emit _ _ :: _, _, h => by simp [allDone] at h

/-- a step changes neither the result nor (up to order) the errors the request ends with, and uses
    up exactly one unit of the remaining work -/
theorem step_preserves (ans : Answers) {s s' : TTree × List GErr} (h : Step ans s s') :
    (denote ans s'.1).1 = (denote ans s.1).1 ∧
    (s'.2 ++ (denote ans s'.1).2).Perm (s.2 ++ (denote ans s.1).2) ∧
    weight ans s.1 = weight ans s'.1 + 1 := by
  induction h with
  | fire g k log => simp [denote, weight]; omega
  | emit es k log => simp [denote, weight, List.append_assoc]; omega
  | collapse ts k log outs hd =>
    have := allDone_spec ans ts outs hd
    simp [denote, weight, this.1, this.2]; omega
  | inGather pre post t t' k log log' hstep ih =>
    obtain ⟨hv, hp, hw⟩ := ih
    simp only at hv hp hw
    have hl : (denoteList ans (pre ++ t' :: post)).1 = (denoteList ans (pre ++ t :: post)).1 := by
      simp [denoteList_append, hv]
    refine ⟨?_, ?_, ?_⟩
    · simp only [denote, hl]
    · simp only [denote, hl]
      simp only [denoteList_append, List.append_assoc]
      exact perm_lift log log' _ _ _ _ hp
    · simp only [weight, hl, weightList_append]
      omega

end Tart

namespace Tart

/-- `n` steps -/
inductive StepsN (ans : Answers) : Nat → TTree × List GErr → TTree × List GErr → Prop
  | refl (s : TTree × List GErr) : StepsN ans 0 s s
  | cons {n : Nat} {a b c : TTree × List GErr} : Step ans a b → StepsN ans n b c → StepsN ans (n + 1) a c

theorem stepsN_preserve (ans : Answers) {n : Nat} {s s' : TTree × List GErr} (h : StepsN ans n s s') :
    (denote ans s'.1).1 = (denote ans s.1).1 ∧
    (s'.2 ++ (denote ans s'.1).2).Perm (s.2 ++ (denote ans s.1).2) ∧
    weight ans s.1 = weight ans s'.1 + n := by
  induction h with
  | refl s => exact ⟨rfl, List.Perm.refl _, by omega⟩
  | cons hstep _ ih =>
    have h1 := step_preserves ans hstep
    exact ⟨ih.1.trans h1.1, ih.2.1.trans h1.2.1, by omega⟩

theorem steps_to_stepsN (ans : Answers) {s s' : TTree × List GErr} (h : Steps ans s s') : ∃ n, StepsN ans n s s' := by
  induction h with
  | refl s => exact ⟨0, .refl s⟩
  | cons hstep _ ih => obtain ⟨n, hn⟩ := ih; exact ⟨n + 1, .cons hstep hn⟩

mutual
/-- a tree that is not finished can always take a step (no schedule gets stuck) -/
theorem progress (ans : Answers) : ∀ (t : TTree) (log : List GErr), (∀ r, t ≠ .done r) → ∃ s', Step ans (t, log) s'
  | .done r, _, h => absurd rfl (h r)
  | .call g k, log, _ => ⟨_, .fire g k log⟩
  | .emit es k, log, _ => ⟨_, .emit es k log⟩
  | .gather ts k, log, _ => by
    cases hd : allDone ts with
    | some outs => exact ⟨_, .collapse ts k log outs hd⟩
    | none =>
      obtain ⟨pre, t, post, t', log', rfl, hs⟩ := progressList ans ts log hd
      exact ⟨(.gather (pre ++ t' :: post) k, log'), .inGather pre post t t' k log log' hs⟩
theorem progressList (ans : Answers) : ∀ (ts : List TTree) (log : List GErr), allDone ts = none →
    ∃ pre t post t' log', ts = pre ++ t :: post ∧ Step ans (t, log) (t', log')
  | [], _, h => by simp [allDone] at h
  | .done r :: as, log, h => by
    simp only [allDone, Option.map_eq_none_iff] at h
    obtain ⟨pre, t, post, t', log', rfl, hs⟩ := progressList ans as log h
    exact ⟨.done r :: pre, t, post, t', log', rfl, hs⟩
  | .call g k :: as, log, _ => by
    obtain ⟨s', hs⟩ := progress ans (.call g k) log (fun r h => by cases h)
    exact ⟨[], _, as, s'.1, s'.2, rfl, hs⟩
  | .gather ts' k' :: as, log, _ => by
    obtain ⟨s', hs⟩ := progress ans (.gather ts' k') log (fun r h => by cases h)
    exact ⟨[], _, as, s'.1, s'.2, rfl, hs⟩
  | .emit es k' :: as, log, _ => by
    obtain ⟨s', hs⟩ := progress ans (.emit es k') log (fun r h => by cases h)
    exact ⟨[], _, as, s'.1, s'.2, rfl, hs⟩
end

/-- the event loop completes the awaited resolver `g` (the only scheduling choice) -/
inductive Fires (ans : Answers) (g : Gate) : TTree × List GErr → TTree × List GErr → Prop
  | here (k : Out → TTree) (log : List GErr) : Fires ans g (.call g k, log) (k (ans g), log)
  | inGather (pre post : List TTree) (t t' : TTree) (k : List Out → TTree) (log log' : List GErr) :
      Fires ans g (t, log) (t', log') → Fires ans g (.gather (pre ++ t :: post) k, log) (.gather (pre ++ t' :: post) k, log')

theorem pendingList_append : ∀ (pre : List TTree) (t : TTree) (post : List TTree),
    pendingList (pre ++ t :: post) = pendingList pre ++ (pending t ++ pendingList post)
  | [], t, post => by simp [pendingList]
  | p :: pre, t, post => by simp [pendingList, pendingList_append pre t post, List.append_assoc]

/-- only a gate that is currently awaited can be completed; completing it is a step -/
theorem fires_spec (ans : Answers) (g : Gate) {s s' : TTree × List GErr} (h : Fires ans g s s') :
    Step ans s s' ∧ g ∈ pending s.1 := by
  induction h with
  | here k log => exact ⟨.fire g k log, by simp [pending]⟩
  | inGather pre post t t' k log log' _ ih =>
    refine ⟨.inGather pre post t t' k log log' ih.1, ?_⟩
    simp only [pending, pendingList_append]
    exact List.mem_append_right _ (List.mem_append_left _ ih.2)

theorem pending_seqT (t : TTree) (k : Out → TTree) : pending (seqT t k) = pending t := by
  simp [seqT, pending, pendingList]

end Tart

namespace Tart

theorem weight_zero_done (ans : Answers) : ∀ t : TTree, weight ans t = 0 → ∃ r, t = .done r
  | .done r, _ => ⟨r, rfl⟩
  | .call g k, h => by simp [weight] at h
  | .emit es k, h => by simp [weight] at h
  | .gather ts k, h => by simp [weight] at h

theorem denote_seqT (ans : Answers) (t : TTree) (k : Out → TTree) :
    denote ans (seqT t k) = ((denote ans (k (denote ans t).1)).1, (denote ans t).2 ++ (denote ans (k (denote ans t).1)).2) := by
  simp [seqT, denote, denoteList]

theorem denote_seqList (ans : Answers) : ∀ (ts : List TTree) (k : List Out → TTree),
    denote ans (seqList ts k) = denote ans (.gather ts k)
  | [], k => by simp [seqList, denote, denoteList]
  | t :: ts, k => by
    simp only [seqList, denote_seqT, denote_seqList ans ts, denote, denoteList, List.append_assoc]

/-- several independent requests in flight: each has its own answers, tree and error list -/
abbrev Conf := Answers × TTree × List GErr

inductive FamStep : List Conf → List Conf → Prop
  | step (pre post : List Conf) (ans : Answers) (t t' : TTree) (log log' : List GErr) :
      Step ans (t, log) (t', log') → FamStep (pre ++ (ans, t, log) :: post) (pre ++ (ans, t', log') :: post)

inductive FamSteps : List Conf → List Conf → Prop
  | refl (cs : List Conf) : FamSteps cs cs
  | cons {a b c : List Conf} : FamStep a b → FamSteps b c → FamSteps a c

/-- what stays invariant for every request of the family, however the steps interleave -/
def ConfRel (c c' : Conf) : Prop :=
  c'.1 = c.1 ∧ (denote c.1 c'.2.1).1 = (denote c.1 c.2.1).1 ∧
  (c'.2.2 ++ (denote c.1 c'.2.1).2).Perm (c.2.2 ++ (denote c.1 c.2.1).2)

/-- pointwise relation between two families of the same length -/
inductive AllRel : List Conf → List Conf → Prop
  | nil : AllRel [] []
  | cons {a b : Conf} {as bs : List Conf} : ConfRel a b → AllRel as bs → AllRel (a :: as) (b :: bs)

theorem ConfRel.refl (c : Conf) : ConfRel c c := ⟨rfl, rfl, List.Perm.refl _⟩

theorem famStep_rel {a b : List Conf} (h : FamStep a b) : AllRel a b := by
  cases h with
  | step pre post ans t t' log log' hs =>
    have hp := step_preserves ans hs
    have hrefl : ∀ (l : List Conf), AllRel l l := by
      intro l; induction l with
      | nil => exact .nil
      | cons x xs ih => exact .cons (ConfRel.refl x) ih
    induction pre with
    | nil => exact .cons ⟨rfl, hp.1, hp.2.1⟩ (hrefl post)
    | cons p ps ih => exact .cons (ConfRel.refl p) ih

theorem forall2_trans {a b c : List Conf} (h1 : AllRel a b) (h2 : AllRel b c) :
    AllRel a c := by
  induction h1 generalizing c with
  | nil => cases h2; exact .nil
  | cons hab _ ih =>
    cases h2 with
    | cons hbc hrest =>
      refine .cons ?_ (ih hrest)
      obtain ⟨e1, v1, p1⟩ := hab
      obtain ⟨e2, v2, p2⟩ := hbc
      refine ⟨e2.trans e1, ?_, ?_⟩
      · rw [e1] at v2; exact v2.trans v1
      · rw [e1] at p2; exact p2.trans p1

theorem famSteps_rel {a b : List Conf} (h : FamSteps a b) : AllRel a b := by
  induction h with
  | refl cs =>
    induction cs with
    | nil => exact .nil
    | cons x xs ih => exact .cons (ConfRel.refl x) ih
  | cons hstep _ ih => exact forall2_trans (famStep_rel hstep) ih

end Tart
