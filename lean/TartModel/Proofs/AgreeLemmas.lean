import TartModel.Impl.ExecT
import TartModel.Proofs.TTreeLemmas
/-
  The direct executor `run` (Impl/Exec.lean: the model the C01–C05 theorems are about) and the
  task-tree executor `runT` (Impl/ExecT.lean: the model the C08/C09/C15 theorems are about) are the
  same function: the denotation of the tree is the direct result, and the errors it emits are the
  errors the direct run appends.  With `stepsN_preserve` (every schedule of a tree ends in its
  denotation) this carries every theorem about `run` to every schedule of the asynchronous executor.
-/
namespace Tart

def resToOut : Res → Out
  | .ok v => .ok v
  | .error es => .error (.multi es)

/-- a direct result (value, state after) agrees with a tree started in state `st` -/
def Agrees (ans : Answers) (r : Except Exn PyVal × St) (st : St) (t : TTree) : Prop :=
  r.1 = (denote ans t).1 ∧ r.2.errors = st.errors ++ (denote ans t).2

def AgreesR (ans : Answers) (c : Res × St) (st : St) (t : TTree) : Prop :=
  resToOut c.1 = (denote ans t).1 ∧ c.2.errors = st.errors ++ (denote ans t).2

def RecAgree (ans : Answers) (rec : Rec) (recT : RecT) : Prop :=
  ∀ job st, Agrees ans (rec job st) st (recT job)

theorem Agrees.shift {ans : Answers} {r : Except Exn PyVal × St} {st st' : St} {t : TTree}
    (h : Agrees ans r st' t) (he : st'.errors = st.errors) : Agrees ans r st t := by
  unfold Agrees at *; rw [← he]; exact h

theorem catch_agree (ans : Answers) (nn : Bool) (nodes : List Selection) (p : List PathSeg)
    (r : Except Exn PyVal × St) (st : St) (t : TTree) (h : Agrees ans r st t) :
    AgreesR ans (catchField nn nodes p r) st (catchT nn nodes p t) := by
  obtain ⟨h1, h2⟩ := h
  obtain ⟨out, st'⟩ := r
  simp only at h1 h2
  unfold AgreesR catchT
  rw [denote_seqT, ← h1]
  cases out with
  | ok v => simp [catchField, denote, resToOut, h2]
  | error e =>
    cases nn with
    | true => simp [catchField, denote, resToOut, raisedOf, h2]
    | false => simp [catchField, denote, resToOut, h2, List.append_assoc]

theorem item_agree (ans : Answers) (rec : Rec) (recT : RecT) (hrec : RecAgree ans rec recT)
    (t : TypeRef) (pt fname : String) (nodes : List Selection) (path : List PathSeg) (ix : Nat × PyVal) (st : St) :
    AgreesR ans (itemStep rec t pt fname nodes path ix st) st (itemT recT t pt fname nodes path ix) := by
  obtain ⟨i, x⟩ := ix
  have hdone : ∀ e : Exn, Agrees ans (Except.error e, st) st (.done (.error e)) := by
    intro e; simp [Agrees, denote]
  cases x <;> simp only [itemStep, itemT] <;>
    first
    | exact catch_agree ans _ _ _ _ st _ (hrec _ st)
    | exact catch_agree ans _ _ _ _ st _ (hdone _)

theorem mapSt_agree (ans : Answers) {α : Type} (f : α → St → Res × St) (fT : α → TTree)
    (h : ∀ a st, AgreesR ans (f a st) st (fT a)) :
    ∀ (items : List α) (st : St),
      (mapSt f items st).1.map resToOut = (denoteList ans (items.map fT)).1 ∧
      (mapSt f items st).2.errors = st.errors ++ (denoteList ans (items.map fT)).2
  | [], st => by simp [mapSt, denoteList]
  | a :: as, st => by
    have h1 := h a st
    have h2 := mapSt_agree ans f fT h as (f a st).2
    unfold AgreesR at h1
    simp only [mapSt, List.map_cons, denoteList]
    refine ⟨?_, ?_⟩
    · rw [h1.1, h2.1]
    · rw [h2.2, h1.2, List.append_assoc]

theorem gatherOuts_resToOut : ∀ rs : List Res, gatherOuts (rs.map resToOut) = gatherRes rs
  | [] => rfl
  | r :: rs => by
    simp only [List.map_cons, gatherOuts, gatherRes, gatherOuts_resToOut rs]
    cases r <;> cases gatherRes rs <;> simp [resToOut]

theorem completeList_agree (ans : Answers) (rec : Rec) (recT : RecT) (hrec : RecAgree ans rec recT) (conc : Bool)
    (t : TypeRef) (pt fname : String) (nodes : List Selection) (path : List PathSeg) (items : List PyVal) (st : St) :
    Agrees ans (completeList rec t pt fname nodes path items st) st (completeListT recT conc t pt fname nodes path items) := by
  have hm := mapSt_agree ans (itemStep rec t pt fname nodes path) (itemT recT t pt fname nodes path)
    (fun a st => item_agree ans rec recT hrec t pt fname nodes path a st) (enumFrom 0 items) st
  have hd : ∀ ts k, denote ans ((if conc then TTree.gather else seqList) ts k) = denote ans (.gather ts k) := by
    intro ts k; cases conc
    · simp [denote_seqList]
    · simp
  unfold Agrees completeList completeListT
  rw [hd]
  simp only [denote]
  rw [← hm.1, gatherOuts_resToOut]
  cases hg : gatherRes (mapSt (itemStep rec t pt fname nodes path) (enumFrom 0 items) st).1 with
  | ok vs => simp [denote, hm.2]
  | error es => simp [denote, raisedOf, hm.2]

theorem resolverResult_name (spec : ResolverSpec) (parent : PyVal) (a b : String) (args : List (String × PyVal))
    (h : spec ≠ .default) : resolverResult spec parent a args = resolverResult spec parent b args := by
  cases spec <;> first | rfl | exact absurd rfl h

theorem logCall_errors (spec : ResolverSpec) (coord : String) (path : List PathSeg) (parent : PyVal)
    (args : List (String × PyVal)) (st : St) : (logCall spec coord path parent args st).errors = st.errors := by
  cases spec <;> rfl

theorem call_denote (ans : Answers) (nn : Bool) (nodes : List Selection) (p : List PathSeg) (g : Gate) (cont : Out → TTree) :
    denote ans (catchT nn nodes p (.call g cont)) = denote ans (catchT nn nodes p (cont (ans g))) := by
  simp [catchT, denote_seqT, denote]

theorem fieldStep_key (rec : Rec) (fuel : Nat) (ctx : Ctx) (tn : String) (parent : PyVal) (path : List PathSeg) (d : FieldJob) (st : St) :
    (fieldStep rec fuel ctx tn parent path d st).1.1 = d.1 := by
  simp only [fieldStep]
  split <;> rfl

theorem field_agree (rec : Rec) (recT : RecT) (fuel : Nat) (ctx : Ctx) (hrec : RecAgree (answersOf ctx.env) rec recT)
    (tn : String) (parent : PyVal) (path : List PathSeg) (d : FieldJob) (st : St) :
    AgreesR (answersOf ctx.env) ((fieldStep rec fuel ctx tn parent path d st).1.2, (fieldStep rec fuel ctx tn parent path d st).2) st
      (fieldT recT fuel ctx tn parent path d) := by
  have hdone : ∀ (e : Exn) (s : St), s.errors = st.errors → Agrees (answersOf ctx.env) (Except.error e, s) st (.done (.error e)) := by
    intro e s hs; simp [Agrees, denote, hs]
  unfold fieldStep resolveValue fieldT
  cases hca : coerceArguments fuel ctx.S ctx.o d.2.2.args d.2.1.head!.floc d.2.1.head!.fargs ctx.vars with
  | error errs =>
    simp only
    exact catch_agree _ _ _ _ _ st _ (hdone _ st rfl)
  | ok args =>
    simp only
    by_cases hty : d.2.2.name == "__typename"
    · simp only [hty, ↓reduceIte]
      exact catch_agree _ _ _ _ _ st _ (hrec _ st)
    · simp only [hty, Bool.false_eq_true, ↓reduceIte]
      cases hspec : resolverOf ctx.env (tn ++ "." ++ d.2.2.name) with
      | default =>
        simp only [resolverResult, logCall]
        cases ho : raiseIfExc (Except.ok (defaultResolve parent d.2.2.name)) with
        | error e => exact catch_agree _ _ _ _ _ st _ (hdone e st rfl)
        | ok v => exact catch_agree _ _ _ _ _ st _ (hrec _ st)
      | const c =>
        have hle := logCall_errors (.const c) (tn ++ "." ++ d.2.2.name) (path ++ [PathSeg.key d.1]) parent args st
        simp only []
        unfold AgreesR
        rw [call_denote]
        simp only [answersOf, hspec]
        rw [resolverResult_name (.const c) parent "" d.2.2.name args (by simp)]
        cases ho : raiseIfExc (resolverResult (.const c) parent d.2.2.name args) with
        | error e => exact catch_agree _ _ _ _ _ st _ (hdone e _ hle)
        | ok v => exact catch_agree _ _ _ _ _ st _ ((hrec _ _).shift hle)
      | raise x =>
        have hle := logCall_errors (.raise x) (tn ++ "." ++ d.2.2.name) (path ++ [PathSeg.key d.1]) parent args st
        simp only []
        unfold AgreesR
        rw [call_denote]
        simp only [answersOf, hspec]
        rw [resolverResult_name (.raise x) parent "" d.2.2.name args (by simp)]
        cases ho : raiseIfExc (resolverResult (.raise x) parent d.2.2.name args) with
        | error e => exact catch_agree _ _ _ _ _ st _ (hdone e _ hle)
        | ok v => exact catch_agree _ _ _ _ _ st _ ((hrec _ _).shift hle)
      | parentKey k =>
        have hle := logCall_errors (.parentKey k) (tn ++ "." ++ d.2.2.name) (path ++ [PathSeg.key d.1]) parent args st
        simp only []
        unfold AgreesR
        rw [call_denote]
        simp only [answersOf, hspec]
        rw [resolverResult_name (.parentKey k) parent "" d.2.2.name args (by simp)]
        cases ho : raiseIfExc (resolverResult (.parentKey k) parent d.2.2.name args) with
        | error e => exact catch_agree _ _ _ _ _ st _ (hdone e _ hle)
        | ok v => exact catch_agree _ _ _ _ _ st _ ((hrec _ _).shift hle)
      | argEcho a =>
        have hle := logCall_errors (.argEcho a) (tn ++ "." ++ d.2.2.name) (path ++ [PathSeg.key d.1]) parent args st
        simp only []
        unfold AgreesR
        rw [call_denote]
        simp only [answersOf, hspec]
        rw [resolverResult_name (.argEcho a) parent "" d.2.2.name args (by simp)]
        cases ho : raiseIfExc (resolverResult (.argEcho a) parent d.2.2.name args) with
        | error e => exact catch_agree _ _ _ _ _ st _ (hdone e _ hle)
        | ok v => exact catch_agree _ _ _ _ _ st _ ((hrec _ _).shift hle)

def accRes (acc : List (String × PyVal)) : Except (List GErr) (List (String × PyVal)) → Except (List GErr) (List (String × PyVal))
  | .ok kvs => .ok (acc ++ kvs)
  | .error es => .error es

theorem serial_agree (ans : Answers) (f : FieldJob → St → (String × Res) × St) (fT : FieldJob → TTree)
    (h : ∀ d st, AgreesR ans ((f d st).1.2, (f d st).2) st (fT d)) (hk : ∀ d st, (f d st).1.1 = d.1) :
    ∀ (defs : List FieldJob) (acc : List (String × PyVal)) (k : Except (List GErr) (List (String × PyVal)) → TTree) (st : St),
      ∃ es, (serialSt f defs st).2.errors = st.errors ++ es ∧
        denote ans (serialT fT defs acc k) =
          ((denote ans (k (accRes acc (serialSt f defs st).1))).1, es ++ (denote ans (k (accRes acc (serialSt f defs st).1))).2)
  | [], acc, k, st => ⟨[], by simp [serialSt, serialT, accRes]⟩
  | d :: ds, acc, k, st => by
    have h1 := h d st
    have hk1 := hk d st
    unfold AgreesR at h1
    rcases hf : f d st with ⟨⟨key, res⟩, s1⟩
    rw [hf] at h1 hk1
    simp only at h1 hk1
    subst hk1
    cases res with
    | error es0 =>
      refine ⟨(denote ans (fT d)).2, ?_, ?_⟩
      · simp only [serialSt, hf]; exact h1.2
      · simp only [serialT, denote_seqT, ← h1.1, resToOut, serialSt, hf, accRes]
    | ok v =>
      obtain ⟨es', he', hd'⟩ := serial_agree ans f fT h hk ds (acc ++ [(d.1, v)]) k s1
      refine ⟨(denote ans (fT d)).2 ++ es', ?_, ?_⟩
      · simp only [serialSt, hf]
        rcases hs : serialSt f ds s1 with ⟨r2, s2⟩
        rw [hs] at he'
        cases r2 <;> simp only [] <;> rw [he', h1.2, List.append_assoc]
      · simp only [serialT, denote_seqT, ← h1.1, resToOut, hd', List.append_assoc]
        simp only [serialSt, hf]
        rcases hs : serialSt f ds s1 with ⟨r2, s2⟩
        cases r2 <;> simp [accRes]

theorem mapStKV_agree (ans : Answers) (f : FieldJob → St → (String × Res) × St) (fT : FieldJob → TTree)
    (h : ∀ d st, AgreesR ans ((f d st).1.2, (f d st).2) st (fT d)) (hk : ∀ d st, (f d st).1.1 = d.1) :
    ∀ (defs : List FieldJob) (st : St),
      zipKeys defs (denoteList ans (defs.map fT)).1 = (mapSt f defs st).1 ∧
      (mapSt f defs st).2.errors = st.errors ++ (denoteList ans (defs.map fT)).2
  | [], st => by simp [mapSt, denoteList, zipKeys]
  | d :: ds, st => by
    have h1 := h d st
    have hk1 := hk d st
    have h2 := mapStKV_agree ans f fT h hk ds (f d st).2
    unfold AgreesR at h1
    rcases hf : f d st with ⟨⟨key, res⟩, s1⟩
    rw [hf] at h1 hk1 h2
    simp only at h1 hk1 h2
    subst hk1
    simp only [mapSt, hf, List.map_cons, denoteList]
    refine ⟨?_, ?_⟩
    · have : zipKeys (d :: ds) ((denote ans (fT d)).1 :: (denoteList ans (ds.map fT)).1) =
          (d.1, res) :: zipKeys ds (denoteList ans (ds.map fT)).1 := by
        rw [← h1.1]
        cases res <;> simp [zipKeys, resToOut]
      rw [this, h2.1]
    · rw [h2.2, h1.2, List.append_assoc]

theorem executeFields_agree (rec : Rec) (recT : RecT) (fuel : Nat) (ctx : Ctx) (hrec : RecAgree (answersOf ctx.env) rec recT)
    (tn : String) (parent : PyVal) (path : List PathSeg) (defs : List FieldJob) (serial : Bool) (st : St) :
    Agrees (answersOf ctx.env) (executeFields rec fuel ctx tn parent path defs serial st) st
      (executeFieldsT recT fuel ctx tn parent path defs serial) := by
  have hf := fun d st => field_agree rec recT fuel ctx hrec tn parent path d st
  have hk := fun d st => fieldStep_key rec fuel ctx tn parent path d st
  unfold Agrees executeFields executeFieldsT
  cases serial with
  | true =>
    simp only [↓reduceIte]
    obtain ⟨es, he, hd⟩ := serial_agree (answersOf ctx.env) _ _ hf hk defs [] finishSerial st
    rw [hd]
    rcases hs : serialSt (fieldStep rec fuel ctx tn parent path) defs st with ⟨r, s1⟩
    rw [hs] at he
    simp only at he
    cases r <;> simp [accRes, finishSerial, denote, raisedOf, he]
  | false =>
    simp only [Bool.false_eq_true, ↓reduceIte]
    obtain ⟨es, he, hd⟩ := serial_agree (answersOf ctx.env) _ _ hf hk (defs.filter fun d => !d.2.2.parentConc) []
      (afterInline (fieldT recT fuel ctx tn parent path) defs) st
    rw [hd]
    rcases hs : serialSt (fieldStep rec fuel ctx tn parent path) (defs.filter fun d => !d.2.2.parentConc) st with ⟨r, s1⟩
    rw [hs] at he
    simp only at he
    cases r with
    | error es1 => simp [accRes, afterInline, denote, raisedOf, he]
    | ok kv1 =>
      have hm := mapStKV_agree (answersOf ctx.env) _ _ hf hk (defs.filter fun d => d.2.2.parentConc) s1
      simp only [accRes, List.nil_append, afterInline, denote, finishGather]
      rw [hm.1]
      cases hg : gatherKV (mapSt (fieldStep rec fuel ctx tn parent path) (defs.filter fun d => d.2.2.parentConc) s1).1 with
      | error es2 => simp [denote, raisedOf, hm.2, he, List.append_assoc]
      | ok kv2 => simp [denote, hm.2, he, List.append_assoc]

theorem completeNamed_agree (rec : Rec) (recT : RecT) (fuel : Nat) (ctx : Ctx) (hrec : RecAgree (answersOf ctx.env) rec recT)
    (tn pt fname : String) (nodes : List Selection) (path : List PathSeg) (v : PyVal) (st : St) :
    Agrees (answersOf ctx.env) (completeNamed rec fuel ctx tn pt fname nodes path v st) st
      (completeNamedT recT fuel ctx tn pt fname nodes path v) := by
  unfold completeNamed completeNamedT
  cases hft : ctx.S.findType tn with
  | none => simp [Agrees, denote]
  | some td =>
    cases td with
    | scalar nm =>
      simp only []
      cases hso : scalarOut ctx.o tn v with
      | error e => simp [Agrees, denote]
      | ok r => cases r <;> simp [Agrees, denote]
    | enum nm vals =>
      simp only []
      cases v <;> simp only [] <;> first | (split <;> simp [Agrees, denote]) | simp [Agrees, denote]
    | object nm fs is => simp only []; exact hrec _ st
    | interface nm fs =>
      simp only []
      cases hv : validRuntimeType ctx.S tn (resolveTypeName ctx pt fname tn v) with
      | none => simp [Agrees, denote]
      | some rt => simp only []; exact hrec _ st
    | union nm ms =>
      simp only []
      cases hv : validRuntimeType ctx.S tn (resolveTypeName ctx pt fname tn v) with
      | none => simp [Agrees, denote]
      | some rt => simp only []; exact hrec _ st
    | input nm fs => simp [Agrees, denote]

/-- the direct executor and the task-tree executor are the same function -/
theorem run_agrees : ∀ (fuel : Nat) (ctx : Ctx), RecAgree (answersOf ctx.env) (run fuel ctx) (runT fuel ctx) := by
  intro fuel
  induction fuel with
  | zero => intro ctx job st; simp [run, runT, Agrees, denote]
  | succ n ih =>
    intro ctx job st
    cases job with
    | complete ty pt fname nodes path v =>
      cases ty with
      | nonNull t =>
        have h := ih ctx (.complete t pt fname nodes path v) st
        unfold Agrees at h ⊢
        simp only [run, runT, denote_seqT]
        rcases hr : run n ctx (.complete t pt fname nodes path v) st with ⟨out, st'⟩
        rw [hr] at h
        simp only at h
        rw [← h.1]
        cases out with
        | error e => simp [denote, h.2]
        | ok x => cases x <;> simp [denote, h.2]
      | list t =>
        simp only [run, runT]
        split
        · simp [Agrees, denote]
        · exact completeList_agree _ _ _ (ih ctx) _ t pt fname nodes path _ st
        · simp [Agrees, denote]
      | named tn =>
        cases v <;> simp only [run, runT] <;>
          first
          | exact completeNamed_agree _ _ (n+1) ctx (ih ctx) tn pt fname nodes path _ st
          | simp [Agrees, denote]
    | fields tn parent path collected serial =>
      simp only [run, runT]
      exact executeFields_agree _ _ (n+1) ctx (ih ctx) tn parent path _ serial st

end Tart
