import TartModel.Impl.Directives
namespace Tart.Dir

mutual
/-- the JSON value a constant literal of this universe denotes -/
def jsonD : Value → Option DV
  | .str s => some (.str s)
  | .null => some .null
  | .enum n => some (.str n)
  | .list vs => (jsonDList vs).map DV.list
  | .obj fs => (jsonDFields fs).map DV.obj
  | _ => none
def jsonDList : List Value → Option (List DV)
  | [] => some []
  | v :: vs => match jsonD v, jsonDList vs with | some j, some js => some (j :: js) | _, _ => none
def jsonDFields : List (String × Value) → Option (List (String × DV))
  | [] => some []
  | (k, v) :: fs => match jsonD v, jsonDFields fs with | some j, some js => some ((k, j) :: js) | _, _ => none
end

inductive NatLitD (S : DSchema) : TypeRef → Value → Prop
  | null (t : TypeRef) : NatLitD S t .null
  | nonNull (t : TypeRef) (v : Value) (hv : v ≠ .null) (h : NatLitD S t v) : NatLitD S (.nonNull t) v
  | list (t : TypeRef) (vs : List Value) (h : ∀ v ∈ vs, NatLitD S t v) : NatLitD S (.list t) (.list vs)
  | single (t : TypeRef) (v : Value) (hl : ∀ vs, v ≠ .list vs) (hn : v ≠ .null) (h : NatLitD S t v) : NatLitD S (.list t) v
  | scalar (tn nm : String) (dirs : List Use) (s : String) (hs : S.findIn tn = some (.scalar nm dirs)) : NatLitD S (.named tn) (.str s)
  | enum (tn nm : String) (dirs : List Use) (vals : List (String × List Use)) (x : String)
      (hs : S.findIn tn = some (.enum nm dirs vals)) : NatLitD S (.named tn) (.enum x)
  | input (tn nm : String) (dirs : List Use) (fields : List InField) (fs : List (String × Value))
      (hs : S.findIn tn = some (.input nm dirs fields)) (hu : (fs.map (·.1)).Nodup)
      (hk : ∀ kv ∈ fs, ∃ fd ∈ fields, fd.name = kv.1)
      (hf : ∀ kv ∈ fs, ∀ fd ∈ fields, fd.name = kv.1 → NatLitD S fd.type kv.2) : NatLitD S (.named tn) (.obj fs)

/-- SDL defaults of input fields are natural constant literals for their field's type -/
def DefaultsNat (S : DSchema) : Prop :=
  ∀ tn nm dirs fields, S.findIn tn = some (.input nm dirs fields) → ∀ fd ∈ fields, ∀ d, fd.default = some d →
    NatLitD S fd.type d ∧ ∃ j, jsonD d = some j

def LitInAt (S : DSchema) (n : Nat) : Prop :=
  ∀ vars nn ty node j, NatLitD S ty node → jsonD node = some j → coerceLit n S vars nn ty node = coerceIn n S ty j

theorem jsonD_not_var (node : Value) (j : DV) (h : jsonD node = some j) : isVarNode node = false ∧ ∀ vars, isMissingVariable node vars = false := by
  cases node <;> simp [jsonD] at h <;> simp [isVarNode, isMissingVariable]

theorem jsonD_ne_null (node : Value) (j : DV) (hn : node ≠ .null) (h : jsonD node = some j) : j ≠ .null := by
  cases node <;> simp [jsonD] at h <;> first | exact absurd rfl hn | (try obtain ⟨_, _, rfl⟩ := h) <;> (try subst h) <;> simp

theorem jsonD_not_list (node : Value) (j : DV) (hl : ∀ vs, node ≠ .list vs) (h : jsonD node = some j) : ∀ xs, j ≠ .list xs := by
  intro xs
  cases node <;> simp [jsonD] at h <;> first | exact absurd rfl (hl _) | (try obtain ⟨_, _, rfl⟩ := h) <;> (try subst h) <;> simp

theorem litWrapped_body (vars : Option Vars) (nn : Bool) (node : Value) (body : R DV) (hn : node ≠ .null) (hv : isVarNode node = false) :
    litWrapped vars nn node body = body := by
  cases node <;> simp [isVarNode] at hv <;> simp [litWrapped] <;> exact absurd rfl hn

theorem mapR_congr {α β : Type} (f g : α → R β) : ∀ l : List α, (∀ a ∈ l, f a = g a) → mapR f l = mapR g l
  | [], _ => rfl
  | a :: as, h => by
    simp only [mapR]
    rw [h a (by simp), mapR_congr f g as (fun x hx => h x (by simp [hx]))]

theorem list_items (S : DSchema) (n : Nat) (ih : LitInAt S n) (vars : Option Vars) (t : TypeRef) :
    ∀ (vs : List Value) (js : List DV), (∀ v ∈ vs, NatLitD S t v) → jsonDList vs = some js →
      mapR (litListItem (coerceLit n S vars) vars t) vs = mapR (coerceIn n S t) js
  | [], js, _, hj => by simp [jsonDList] at hj; subst hj; rfl
  | v :: vs, js, hn, hj => by
    simp only [jsonDList] at hj
    cases hjv : jsonD v with
    | none => simp [hjv] at hj
    | some j0 =>
      cases hjs : jsonDList vs with
      | none => simp [hjv, hjs] at hj
      | some js0 =>
        simp [hjv, hjs] at hj; subst hj
        simp only [mapR, litListItem, (jsonD_not_var v j0 hjv).2 vars, Bool.false_eq_true, ↓reduceIte]
        rw [ih vars false t v j0 (hn v (by simp)) hjv, list_items S n ih vars t vs js0 (fun x hx => hn x (by simp [hx])) hjs]

theorem lookupLast_some_mem (k : String) (fs : List (String × Value)) (vn : Value) (h : lookupLast k fs = some vn) : (k, vn) ∈ fs := by
  unfold lookupLast at h
  cases hf : fs.reverse.find? (fun p => p.1 == k) with
  | none => simp [hf] at h
  | some p =>
    simp [hf] at h
    have hm := List.mem_of_find?_eq_some hf
    have hp := List.find?_some hf
    simp at hp
    obtain ⟨a, b⟩ := p
    simp at hp h; subst hp; subst h
    simpa using hm

theorem lookupLast_none_notin (k : String) (fs : List (String × Value)) (h : lookupLast k fs = none) : ∀ kv ∈ fs, kv.1 ≠ k := by
  unfold lookupLast at h
  cases hf : fs.reverse.find? (fun p => p.1 == k) with
  | some p => simp [hf] at h
  | none =>
    intro kv hkv hk
    have := List.find?_eq_none.mp hf kv (by simpa using hkv)
    simp [hk] at this

theorem jsonDFields_keys : ∀ (fs : List (String × Value)) (kvs : List (String × DV)),
    jsonDFields fs = some kvs → kvs.map (·.1) = fs.map (·.1)
  | [], kvs, h => by simp [jsonDFields] at h; subst h; rfl
  | (k, v) :: fs, kvs, h => by
    simp only [jsonDFields] at h
    cases hj : jsonD v with
    | none => simp [hj] at h
    | some j =>
      cases hjs : jsonDFields fs with
      | none => simp [hj, hjs] at h
      | some js => simp [hj, hjs] at h; subst h; simp [jsonDFields_keys fs js hjs]

theorem jsonDFields_mem : ∀ (fs : List (String × Value)) (kvs : List (String × DV)),
    jsonDFields fs = some kvs → ∀ k vn, (k, vn) ∈ fs → ∃ jv, jsonD vn = some jv ∧ (k, jv) ∈ kvs
  | [], _, _, k, vn, hm => by cases hm
  | (k0, v0) :: fs, kvs, h, k, vn, hm => by
    simp only [jsonDFields] at h
    cases hj : jsonD v0 with
    | none => simp [hj] at h
    | some j =>
      cases hjs : jsonDFields fs with
      | none => simp [hj, hjs] at h
      | some js =>
        simp [hj, hjs] at h; subst h
        simp only [List.mem_cons] at hm
        rcases hm with heq | hm
        · cases heq; exact ⟨j, hj, by simp⟩
        · obtain ⟨jv, h1, h2⟩ := jsonDFields_mem fs js hjs k vn hm
          exact ⟨jv, h1, by simp [h2]⟩

theorem lookup_of_mem_nodup : ∀ (kvs : List (String × DV)) (k : String) (v : DV),
    (kvs.map (·.1)).Nodup → (k, v) ∈ kvs → lookup k kvs = some v
  | [], _, _, _, hm => by cases hm
  | (k0, v0) :: rest, k, v, hnd, hm => by
    simp only [List.map_cons, List.nodup_cons] at hnd
    simp only [List.mem_cons] at hm
    rcases hm with heq | hm
    · cases heq; simp [lookup]
    · have hne : k0 ≠ k := by
        intro he; subst he
        exact hnd.1 (List.mem_map.mpr ⟨(k0, v), hm, rfl⟩)
      have := lookup_of_mem_nodup rest k v hnd.2 hm
      unfold lookup at this ⊢
      simp only [List.find?_cons]
      have hb : ((k0, v0).1 == k) = false := by simp [hne]
      rw [hb]; exact this

theorem lookup_none_of_notin : ∀ (kvs : List (String × DV)) (k : String), (∀ kv ∈ kvs, kv.1 ≠ k) → lookup k kvs = none
  | [], _, _ => rfl
  | (k0, v0) :: rest, k, h => by
    have hne : k0 ≠ k := h (k0, v0) (by simp)
    have := lookup_none_of_notin rest k (fun kv hkv => h kv (by simp [hkv]))
    unfold lookup at this ⊢
    simp only [List.find?_cons]
    have hb : ((k0, v0).1 == k) = false := by simp [hne]
    rw [hb]; exact this

theorem field_eq (S : DSchema) (n : Nat) (ih : LitInAt S n) (vars : Option Vars)
    (fields : List InField) (fs : List (String × Value)) (kvs : List (String × DV))
    (hu : (fs.map (·.1)).Nodup) (hj : jsonDFields fs = some kvs)
    (hf : ∀ kv ∈ fs, ∀ fd ∈ fields, fd.name = kv.1 → NatLitD S fd.type kv.2)
    (hdef : ∀ fd ∈ fields, ∀ d, fd.default = some d → NatLitD S fd.type d ∧ ∃ j, jsonD d = some j)
    (fd : InField) (hfd : fd ∈ fields) :
    litField S.impls (coerceLit n S vars) vars fs fd = inField S.impls (coerceIn n S) (coerceLit n S none) kvs fd := by
  have hkeys := jsonDFields_keys fs kvs hj
  have hdflt : ∀ d, fd.default = some d → fieldLit S.impls (coerceLit n S vars) fd d = fieldLit S.impls (coerceLit n S none) fd d := by
    intro d hd
    obtain ⟨hnat, jd, hjd⟩ := hdef fd hfd d hd
    unfold fieldLit
    rw [ih vars false fd.type d jd hnat hjd, ih none false fd.type d jd hnat hjd]
  unfold litField inField
  cases hl : lookupLast fd.name fs with
  | none =>
    have hnone : lookup fd.name kvs = none := by
      apply lookup_none_of_notin
      intro kv hkv hk
      have : kv.1 ∈ fs.map (·.1) := by rw [← hkeys]; exact List.mem_map.mpr ⟨kv, hkv, rfl⟩
      obtain ⟨kv', hkv', he⟩ := List.mem_map.mp this
      exact lookupLast_none_notin fd.name fs hl kv' hkv' (by rw [he, hk])
    simp only [hnone]
    cases hd : fd.default with
    | none => rfl
    | some d => simp only []; exact hdflt d hd
  | some vn =>
    have hmem := lookupLast_some_mem fd.name fs vn hl
    obtain ⟨jv, hjv, hjmem⟩ := jsonDFields_mem fs kvs hj fd.name vn hmem
    have hkv : lookup fd.name kvs = some jv := lookup_of_mem_nodup kvs fd.name jv (by rw [hkeys]; exact hu) hjmem
    have hnv := jsonD_not_var vn jv hjv
    simp only [hkv, hnv.2 vars, Bool.false_eq_true, ↓reduceIte, fieldLit, litHooks, Bool.not_true, Bool.and_false]
    rw [ih vars false fd.type vn jv (hf (fd.name, vn) hmem fd hfd rfl) hjv]

theorem bindR_ret_left {α β : Type} (a : α) (f : α → R β) : bind (ret a) f = f a := by
  simp only [Dir.bind, ret]
  cases h : f a with
  | none => rfl
  | some p => obtain ⟨b, e⟩ := p; simp

/-- literal coercion of a constant literal = JSON coercion of the value it denotes: same value, same hook
    invocations in the same order — for every type and nesting depth, whatever the request's variables are -/
theorem lit_in_all (S : DSchema) (hD : DefaultsNat S) : ∀ n, LitInAt S n := by
  intro n
  induction n with
  | zero => intro vars nn ty node j _ _; simp [coerceLit, coerceIn]
  | succ n ih =>
    intro vars nn ty node j hnat hj
    cases hnat with
    | @null t =>
      simp [jsonD] at hj; subst hj
      cases ty with
      | nonNull t => simp [coerceLit, coerceIn]
      | list t => simp [coerceLit, coerceIn, litWrapped]
      | named tn =>
        simp only [coerceLit, coerceIn]
        cases S.findIn tn with
        | none => rfl
        | some d => simp [litHooks, isVarNode, litWrapped, inNamedCore]
    | @nonNull t v0 hv hn =>
      have hjn := jsonD_ne_null node j hv hj
      have h1 : coerceLit (n+1) S vars nn (.nonNull t) node = coerceLit n S vars true t node := by
        cases node <;> simp [coerceLit] <;> exact absurd rfl hv
      have h2 : coerceIn (n+1) S (.nonNull t) j = coerceIn n S t j := by
        cases j <;> simp [coerceIn] <;> exact absurd rfl hjn
      rw [h1, h2]; exact ih vars true t node j hn hj
    | @list t vs hall =>
      simp only [jsonD, Option.map_eq_some_iff] at hj
      obtain ⟨js, hjs, rfl⟩ := hj
      simp only [coerceLit, litWrapped, litListCore, coerceIn]
      rw [list_items S n ih vars t vs js hall hjs]
    | @single t v0 hl hn hnat0 =>
      have hnv := jsonD_not_var node j hj
      have hjn := jsonD_ne_null node j hn hj
      have hjl := jsonD_not_list node j hl hj
      have h1 : coerceLit (n+1) S vars nn (.list t) node = bind (coerceLit n S vars false t node) fun r => ret (.list [r]) := by
        simp only [coerceLit]
        rw [litWrapped_body vars nn node _ hn hnv.1]
        cases node <;> first | rfl | exact absurd rfl (hl _)
      have h2 : coerceIn (n+1) S (.list t) j = bind (coerceIn n S t j) fun r => ret (.list [r]) := by
        cases j <;> first | rfl | exact absurd rfl hjn | exact absurd rfl (hjl _)
      rw [h1, h2, ih vars false t node j hnat0 hj]
    | @scalar tn nm dirs s hs =>
      simp [jsonD] at hj; subst hj
      simp [coerceLit, coerceIn, hs, litHooks, isVarNode, litWrapped, litNamedCore, inNamedCore, InDef.dirs]
    | @enum tn nm dirs vals x hs =>
      simp [jsonD] at hj; subst hj
      simp [coerceLit, coerceIn, hs, litHooks, isVarNode, litWrapped, litNamedCore, inNamedCore, InDef.dirs]
    | @input tn nm dirs fields fs hs hu hk hf =>
      simp only [jsonD, Option.map_eq_some_iff] at hj
      obtain ⟨kvs, hkvs, rfl⟩ := hj
      have hkeys := jsonDFields_keys fs kvs hkvs
      have hunk : (kvs.any fun kv => !fields.any (fun fd => fd.name == kv.1)) = false := by
        rw [List.any_eq_false]
        intro kv hkv
        have : kv.1 ∈ fs.map (·.1) := by rw [← hkeys]; exact List.mem_map.mpr ⟨kv, hkv, rfl⟩
        obtain ⟨kv', hkv', he⟩ := List.mem_map.mp this
        obtain ⟨fd, hfd, hname⟩ := hk kv' hkv'
        have : fields.any (fun fd => fd.name == kv.1) = true := by
          rw [List.any_eq_true]; exact ⟨fd, hfd, by simp [hname, he]⟩
        simp [this]
      have hm : mapR (litField S.impls (coerceLit n S vars) vars fs) fields =
          mapR (inField S.impls (coerceIn n S) (coerceLit n S none) kvs) fields :=
        mapR_congr _ _ fields (fun fd hfd => field_eq S n ih vars fields fs kvs hu hkvs hf (hD tn nm dirs fields hs) fd hfd)
      simp only [coerceLit, coerceIn, hs, litHooks, isVarNode, litWrapped, litNamedCore, inNamedCore, InDef.dirs, hunk, hm,
        Bool.false_and, Bool.false_eq_true, ↓reduceIte]

theorem bindR_assoc {α β γ : Type} (x : R α) (f : α → R β) (g : β → R γ) : bind (bind x f) g = bind x (fun a => bind (f a) g) := by
  cases x with
  | none => rfl
  | some p =>
    obtain ⟨a, e1⟩ := p
    simp only [Dir.bind]
    cases hf : f a with
    | none => rfl
    | some q =>
      obtain ⟨b, e2⟩ := q
      simp only
      cases hg : g b with
      | none => rfl
      | some r => simp [List.append_assoc]

/-- an argument written as a constant literal … -/
def argByLit (n : Nat) (S : DSchema) (ad : InField) (node : Value) (vars0 : Vars) : R (Option DV) :=
  coerceArgument n S ad (some node) vars0

/-- … or supplied through the variable `$x` (declared with the argument's type) carrying the JSON value the literal denotes -/
def argByVar (n : Nat) (S : DSchema) (ad : InField) (j : DV) : R (Option DV) :=
  bind (coerceVariables n S [⟨"x", ad.type, none⟩] [("x", j)]) fun vars => coerceArgument n S ad (some (.var "x")) vars

/-- the same value reaches the resolver and the same hooks run, in the same order, with the same values:
    type-level / enum-value / input-field / input-object hooks (at variable coercion time on the variable path, at
    argument coercion time on the literal path), then the argument's own hooks -/
theorem literal_eq_variable_general (n : Nat) (S : DSchema) (hD : DefaultsNat S) (ad : InField) (node : Value) (j : DV) (vars0 : Vars)
    (hnat : NatLitD S ad.type node) (hn : node ≠ .null) (hj : jsonD node = some j) (hnull : ad.type.isNonNull = false) :
    argByLit n S ad node vars0 = argByVar n S ad j := by
  have hnv := jsonD_not_var node j hj
  have hjn := jsonD_ne_null node j hn hj
  have hlit := lit_in_all S hD n (some vars0) false ad.type node j hnat hj
  unfold argByLit argByVar
  have h1 : coerceArgument n S ad (some node) vars0 = bind (coerceIn n S ad.type j) (argHooks S ad) := by
    cases node <;> simp [isVarNode] at hnv <;> first | exact absurd rfl hn | simp [coerceArgument, argHasValue, argIsNull, argProvided, argFinishLit, hnull, hlit]
  have h2 : coerceVariables n S [⟨"x", ad.type, none⟩] [("x", j)] = bind (coerceIn n S ad.type j) fun v => ret [("x", v)] := by
    simp only [coerceVariables, mapR, coerceVariable, lookup, List.find?, beq_self_eq_true, hnull, Bool.and_false, Bool.false_eq_true, ↓reduceIte,
      bindR_assoc, bindR_ret_left, Option.map, List.filterMap]
    rfl
  rw [h1, h2, bindR_assoc]
  congr 1
  funext v
  rw [bindR_ret_left]
  simp [coerceArgument, argHasValue, argIsNull, argProvided, lookup, hnull]

end Tart.Dir
