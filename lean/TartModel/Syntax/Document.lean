import TartModel.Syntax.Schema
/- Executable documents: the libgraphqlparser JSON AST decoded 1-1 (locations kept where the
   engine reports them). -/
namespace Tart

structure Loc where
  line : Nat
  col : Nat
deriving Repr, Inhabited, DecidableEq

structure Arg where
  name : String
  value : Value
  vloc : Loc                 -- location of the argument's value node
deriving Repr, Inhabited

structure Directive where
  name : String
  args : List Arg
  loc : Loc
deriving Repr, Inhabited

inductive Selection where
  | field (alias : Option String) (name : String) (args : List Arg) (dirs : List Directive)
          (loc : Loc) (sels : List Selection)
  | spread (name : String) (dirs : List Directive)
  | inline (typeCond : Option String) (dirs : List Directive) (sels : List Selection)
deriving Repr, Inhabited

namespace Selection
def isField : Selection → Bool | .field .. => true | _ => false
def fname : Selection → String | .field _ n .. => n | _ => ""
def key : Selection → String
  | .field (some a) _ .. => a
  | .field none n .. => n
  | _ => ""
def fargs : Selection → List Arg | .field _ _ a .. => a | _ => []
def fdirs : Selection → List Directive | .field _ _ _ d .. => d | _ => []
def floc : Selection → Loc | .field _ _ _ _ l _ => l | _ => ⟨0, 0⟩
def fsels : Selection → List Selection | .field _ _ _ _ _ s => s | _ => []
end Selection

structure VarDef where
  name : String
  type : TypeRef
  default : Option Value
  loc : Loc
  dloc : Loc := ⟨0, 0⟩         -- location of the default value literal (an invalid default is reported there)
deriving Repr, Inhabited

inductive OpKind where | query | mutation | subscription
deriving Repr, Inhabited, DecidableEq

structure Operation where
  kind : OpKind
  name : Option String
  varDefs : List VarDef
  dirs : List Directive
  sels : List Selection
deriving Repr, Inhabited

structure Fragment where
  name : String
  typeCond : String
  dirs : List Directive
  sels : List Selection
deriving Repr, Inhabited

structure Document where
  operations : List Operation
  fragments : List Fragment
deriving Repr, Inhabited

def Document.findFragment (d : Document) (n : String) : Option Fragment :=
  -- `fragments[name] = definition` in a dict: the LAST definition of a name wins
  (d.fragments.reverse.find? (fun f => f.name == n))

end Tart
