import TartModel.Base.PyPrims
/- Baked-schema view used by the executor model (what `GraphQLSchema.bake` leaves behind). -/
namespace Tart

inductive TypeRef where
  | named (n : String)
  | list (t : TypeRef)
  | nonNull (t : TypeRef)
deriving Repr, Inhabited, DecidableEq

namespace TypeRef
def isNonNull : TypeRef → Bool | .nonNull _ => true | _ => false
def baseName : TypeRef → String | .named n => n | .list t => t.baseName | .nonNull t => t.baseName
end TypeRef

/-- query-side AST values (libgraphqlparser JSON AST, decoded 1-1) -/
inductive Value where
  | var (n : String)
  | int (lex : String)
  | float (lex : String)
  | str (s : String)
  | bool (b : Bool)
  | null
  | enum (n : String)
  | list (vs : List Value)
  | obj (fs : List (String × Value))
deriving Repr, Inhabited

structure ArgDef where
  name : String
  type : TypeRef
  default : Option Value          -- SDL default value (const literal)
deriving Repr, Inhabited

structure FieldDef where
  name : String
  type : TypeRef
  args : List ArgDef
  parentConc : Bool := true       -- `field.parent_concurrently` as baked
  listConc : Bool := true         -- list coercer variant as baked
deriving Repr, Inhabited

inductive TypeDef where
  | scalar (name : String)
  | enum (name : String) (values : List String)
  | object (name : String) (fields : List FieldDef) (interfaces : List String)
  | interface (name : String) (fields : List FieldDef)
  | union (name : String) (members : List String)
  | input (name : String) (fields : List ArgDef)
deriving Repr, Inhabited

def TypeDef.name : TypeDef → String
  | .scalar n => n | .enum n _ => n | .object n _ _ => n | .interface n _ => n | .union n _ => n | .input n _ => n

structure DirectiveDef where
  name : String
  args : List ArgDef
  locations : List String
deriving Repr, Inhabited

def builtinDirectives : List DirectiveDef :=
  [⟨"skip", [⟨"if", .nonNull (.named "Boolean"), none⟩], ["FIELD", "FRAGMENT_SPREAD", "INLINE_FRAGMENT"]⟩,
   ⟨"include", [⟨"if", .nonNull (.named "Boolean"), none⟩], ["FIELD", "FRAGMENT_SPREAD", "INLINE_FRAGMENT"]⟩,
   ⟨"deprecated", [⟨"reason", .named "String", some (.str "Deprecated")⟩], ["FIELD_DEFINITION", "ENUM_VALUE"]⟩,
   ⟨"nonIntrospectable", [], ["FIELD_DEFINITION", "SCHEMA"]⟩]

structure Schema where
  types : List TypeDef
  queryType : String
  mutationType : Option String
  subscriptionType : Option String
  directives : List DirectiveDef := builtinDirectives
deriving Repr, Inhabited

namespace Schema
def findType (S : Schema) (n : String) : Option TypeDef := S.types.find? (fun t => t.name == n)

def fieldsOf (S : Schema) (tn : String) : List FieldDef :=
  match S.findType tn with
  | some (.object _ fs _) => fs
  | some (.interface _ fs) => fs
  | _ => []

def findField (S : Schema) (tn fn : String) : Option FieldDef :=
  (S.fieldsOf tn).find? (fun f => f.name == fn)

def isObject (S : Schema) (n : String) : Bool :=
  match S.findType n with | some (.object _ _ _) => true | _ => false

/-- `possible_types_set` of a composite type -/
def possibleTypes (S : Schema) (n : String) : List String :=
  match S.findType n with
  | some (.object n _ _) => [n]
  | some (.union _ ms) => ms
  | some (.interface i _) =>
      S.types.filterMap fun t => match t with
        | .object on _ ifs => if ifs.contains i then some on else none
        | _ => none
  | _ => []

def isAbstract (S : Schema) (n : String) : Bool :=
  match S.findType n with | some (.interface _ _) => true | some (.union _ _) => true | _ => false
end Schema

end Tart
