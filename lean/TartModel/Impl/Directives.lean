import TartModel.Syntax.Schema
/-
  C13 — model of how directive hooks are composed around values and field executions.

  Hand-written (H-tier) model of: `wraps_with_directives` (utils/directives.py), the per-type `bake()`
  wiring of input / literal / output directive coercers (types/scalar.py, enum.py, input_object.py,
  input_field.py, argument.py, field.py, object.py), `argument_coercer` (coercers/argument.py),
  the query-side wrapping in resolver/factory.py, for requests WITHOUT coercion errors: any
  invalid input makes the model answer `none` ("outside the modelled universe"), which the
  correspondence check skips.  Values are the tag-carrying universe `DV` the C13 harness uses
  (strings, lists, dicts, null); every hook is a tagging hook: it records an enter / exit event,
  marks the value going in and the value coming out (when its directive `marks`), and calls the
  next stage exactly once.
-/
namespace Tart.Dir
open Tart

inductive DV where
  | null
  | str (s : String)
  | list (l : List DV)
  | obj (kvs : List (String × DV))
deriving Repr, Inhabited

mutual
def render : DV → String
  | .null => "null"
  | .str s => "\"" ++ s ++ "\""
  | .list l => "[" ++ renderList l ++ "]"
  | .obj kvs => "{" ++ renderKvs kvs ++ "}"
def renderList : List DV → String
  | [] => ""
  | x :: xs => render x ++ "," ++ renderList xs
def renderKvs : List (String × DV) → String
  | [] => ""
  | (k, v) :: rest => k ++ ":" ++ render v ++ "," ++ renderKvs rest
end

/-- one use of a directive on an element, with its (already coerced) tag argument -/
structure Use where
  name : String
  tag : String
deriving Repr, Inhabited, DecidableEq

/-- what the registered implementation of a directive provides -/
structure DImpl where
  name : String
  hooks : List String          -- hook kinds implemented: "in" (on_post_input_coercion), "arg", "fld", "out"
  marks : Bool                 -- tagging (true) or logging only (false)
deriving Repr, Inhabited

structure Ev where
  kind : String
  dir : String
  tag : String
  phase : String               -- "enter" | "exit"
  snap : String                -- rendering of the value the hook received / got back from the next stage
deriving Repr, Inhabited, DecidableEq

/-- result + events emitted, `none` = outside the modelled universe (a coercion error) -/
abbrev R (α : Type) := Option (α × List Ev)

def ret {α : Type} (a : α) : R α := some (a, [])
def bind {α β : Type} (x : R α) (f : α → R β) : R β :=
  match x with
  | none => none
  | some (a, e1) =>
    match f a with
    | none => none
    | some (b, e2) => some (b, e1 ++ e2)

def mapR {α β : Type} (f : α → R β) : List α → R (List β)
  | [] => ret []
  | a :: as => bind (f a) fun b => bind (mapR f as) fun bs => ret (b :: bs)

/-- tagging: strings get the mark appended, dicts collect marks under the key "marks" -/
def markKvs (m : String) (kvs : List (String × DV)) : List (String × DV) :=
  if kvs.any (fun kv => kv.1 == "marks") then
    kvs.map fun kv => if kv.1 == "marks" then (kv.1, match kv.2 with | .str s => .str (s ++ m) | v => v) else kv
  else kvs ++ [("marks", .str m)]

def mark (m : String) : DV → DV
  | .str s => .str (s ++ m)
  | .obj kvs => .obj (markKvs m kvs)
  | v => v

def applies (I : List DImpl) (kind : String) (u : Use) : Option DImpl :=
  match I.find? (fun d => d.name == u.name) with
  | some d => if d.hooks.contains kind then some d else none
  | none => none

def preMark (kind : String) (u : Use) : String := "(" ++ kind ++ "." ++ u.name ++ "." ++ u.tag
def postMark (kind : String) (u : Use) : String := ")" ++ kind ++ "." ++ u.name ++ "." ++ u.tag
def markIf (b : Bool) (m : String) (v : DV) : DV := if b then mark m v else v

/-- one wrapper of the chain (`directive_executor`): a directive without the hook is skipped -/
def hookOn (I : List DImpl) (kind : String) (u : Use) (next : DV → R DV) (v : DV) : R DV :=
  match applies I kind u with
  | none => next v
  | some d =>
    match next (markIf d.marks (preMark kind u) v) with
    | none => none
    | some (r, evs) =>
      some (markIf d.marks (postMark kind u) r,
            [⟨kind, u.name, u.tag, "enter", render v⟩] ++ evs ++ [⟨kind, u.name, u.tag, "exit", render r⟩])

/-- `wraps_with_directives`: `for directive in reversed(directives): func = partial(wrapper, directive, func)` -/
def wrap (I : List DImpl) (kind : String) (us : List Use) (inner : DV → R DV) : DV → R DV :=
  us.foldr (hookOn I kind) inner

structure InField where
  name : String
  type : TypeRef
  default : Option Value
  dirs : List Use
deriving Repr, Inhabited

inductive InDef where
  | scalar (name : String) (dirs : List Use)
  | enum (name : String) (dirs : List Use) (values : List (String × List Use))
  | input (name : String) (dirs : List Use) (fields : List InField)
deriving Repr, Inhabited

def InDef.name : InDef → String | .scalar n _ => n | .enum n _ _ => n | .input n _ _ => n

/-- what the registered resolver of a field does -/
inductive ResSpec where
  | renderArgs                                   -- returns the rendering of the arguments it received
  | const (v : DV)
  | parentKey                                    -- default resolver
  | objWithArgs (kvs : List (String × DV))       -- dict with "argsSeen" = rendering of its arguments
deriving Repr, Inhabited

structure OutField where
  name : String
  args : List InField
  type : TypeRef
  dirs : List Use
  res : ResSpec
deriving Repr, Inhabited

structure ObjDef where
  name : String
  dirs : List Use
  fields : List OutField
deriving Repr, Inhabited

/-- an interface or union type: only its own directives matter here, the runtime type comes from the value -/
structure AbsDef where
  name : String
  dirs : List Use
deriving Repr, Inhabited

structure DSchema where
  ins : List InDef
  objs : List ObjDef
  impls : List DImpl
  query : String
  abstracts : List AbsDef := []
deriving Repr, Inhabited

def DSchema.findAbs (S : DSchema) (n : String) : Option AbsDef := S.abstracts.find? (fun d => d.name == n)

/-- default type resolver of the engine on dict values: the `_typename` key -/
def runtimeTypeName (v : DV) : Option String :=
  match v with
  | .obj kvs => (match kvs.find? (fun p => p.1 == "_typename") with | some (_, .str t) => some t | _ => none)
  | _ => none

def DSchema.findIn (S : DSchema) (n : String) : Option InDef := S.ins.find? (fun d => d.name == n)
def DSchema.findObj (S : DSchema) (n : String) : Option ObjDef := S.objs.find? (fun d => d.name == n)

abbrev Vars := List (String × DV)
def lookup (k : String) (kvs : List (String × DV)) : Option DV :=
  match kvs.find? (fun p => p.1 == k) with | some p => some p.2 | none => none
def lookupLast (k : String) (fs : List (String × Value)) : Option Value :=
  match fs.reverse.find? (fun p => p.1 == k) with | some p => some p.2 | none => none

def isVarNode : Value → Bool | .var _ => true | _ => false

def isMissingVariable (node : Value) (vars : Option Vars) : Bool :=
  match node with
  | .var n => match vars with | none => true | some vs => vs.isEmpty || (lookup n vs).isNone
  | _ => false

/-- `null_and_variable_coercer_wrapper` -/
def litWrapped (vars : Option Vars) (nn : Bool) (node : Value) (body : R DV) : R DV :=
  match node with
  | .null => ret .null
  | .var x =>
    match vars with
    | none => none
    | some vs =>
      if vs.isEmpty then none else
      match lookup x vs with
      | none => none
      | some v => if (match v with | .null => true | _ => false) && nn then none else ret v
  | _ => body

/-- `literal_directives_coercer`: the hooks of a TYPE are skipped for a variable node (already applied
    when the variable was coerced); the hooks of an INPUT FIELD are not -/
def litHooks (I : List DImpl) (dirs : List Use) (isInputField : Bool) (node : Value) (r : R DV) : R DV :=
  if isVarNode node && !isInputField then r else bind r (wrap I "in" dirs ret)

abbrev LitRec := Bool → TypeRef → Value → R DV
abbrev InRec := TypeRef → DV → R DV

def litListItem (rec : LitRec) (vars : Option Vars) (t : TypeRef) (it : Value) : R DV :=
  if isMissingVariable it vars then (if t.isNonNull then none else ret .null) else rec false t it

def litListCore (rec : LitRec) (vars : Option Vars) (t : TypeRef) (node : Value) : R DV :=
  match node with
  | .list items => bind (mapR (litListItem rec vars t) items) fun rs => ret (.list rs)
  | _ => bind (rec false t node) fun r => ret (.list [r])

/-- the literal coercer of an input field (`is_input_field=True`) -/
def fieldLit (I : List DImpl) (rec : LitRec) (fd : InField) (node : Value) : R (Option (String × DV)) :=
  bind (litHooks I fd.dirs true node (rec false fd.type node)) fun r => ret (some (fd.name, r))

def litField (I : List DImpl) (rec : LitRec) (vars : Option Vars) (fs : List (String × Value)) (fd : InField) : R (Option (String × DV)) :=
  let useDefault : R (Option (String × DV)) :=
    match fd.default with
    | some d => fieldLit I rec fd d
    | none => if fd.type.isNonNull then none else ret none
  match lookupLast fd.name fs with
  | none => useDefault
  | some vn => if isMissingVariable vn vars then useDefault else fieldLit I rec fd vn

def litNamedCore (rec : LitRec) (S : DSchema) (vars : Option Vars) (d : InDef) (node : Value) : R DV :=
  match d with
  | .scalar _ _ => (match node with | .str s => ret (.str s) | _ => none)
  | .enum _ _ vals =>
    (match node with
     | .enum x => (match vals.find? (fun p => p.1 == x) with | some (_, vdirs) => wrap S.impls "in" vdirs ret (.str x) | none => none)
     | _ => none)
  | .input _ _ fields =>
    (match node with
     | .obj fs => bind (mapR (litField S.impls rec vars fs) fields) fun rs => ret (.obj (rs.filterMap id))
     | _ => none)

def InDef.dirs : InDef → List Use | .scalar _ d => d | .enum _ d _ => d | .input _ d _ => d

/-- literal coercion with hooks -/
def coerceLit : Nat → DSchema → Option Vars → Bool → TypeRef → Value → R DV
  | 0, _, _, _, _, _ => none
  | n+1, S, vars, nn, ty, node =>
    match ty with
    | .nonNull t => (match node with | .null => none | _ => coerceLit n S vars true t node)
    | .list t => litWrapped vars nn node (litListCore (coerceLit n S vars) vars t node)
    | .named tn =>
      match S.findIn tn with
      | none => none
      | some d => litHooks S.impls d.dirs false node (litWrapped vars nn node (litNamedCore (coerceLit n S vars) S vars d node))

/-- one field of the JSON input-object coercer -/
def inField (I : List DImpl) (rec : InRec) (lit : LitRec) (kvs : List (String × DV)) (fd : InField) : R (Option (String × DV)) :=
  match lookup fd.name kvs with
  | some fv => bind (bind (rec fd.type fv) (wrap I "in" fd.dirs ret)) fun r => ret (some (fd.name, r))
  | none =>
    match fd.default with
    | some d => fieldLit I lit fd d
    | none => if fd.type.isNonNull then none else ret none

def inNamedCore (rec : InRec) (lit : LitRec) (S : DSchema) (d : InDef) (v : DV) : R DV :=
  match v with
  | .null => ret .null
  | _ =>
    match d with
    | .scalar _ _ => (match v with | .str s => ret (.str s) | _ => none)
    | .enum _ _ vals =>
      (match v with
       | .str s => (match vals.find? (fun p => p.1 == s) with | some (_, vdirs) => wrap S.impls "in" vdirs ret (.str s) | none => none)
       | _ => none)
    | .input _ _ fields =>
      (match v with
       | .obj kvs =>
         if kvs.any (fun kv => !fields.any (fun fd => fd.name == kv.1)) then none
         else bind (mapR (inField S.impls rec lit kvs) fields) fun rs => ret (.obj (rs.filterMap id))
       | _ => none)

/-- JSON (variable) value coercion with hooks: the hooks of the named type run after its coercer,
    also on a null value (`input_directives_coercer` wraps the null-tolerant coercer) -/
def coerceIn : Nat → DSchema → TypeRef → DV → R DV
  | 0, _, _, _ => none
  | n+1, S, ty, v =>
    match ty with
    | .nonNull t => (match v with | .null => none | _ => coerceIn n S t v)
    | .list t =>
      (match v with
       | .null => ret .null
       | .list xs => bind (mapR (coerceIn n S t) xs) fun rs => ret (.list rs)
       | _ => bind (coerceIn n S t v) fun r => ret (.list [r]))
    | .named tn =>
      match S.findIn tn with
      | none => none
      | some d => bind (inNamedCore (coerceIn n S) (coerceLit n S none) S d v) (wrap S.impls "in" d.dirs ret)

structure VarDef where
  name : String
  type : TypeRef
  default : Option Value
deriving Repr, Inhabited

/-- `none` inside = variable absent -/
def coerceVariable (fuel : Nat) (S : DSchema) (vd : VarDef) (raw : Vars) : R (Option DV) :=
  match lookup vd.name raw with
  | none =>
    (match vd.default with
     | some d => bind (coerceLit fuel S none false vd.type d) fun v => ret (some v)
     | none => if vd.type.isNonNull then none else ret none)
  | some x =>
    if (match x with | .null => true | _ => false) && vd.type.isNonNull then none
    else bind (coerceIn fuel S vd.type x) fun v => ret (some v)

def coerceVariables (fuel : Nat) (S : DSchema) (vds : List VarDef) (raw : Vars) : R Vars :=
  bind (mapR (fun vd => bind (coerceVariable fuel S vd raw) fun r => ret (r.map fun v => (vd.name, v))) vds) fun rs => ret (rs.filterMap id)

/-- the argument's own hooks (`on_argument_execution`), run on the coerced value (also null) -/
def argHooks (S : DSchema) (ad : InField) (v : DV) : R (Option DV) :=
  bind (wrap S.impls "arg" ad.dirs ret v) fun r => ret (some r)

def argFinishLit (fuel : Nat) (S : DSchema) (ad : InField) (vars : Vars) (vn : Value) : R (Option DV) :=
  bind (coerceLit fuel S (some vars) false ad.type vn) (argHooks S ad)

def argHasValue (argNode : Option Value) (vars : Vars) : Bool :=
  match argNode with
  | some (.var x) => !vars.isEmpty && (lookup x vars).isSome
  | some _ => true
  | none => false

def argIsNull (argNode : Option Value) (vars : Vars) : Bool :=
  match argNode with
  | some (.var x) => argHasValue argNode vars && (match lookup x vars with | some .null => true | _ => false)
  | some .null => true
  | _ => false

/-- the value actually supplied: a null literal and a variable's (already coerced) value are taken as they are,
    any other literal goes through literal coercion -/
def argProvided (fuel : Nat) (S : DSchema) (ad : InField) (vars : Vars) (argNode : Option Value) : R (Option DV) :=
  match argNode with
  | some .null => argHooks S ad .null
  | some (.var x) => (match lookup x vars with | some v => argHooks S ad v | none => none)
  | some vn => argFinishLit fuel S ad vars vn
  | none => ret none

/-- `argument_coercer`: `none` inside = argument absent from the dictionary -/
def coerceArgument (fuel : Nat) (S : DSchema) (ad : InField) (argNode : Option Value) (vars : Vars) : R (Option DV) :=
  if !argHasValue argNode vars && ad.default.isSome then (match ad.default with | some d => argFinishLit fuel S ad vars d | none => none)
  else if (!argHasValue argNode vars || argIsNull argNode vars) && ad.type.isNonNull then none
  else if argHasValue argNode vars then argProvided fuel S ad vars argNode
  else ret none

def coerceArguments (fuel : Nat) (S : DSchema) (defs : List InField) (args : List (String × Value)) (vars : Vars) : R DV :=
  bind (mapR (fun ad => bind (coerceArgument fuel S ad (lookupLast ad.name args) vars) fun r => ret (r.map fun v => (ad.name, v))) defs)
    fun rs => ret (.obj (rs.filterMap id))

/-- a directive used in the query: its tag argument may be a literal, a variable, or omitted -/
structure QUse where
  name : String
  tag : Option Value
deriving Repr, Inhabited

def defaultTag : String := "d"

def resolveUse (vars : Vars) (q : QUse) : Option Use :=
  match q.tag with
  | none => some ⟨q.name, defaultTag⟩
  | some (.str s) => some ⟨q.name, s⟩
  | some (.var x) =>
    (match lookup x vars with
     | some (.str s) => some ⟨q.name, s⟩
     | none => some ⟨q.name, defaultTag⟩
     | _ => none)
  | _ => none

def allSome {α : Type} : List (Option α) → Option (List α)
  | [] => some []
  | none :: _ => none
  | some a :: rest => (allSome rest).map (a :: ·)

inductive Sel where
  | field (key : String) (name : String) (args : List (String × Value)) (dirs : List QUse) (sub : List Sel)
deriving Repr, Inhabited

def Sel.key : Sel → String | .field k _ _ _ _ => k
def Sel.fname : Sel → String | .field _ n _ _ _ => n
def Sel.args : Sel → List (String × Value) | .field _ _ a _ _ => a
def Sel.dirs : Sel → List QUse | .field _ _ _ d _ => d
def Sel.sub : Sel → List Sel | .field _ _ _ _ s => s

/-- fields grouped by response key, in order of first appearance -/
def collect (sels : List Sel) : List (String × List Sel) :=
  sels.foldl (fun acc s =>
    if acc.any (fun p => p.1 == s.key) then acc.map (fun p => if p.1 == s.key then (p.1, p.2 ++ [s]) else p)
    else acc ++ [(s.key, [s])]) []

def resolverCore (fd : OutField) (parent : DV) (args : DV) : R DV :=
  match fd.res with
  | .renderArgs => ret (.str (render args))
  | .const v => ret v
  | .parentKey => ret (match parent with | .obj kvs => (match lookup fd.name kvs with | some v => v | none => .null) | _ => .null)
  | .objWithArgs kvs => ret (.obj (("argsSeen", .str (render args)) :: kvs))

/-- the resolver as executed: query-side directives (of every merged field node, in order) wrap the
    schema-side ones, which wrap the resolver -/
def fieldResolver (S : DSchema) (quses : List Use) (fd : OutField) (parent : DV) : DV → R DV :=
  wrap S.impls "fld" quses (wrap S.impls "fld" fd.dirs (resolverCore fd parent))

/-- the String-like scalars of this universe serialise a string as itself -/
def scalarSerialise (r : DV) : R DV :=
  match r with | .null => ret .null | .str s => ret (.str s) | _ => none

/-- `enum_coercer`: look the value up, then run the hooks of that enum VALUE -/
def enumSerialise (I : List DImpl) (vals : List (String × List Use)) (r : DV) : R DV :=
  match r with
  | .null => ret .null
  | .str s => (match vals.find? (fun p => p.1 == s) with | some (_, vdirs) => wrap I "out" vdirs ret (.str s) | none => none)
  | _ => none

mutual
/-- `complete_value` with the output hooks: type-level hooks run on the resolved value (also null)
    before the type's own coercer; an enum value's hooks run inside the enum coercer -/
def complete : Nat → DSchema → Vars → TypeRef → DV → List Sel → R DV
  | 0, _, _, _, _, _ => none
  | n+1, S, vars, ty, v, subs =>
    match ty with
    | .nonNull t => bind (complete n S vars t v subs) fun r => (match r with | .null => none | _ => ret r)
    | .list t =>
      (match v with
       | .null => ret .null
       | .list xs => bind (mapR (fun x => complete n S vars t x subs) xs) fun rs => ret (.list rs)
       | _ => none)
    | .named tn =>
      match S.findObj tn with
      | some od =>
        bind (wrap S.impls "out" od.dirs ret v) fun r =>
          (match r with
           | .null => ret .null
           | .obj _ => execSelections n S vars od r subs
           | _ => none)
      | none =>
        match S.findAbs tn with
        | some ad =>
          -- `abstract_coercer`: the abstract type's hooks (also on null), then the hooks of the RUNTIME object type
          bind (wrap S.impls "out" ad.dirs ret v) fun r =>
            (match r with
             | .null => ret .null
             | _ =>
               match runtimeTypeName r with
               | none => none
               | some rt =>
                 match S.findObj rt with
                 | none => none
                 | some od => bind (wrap S.impls "out" od.dirs ret r) fun r2 =>
                     (match r2 with | .obj _ => execSelections n S vars od r2 subs | _ => none))
        | none =>
        match S.findIn tn with
        | some (.scalar _ dirs) => bind (wrap S.impls "out" dirs ret v) scalarSerialise
        | some (.enum _ dirs vals) => bind (wrap S.impls "out" dirs ret v) (enumSerialise S.impls vals)
        | _ => none

def execField : Nat → DSchema → Vars → ObjDef → DV → List Sel → R DV
  | 0, _, _, _, _, _ => none
  | n+1, S, vars, od, parent, nodes =>
    match nodes with
    | [] => none
    | first :: _ =>
      match od.fields.find? (fun f => f.name == first.fname) with
      | none => none
      | some fd =>
        match allSome ((nodes.flatMap Sel.dirs).map (resolveUse vars)) with
        | none => none
        | some quses =>
          bind (coerceArguments (n+1) S fd.args first.args vars) fun args =>
          bind (fieldResolver S quses fd parent args) fun result =>
          complete n S vars fd.type result (nodes.flatMap Sel.sub)

def execSelections : Nat → DSchema → Vars → ObjDef → DV → List Sel → R DV
  | 0, _, _, _, _, _ => none
  | n+1, S, vars, od, parent, sels =>
    bind (mapR (fun p => bind (execField n S vars od parent p.2) fun r => ret (p.1, r)) (collect sels)) fun kvs => ret (.obj kvs)
end

def fuel0 : Nat := 64

def executeRequest (S : DSchema) (vds : List VarDef) (raw : Vars) (sels : List Sel) : R DV :=
  match S.findObj S.query with
  | none => none
  | some q => bind (coerceVariables fuel0 S vds raw) fun vars => execSelections fuel0 S vars q .null sels

end Tart.Dir
