import TartModel.Impl.Exec
/-
  H-tier model of the request envelope: `Engine.execute` / `_perform_query` / `build_response`
  (engine.py, execution/response.py).  The error coercer is an arbitrary total function.
-/
namespace Tart

/-- outcome of `parse_and_validate_query` (cached or not) -/
inductive Parsed where
  | refused (errs : List GErr)        -- syntax error, validation errors, or "Server encountered an error."
  | document (d : Document)

/-- the response dictionary: `errors` is present only when non-empty -/
structure Wire (α : Type) where
  data : PyVal
  errors : Option (List α)

/-- `build_response`: every error goes through the coercer; `{"data": …}` alone when there is none -/
def buildResponse {α : Type} (coerce : GErr → α) (data : PyVal) (errors : List GErr) : Wire α :=
  ⟨data, if errors.isEmpty then none else some (errors.map coerce)⟩

def engineExecute {α : Type} (coerce : GErr → α) (fuel : Nat) (S : Schema) (o : Oracle) (env : Env) (p : Parsed)
    (opName : Option String) (rawVars : List (String × PyVal)) (root : PyVal) : Wire α × List Call :=
  match p with
  | .refused errs => (buildResponse coerce .none errs, [])
  | .document d =>
    let r := executeRequest fuel S o env d opName rawVars root
    (buildResponse coerce r.data r.errors, r.calls)

end Tart
