import TartModel.Impl.Exec
/-
  Task trees: the asynchronous structure of a request.  A tree says where the engine awaits user
  code (`call`), where it gathers concurrently started sub-computations (`gather`, results placed
  by index), and where it appends to the request's shared error list (`emit`).
  Awaiting a sub-computation before continuing (serial paths) is `gather [t] k`.
-/
namespace Tart

abbrev Out := Except Exn PyVal

/-- identity of an await on user code: the field coordinate and the response path -/
structure Gate where
  coord : String
  path : List PathSeg
  parent : PyVal := .none
  args : List (String × PyVal) := []
deriving Repr, Inhabited

inductive TTree where
  | done (r : Out)
  | call (g : Gate) (k : Out → TTree)
  | gather (ts : List TTree) (k : List Out → TTree)
  | emit (es : List GErr) (k : TTree)

/-- answers of the (pure) user code, per gate -/
abbrev Answers := Gate → Out

mutual
/-- deterministic meaning: every await is answered at once, gathered children left to right -/
def denote (ans : Answers) : TTree → Out × List GErr
  | .done r => (r, [])
  | .call g k => denote ans (k (ans g))
  | .emit es k => ((denote ans k).1, es ++ (denote ans k).2)
  | .gather ts k =>
      ((denote ans (k (denoteList ans ts).1)).1, (denoteList ans ts).2 ++ (denote ans (k (denoteList ans ts).1)).2)
def denoteList (ans : Answers) : List TTree → List Out × List GErr
  | [] => ([], [])
  | t :: ts => ((denote ans t).1 :: (denoteList ans ts).1, (denote ans t).2 ++ (denoteList ans ts).2)
end

mutual
/-- number of steps (awaits answered + error appends + gathers completed) any execution takes -/
def weight (ans : Answers) : TTree → Nat
  | .done _ => 0
  | .call g k => 1 + weight ans (k (ans g))
  | .emit _ k => 1 + weight ans k
  | .gather ts k => weightList ans ts + 1 + weight ans (k (denoteList ans ts).1)
def weightList (ans : Answers) : List TTree → Nat
  | [] => 0
  | t :: ts => weight ans t + weightList ans ts
end

mutual
/-- gates currently awaited (started, not finished): continuations contribute nothing -/
def pending : TTree → List Gate
  | .done _ => []
  | .call g _ => [g]
  | .emit _ k => pending k
  | .gather ts _ => pendingList ts
def pendingList : List TTree → List Gate
  | [] => []
  | t :: ts => pending t ++ pendingList ts
end

def allDone : List TTree → Option (List Out)
  | [] => some []
  | .done r :: ts => (allDone ts).map (r :: ·)
  | _ :: _ => none

/-- One step of a request under an arbitrary scheduler: `fire` is the event loop completing one
    awaited resolver (the only scheduling choice); the other steps are the engine's own progress. -/
inductive Step (ans : Answers) : TTree × List GErr → TTree × List GErr → Prop
  | fire (g : Gate) (k : Out → TTree) (log : List GErr) : Step ans (.call g k, log) (k (ans g), log)
  | emit (es : List GErr) (k : TTree) (log : List GErr) : Step ans (.emit es k, log) (k, log ++ es)
  | collapse (ts : List TTree) (k : List Out → TTree) (log : List GErr) (outs : List Out) :
      allDone ts = some outs → Step ans (.gather ts k, log) (k outs, log)
  | inGather (pre post : List TTree) (t t' : TTree) (k : List Out → TTree) (log log' : List GErr) :
      Step ans (t, log) (t', log') → Step ans (.gather (pre ++ t :: post) k, log) (.gather (pre ++ t' :: post) k, log')

/-- finitely many steps -/
inductive Steps (ans : Answers) : TTree × List GErr → TTree × List GErr → Prop
  | refl (s : TTree × List GErr) : Steps ans s s
  | cons {a b c : TTree × List GErr} : Step ans a b → Steps ans b c → Steps ans a c

/-- awaiting `t`, then continuing with `k` (serial composition) -/
def seqT (t : TTree) (k : Out → TTree) : TTree :=
  .gather [t] (fun outs => match outs with | [o] => k o | _ => .done (.error (.raw "internal" false "" [])))

/-- the same children run one after the other instead of concurrently -/
def seqList : List TTree → (List Out → TTree) → TTree
  | [], k => k []
  | t :: ts, k => seqT t (fun o => seqList ts (fun os => k (o :: os)))

end Tart
