import TartModel.Impl.TTree
/-
  Task tree of a request: the same algorithm as Impl/Exec.lean `run`, but every await on a user
  resolver is a `call`, every `asyncio.gather` a `gather`, every serial `await` a `seqT`, and every
  `execution_context.add_error` an `emit`.  Which of gather / serial is used follows the baked
  concurrency flags (`parentConc`, `listConc`) and the operation kind, exactly where the Python chooses.
-/
namespace Tart

abbrev RecT := Job → TTree

/-- the answer of the (pure) resolver behind a gate -/
def answersOf (env : Env) : Answers := fun g =>
  raiseIfExc (resolverResult (resolverOf env g.coord) g.parent "" g.args)

def raisedOf (errs : List GErr) : Out := .error (.multi errs)

/-- `complete_value_catching_error` + `handle_field_error` around a sub-computation -/
def catchT (nn : Bool) (nodes : List Selection) (p : List PathSeg) (t : TTree) : TTree :=
  seqT t fun r =>
    match r with
    | .ok v => .done (.ok v)
    | .error e =>
      if nn then .done (raisedOf (locate e nodes p))
      else .emit (locate e nodes p) (.done (.ok .none))

/-- `extract_exceptions_from_results` over gathered outcomes -/
def gatherOuts : List Out → Except (List GErr) (List PyVal)
  | [] => .ok []
  | r :: rs =>
    match r, gatherOuts rs with
    | .ok v, .ok vs => .ok (v :: vs)
    | .ok _, .error es => .error es
    | .error (.multi es), .ok _ => .error es
    | .error (.multi es), .error es' => .error (es ++ es')
    | .error (.raw k t m x), .ok _ => .error [⟨[], [], t, m, x, k⟩]
    | .error (.raw k t m x), .error es' => .error (⟨[], [], t, m, x, k⟩ :: es')

def itemT (rec : RecT) (t : TypeRef) (pt fname : String) (nodes : List Selection) (path : List PathSeg)
    (ix : Nat × PyVal) : TTree :=
  match ix.2 with
  | .exc t' m e => catchT t.isNonNull nodes (path ++ [PathSeg.idx ix.1]) (.done (.error (.raw "resolver" t' m e)))
  | _ => catchT t.isNonNull nodes (path ++ [PathSeg.idx ix.1]) (rec (.complete t pt fname nodes (path ++ [PathSeg.idx ix.1]) ix.2))

def completeListT (rec : RecT) (conc : Bool) (t : TypeRef) (pt fname : String) (nodes : List Selection)
    (path : List PathSeg) (items : List PyVal) : TTree :=
  (if conc then TTree.gather else seqList) ((enumFrom 0 items).map (itemT rec t pt fname nodes path)) fun outs =>
    match gatherOuts outs with
    | .ok vs => .done (.ok (.list vs))
    | .error es => .done (raisedOf es)

def fieldT (rec : RecT) (fuel : Nat) (ctx : Ctx) (tn : String) (parent : PyVal) (path : List PathSeg) (d : FieldJob) : TTree :=
  let p := path ++ [PathSeg.key d.1]
  let nn := d.2.2.type.isNonNull
  let cont : Out → TTree := fun out =>
    match out with
    | .ok v => rec (.complete d.2.2.type tn d.2.2.name d.2.1 p v)
    | .error e => .done (.error e)
  match coerceArguments fuel ctx.S ctx.o d.2.2.args d.2.1.head!.floc d.2.1.head!.fargs ctx.vars with
  | .error errs => catchT nn d.2.1 p (.done (.error (argErrors errs)))
  | .ok args =>
    if d.2.2.name == "__typename" then catchT nn d.2.1 p (cont (.ok (.str tn))) else
    match resolverOf ctx.env (tn ++ "." ++ d.2.2.name) with
    | .default => catchT nn d.2.1 p (cont (raiseIfExc (.ok (defaultResolve parent d.2.2.name))))
    | _ => catchT nn d.2.1 p (.call ⟨tn ++ "." ++ d.2.2.name, p, parent, args⟩ cont)

/-- fields awaited one by one; a raising field aborts the rest -/
def serialT (f : FieldJob → TTree) : List FieldJob → List (String × PyVal) → (Except (List GErr) (List (String × PyVal)) → TTree) → TTree
  | [], acc, k => k (.ok acc)
  | d :: ds, acc, k =>
    seqT (f d) fun r =>
      match r with
      | .ok v => serialT f ds (acc ++ [(d.1, v)]) k
      | .error (.multi es) => k (.error es)
      | .error (.raw kd t m x) => k (.error [⟨[], [], t, m, x, kd⟩])

def zipKeys (defs : List FieldJob) (outs : List Out) : List (String × Res) :=
  (defs.zip outs).map fun p => (p.1.1, match p.2 with
    | .ok v => .ok v
    | .error (.multi es) => .error es
    | .error (.raw k t m x) => .error [⟨[], [], t, m, x, k⟩])

/-- `execute_fields_serially` done: the dictionary, or the errors of the field that raised -/
def finishSerial : Except (List GErr) (List (String × PyVal)) → TTree
  | .ok kvs => .done (.ok (.dict kvs))
  | .error es => .done (raisedOf es)

/-- the gathered (concurrent) fields are back -/
def finishGather (defs conc : List FieldJob) (kv1 : List (String × PyVal)) (outs : List Out) : TTree :=
  match gatherKV (zipKeys conc outs) with
  | .error es => .done (raisedOf es)
  | .ok kv2 => .done (.ok (.dict (orderBy defs (kv1 ++ kv2))))

/-- `execute_fields` after the inline (non-concurrent) fields: gather the concurrent ones -/
def afterInline (f : FieldJob → TTree) (defs : List FieldJob) : Except (List GErr) (List (String × PyVal)) → TTree
  | .error es => .done (raisedOf es)
  | .ok kv1 => .gather ((defs.filter fun d => d.2.2.parentConc).map f) (finishGather defs (defs.filter fun d => d.2.2.parentConc) kv1)

def executeFieldsT (rec : RecT) (fuel : Nat) (ctx : Ctx) (tn : String) (parent : PyVal) (path : List PathSeg)
    (defs : List FieldJob) (serial : Bool) : TTree :=
  if serial then serialT (fieldT rec fuel ctx tn parent path) defs [] finishSerial
  else serialT (fieldT rec fuel ctx tn parent path) (defs.filter fun d => !d.2.2.parentConc) [] (afterInline (fieldT rec fuel ctx tn parent path) defs)

def completeNamedT (rec : RecT) (fuel : Nat) (ctx : Ctx) (tn pt fname : String) (nodes : List Selection)
    (path : List PathSeg) (v : PyVal) : TTree :=
  match ctx.S.findType tn with
  | some (.scalar _) =>
    match scalarOut ctx.o tn v with
    | .ok .undef => .done (.error (.raw "leaf" false "" []))
    | .ok r => .done (.ok r)
    | .error _ => .done (.error (.raw "leaf" false "" []))
  | some (.enum _ vals) =>
    match v with
    | .str s => if vals.contains s then .done (.ok (.str s)) else .done (.error (.raw "enum" false "" []))
    | _ => .done (.error (.raw "enum" false "" []))
  | some (.object _ _ _) => rec (.fields tn v path (collectSubfields fuel ctx tn nodes) false)
  | some (.interface _ _) | some (.union _ _) =>
    match validRuntimeType ctx.S tn (resolveTypeName ctx pt fname tn v) with
    | none => .done (.error (abstractErr nodes))
    | some rt => rec (.fields rt v path (collectSubfields fuel ctx rt nodes) false)
  | _ => .done (.ok .none)

def listConcOf (S : Schema) (pt fname : String) : Bool :=
  match findFieldDef S pt fname with | some fd => fd.listConc | none => true

def runT : Nat → Ctx → Job → TTree
  | 0, _, _ => .done (.error (.raw "fuel" false "" []))
  | n+1, ctx, job =>
    match job with
    | .complete ty pt fname nodes path v =>
      match ty with
      | .nonNull t =>
        seqT (runT n ctx (.complete t pt fname nodes path v)) fun r =>
          match r with
          | .ok .none => .done (.error (.raw "non-null" false "" []))
          | r => .done r
      | .list t =>
        match v with
        | .none => .done (.ok .none)
        | .list items => completeListT (runT n ctx) (listConcOf ctx.S pt fname) t pt fname nodes path items
        | _ => .done (.error (.raw "not-iterable" false "" []))
      | .named tn =>
        match v with
        | .none => .done (.ok .none)
        | _ => completeNamedT (runT n ctx) (n+1) ctx tn pt fname nodes path v
    | .fields tn parent path collected serial =>
      executeFieldsT (runT n ctx) (n+1) ctx tn parent path (fieldJobs ctx.S tn collected) serial

/-! ### executable scheduler (driver side; no theorem depends on it) -/

def isDone : TTree → Bool | .done _ => true | _ => false

/-- run the engine's own progress to quiescence: perform emits, collapse finished gathers -/
def normalize : Nat → List GErr → TTree → TTree × List GErr
  | 0, log, t => (t, log)
  | n+1, log, t =>
    match t with
    | .done r => (.done r, log)
    | .call g k => (.call g k, log)
    | .emit es k => normalize n (log ++ es) k
    | .gather ts k =>
      let step := ts.foldl (fun (acc : List TTree × List GErr) c =>
        let r := normalize n acc.2 c
        (acc.1 ++ [r.1], r.2)) ([], log)
      match allDone step.1 with
      | some outs => normalize n step.2 (k outs)
      | none => (.gather step.1 k, step.2)

def pathEq (a b : List PathSeg) : Bool := a == b

/-- complete the awaited resolver at `path` -/
def fireAt (ans : Answers) (path : List PathSeg) : Nat → TTree → TTree
  | 0, t => t
  | n+1, t =>
    match t with
    | .call g k => if pathEq g.path path then k (ans g) else .call g k
    | .gather ts k => .gather (ts.map (fireAt ans path n)) k
    | .emit es k => .emit es (fireAt ans path n k)
    | .done r => .done r

structure SchedResult where
  pendingSets : List (List Gate)      -- awaited gates at each quiescent point
  final : Option (Out × List GErr)    -- none: the schedule ended before the request did / chose a non-awaited gate
  ok : Bool

def schedRun (fuel : Nat) (ans : Answers) : List (List PathSeg) → TTree × List GErr → List (List Gate) → SchedResult
  | choices, (t, log), acc =>
    let q := normalize fuel log t
    let pend := pending q.1
    match choices with
    | [] =>
      match q.1 with
      | .done r => ⟨acc ++ [pend], some (r, q.2), true⟩
      | _ => ⟨acc ++ [pend], none, pend.isEmpty⟩
    | c :: rest =>
      if pend.any (fun g => pathEq g.path c) then
        schedRun fuel ans rest (fireAt ans c fuel q.1, q.2) (acc ++ [pend])
      else ⟨acc ++ [pend], none, false⟩


/-- prelude of `execute` shared with `executeRequest`: the root task tree of a request, or the refusal -/
def requestTree (fuel : Nat) (S : Schema) (o : Oracle) (env : Env) (doc : Document)
    (opName : Option String) (rawVars : List (String × PyVal)) (root : PyVal) : Except Response (Ctx × TTree) :=
  match selectOperation doc opName with
  | none => .error ⟨.none, [simpleErr "operation-selection"], []⟩
  | some op =>
    let (vars, verrs) := coerceVariables fuel S o op.varDefs rawVars
    if !verrs.isEmpty then .error ⟨.none, verrs.map (fun e => simpleErr ("variable:" ++ e.1) [e.2.2]), []⟩
    else
      match rootTypeName S op.kind with
      | none => .error ⟨.none, [simpleErr "no-root-type"], []⟩
      | some rt =>
        let ctx : Ctx := ⟨S, doc, vars, env, o⟩
        let collected := (collectFields fuel ctx rt op.sels ([], [])).1
        .ok (ctx, runT fuel ctx (.fields rt root [] collected (op.kind == .mutation)))

def finalResponse (r : Out × List GErr) : PyVal × List GErr :=
  match r.1 with
  | .ok d => (d, r.2)
  | .error (.multi es) => (.none, r.2 ++ es)
  | .error (.raw k t m x) => (.none, r.2 ++ [⟨[], [], t, m, x, k⟩])

end Tart
