import TartModel.Impl.Exec
/-
  H-tier model of `Engine.subscribe` / `_perform_subscription` / `create_source_event_stream`:
  a request that is refused before execution (operation selection, variable coercion) yields one
  errors-only response and never starts the source; otherwise every source event is executed as
  the root value of the subscription's selection, in order.
-/
namespace Tart

/-- refusal computed by `build_execution_context` (same prelude as `executeRequest`) -/
def preflight (fuel : Nat) (S : Schema) (o : Oracle) (doc : Document) (opName : Option String)
    (rawVars : List (String × PyVal)) : Option Response :=
  match selectOperation doc opName with
  | none => some ⟨.none, [simpleErr "operation-selection"], []⟩
  | some op =>
    let cv := coerceVariables fuel S o op.varDefs rawVars
    if !cv.2.isEmpty then some ⟨.none, cv.2.map (fun e => simpleErr ("variable:" ++ e.1) [e.2.2]), []⟩ else none

/-- arguments handed to the `@Subscription` source function: the coerced arguments of the root field -/
def sourceArguments (fuel : Nat) (S : Schema) (o : Oracle) (env : Env) (doc : Document) (opName : Option String)
    (rawVars : List (String × PyVal)) : Option (String × List (String × PyVal)) :=
  match selectOperation doc opName with
  | none => none
  | some op =>
    let cv := coerceVariables fuel S o op.varDefs rawVars
    match rootTypeName S op.kind with
    | none => none
    | some rt =>
      let ctx : Ctx := ⟨S, doc, cv.1, env, o⟩
      match (collectFields fuel ctx rt op.sels ([], [])).1 with
      | [] => none
      | (_, nodes) :: _ =>
        match findFieldDef S rt nodes.head!.fname with
        | none => none
        | some fd =>
          match coerceArguments fuel S o fd.args nodes.head!.floc nodes.head!.fargs cv.1 with
          | .ok args => some (rt ++ "." ++ fd.name, args)
          | .error _ => none

/-- the responses `subscribe` yields for the finite event list `events` -/
def subscribeResponses (fuel : Nat) (S : Schema) (o : Oracle) (env : Env) (doc : Document) (opName : Option String)
    (rawVars : List (String × PyVal)) (events : List PyVal) : List Response :=
  match preflight fuel S o doc opName rawVars with
  | some r => [r]
  | none => events.map fun e => executeRequest fuel S o env doc opName rawVars e

end Tart
