/-
  H-tier model of the query cache and of the schema registry (engine.py `_cached_parse_and_validate_query`,
  schema/registry.py).  Deliberately small and abstract: the parse+validate function is an arbitrary
  pure function `P`, a cache is any state machine that only ever returns what `P` returns.
-/
namespace Tart.Cache

/-- `functools.lru_cache(maxsize = cap)` as documented: most recently used first, eviction at the end -/
structure Lru (K V : Type) where
  cap : Nat
  entries : List (K × V)

variable {K V : Type} [DecidableEq K]

def Lru.lookup (c : Lru K V) (k : K) : Option V :=
  (c.entries.find? (fun e => e.1 = k)).map (·.2)

/-- one cached call: hit (move to front) or miss (compute, insert at front, evict beyond capacity) -/
def Lru.call (P : K → V) (c : Lru K V) (k : K) : V × Lru K V :=
  match c.lookup k with
  | some v => (v, { c with entries := (k, v) :: c.entries.filter (fun e => e.1 ≠ k) })
  | none => (P k, { c with entries := ((k, P k) :: c.entries).take c.cap })

/-- everything the cache holds is a value of `P` -/
def Lru.Sound (P : K → V) (c : Lru K V) : Prop := ∀ e ∈ c.entries, e.2 = P e.1

/-- a whole history of calls through the cache -/
def Lru.run (P : K → V) : Lru K V → List K → List V × Lru K V
  | c, [] => ([], c)
  | c, k :: ks =>
    let r := Lru.call P c k
    let rs := Lru.run P r.2 ks
    (r.1 :: rs.1, rs.2)

/-- a cache decorator in general: any state machine whose answers are answers of `P`
    (custom decorators, unbounded memo, disabled cache) -/
structure Decorator (K V : Type) where
  State : Type
  init : State
  call : (K → V) → State → K → V × State

def Decorator.run (d : Decorator K V) (P : K → V) : d.State → List K → List V × d.State
  | s, [] => ([], s)
  | s, k :: ks =>
    let r := d.call P s k
    let rs := Decorator.run d P r.2 ks
    (r.1 :: rs.1, rs.2)

/-- a decorator is transparent when it maintains some invariant under which every call returns `P k` -/
structure Transparent (d : Decorator K V) (P : K → V) where
  Inv : d.State → Prop
  init : Inv d.init
  step : ∀ s k, Inv s → (d.call P s k).1 = P k ∧ Inv (d.call P s k).2

/-! ### schema registry -/

/-- what is registered under one schema name -/
structure Bundle (Item : Type) where
  items : List Item := []

abbrev Registry (Item : Type) := String → Bundle Item

def Registry.empty {Item : Type} : Registry Item := fun _ => {}

def Registry.register {Item : Type} (r : Registry Item) (name : String) (it : Item) : Registry Item :=
  fun n => if n = name then { items := (r n).items ++ [it] } else r n

/-- a history of registrations (any order, any interleaving of names) -/
def Registry.replay {Item : Type} (r : Registry Item) : List (String × Item) → Registry Item
  | [] => r
  | (n, it) :: ops => Registry.replay (r.register n it) ops


/-! ### implementations registered as a CLASS
`Directive(name, schema_name=s)(Impl)` / `Scalar(...)(Impl)` given a class instantiate it at the registration
(`directive.py`, `scalar.py`: `if isclass(implementation): implementation = implementation()`): the object that ends up in
the registry is a NEW one per registration, identified here by the registration's position in the history. -/

/-- what the application hands to a decorator: a ready instance (identified by `id`), or a class -/
inductive Given where
  | inst (id : Nat)
  | cls (classId : Nat)
deriving DecidableEq, Repr

/-- the object stored in the registry -/
inductive Stored where
  | given (id : Nat)                       -- the application's own instance
  | fresh (at_ : Nat) (classId : Nat)      -- instantiated by registration number `at_`
deriving DecidableEq, Repr

def store (k : Nat) : Given → Stored
  | .inst id => .given id
  | .cls c => .fresh k c

/-- a history of registrations `(schema name, what was handed over)`, numbered from `k` -/
def storeAll : Nat → List (String × Given) → List (String × Stored)
  | _, [] => []
  | k, (n, g) :: ops => (n, store k g) :: storeAll (k + 1) ops


end Tart.Cache
