import TartModel.Impl.Input
/-
  H-tier model of tartiflette's execution core: `execution/collect.py`, `execution/execute.py`,
  `resolver/factory.py`, `coercers/outputs/*`, `utils/errors.py:located_error`,
  `execution/context.py`.  Deterministic ("denote") semantics: every await on user code is
  answered immediately, gathered children are evaluated left to right.
-/
namespace Tart

inductive PathSeg where
  | key (s : String)
  | idx (i : Nat)
deriving Repr, Inhabited, DecidableEq

/-- one entry of the response's `errors` (before the error coercer) -/
structure GErr where
  path : List PathSeg            -- [] = null
  locs : List Loc
  tart : Bool                    -- raised exception derives from TartifletteError: message / extensions survive
  msg : String
  ext : List (String × PyVal)
  kind : String                  -- diagnostic class, never compared
deriving Repr, Inhabited

/-- a Python exception in flight -/
inductive Exn where
  | raw (kind : String) (tart : Bool) (msg : String) (ext : List (String × PyVal))
  | multi (errs : List GErr)     -- MultipleException of already located errors
deriving Repr, Inhabited

inductive ResolverSpec where
  | default                      -- no @Resolver: `default_field_resolver`
  | const (v : PyVal)            -- returns `v` (an exception instance as value behaves as a raise)
  | raise (e : PyVal)
  | parentKey (k : String)       -- returns parent[k] when parent is a dict holding k, else None
  | argEcho (a : String)         -- returns args.get(a)
deriving Repr, Inhabited

inductive TypeResolverSpec where
  | const (n : String)
  | key (k : String)             -- result[k] when result is a dict holding k, else "?"
deriving Repr, Inhabited

structure Env where
  resolvers : List (String × ResolverSpec)
  fieldTypeResolvers : List (String × TypeResolverSpec)
  typeResolvers : List (String × TypeResolverSpec)
deriving Repr, Inhabited

structure Ctx where
  S : Schema
  doc : Document
  vars : Vars
  env : Env
  o : Oracle

structure Call where
  coord : String
  path : List PathSeg
  parent : PyVal
  args : List (String × PyVal)
deriving Repr, Inhabited

structure St where
  errors : List GErr := []
  calls : List Call := []
deriving Repr, Inhabited

/-! ### collection -/

def ifArgDefs : List ArgDef := [⟨"if", .nonNull (.named "Boolean"), none⟩]

/-- `should_include_node` for the built-in @skip / @include (any hook exception = exclude) -/
def shouldInclude (fuel : Nat) (ctx : Ctx) (dirs : List Directive) : Bool :=
  dirs.all fun d =>
    if d.name == "skip" || d.name == "include" then
      match coerceArguments fuel ctx.S ctx.o ifArgDefs d.loc d.args ctx.vars with
      | .ok args =>
        match lookupKV "if" args with
        | some v => if d.name == "skip" then !py_truthy v else py_truthy v
        | none => false
      | .error _ => false
    else true

def conditionMatches (S : Schema) (typeCond : Option String) (rt : String) : Bool :=
  match typeCond with
  | none => true
  | some tc => tc == rt || (S.isAbstract tc && (S.possibleTypes tc).contains rt)

abbrev Collected := List (String × List Selection)

/-- `fields.setdefault(key, []).append(node)` -/
def Collected.add (acc : Collected) (k : String) (node : Selection) : Collected :=
  if acc.any (fun p => p.1 == k) then acc.map (fun p => if p.1 == k then (p.1, p.2 ++ [node]) else p)
  else acc ++ [(k, [node])]

def collectFields : Nat → Ctx → String → List Selection → Collected × List String → Collected × List String
  | 0, _, _, _, acc => acc
  | n+1, ctx, rt, sels, acc =>
    sels.foldl (fun (acc : Collected × List String) sel =>
      match sel with
      | .field _ _ _ dirs _ _ =>
        if shouldInclude (n+1) ctx dirs then (acc.1.add sel.key sel, acc.2) else acc
      | .inline tc dirs ss =>
        if !shouldInclude (n+1) ctx dirs || !conditionMatches ctx.S tc rt then acc
        else collectFields n ctx rt ss acc
      | .spread name dirs =>
        if acc.2.contains name || !shouldInclude (n+1) ctx dirs then acc
        else
          let acc := (acc.1, acc.2 ++ [name])
          match ctx.doc.findFragment name with
          | none => acc
          | some fr =>
            if !conditionMatches ctx.S (some fr.typeCond) rt then acc
            else collectFields n ctx rt fr.sels acc) acc

def collectSubfields (fuel : Nat) (ctx : Ctx) (rt : String) (nodes : List Selection) : Collected :=
  (nodes.foldl (fun acc node =>
    if node.fsels.isEmpty then acc else collectFields fuel ctx rt node.fsels acc) (([], []) : Collected × List String)).1

/-! ### resolving one field value -/

def dictMethodNames : List String :=
  ["clear", "copy", "fromkeys", "get", "items", "keys", "pop", "popitem", "setdefault", "update", "values"]

def boundMethod : PyVal := .obj "builtin_function_or_method" []

/-- `default_field_resolver`: attribute first, then key, then None -/
def defaultResolve (parent : PyVal) (name : String) : PyVal :=
  match parent with
  | .obj _ attrs => (lookupKV name attrs).getD .none
  | .dict kvs => if dictMethodNames.contains name then boundMethod else (lookupKV name kvs).getD .none
  | _ => .none

def typenameField : FieldDef := { name := "__typename", type := .nonNull (.named "String"), args := [] }

def findFieldDef (S : Schema) (tn fn : String) : Option FieldDef :=
  if fn == "__typename" then (if (S.fieldsOf tn).isEmpty && !S.isAbstract tn then none else some typenameField)
  else S.findField tn fn

def nodeLocs (nodes : List Selection) : List Loc := nodes.map Selection.floc

def excToExn : PyVal → Exn
  | .exc t m e => .raw "resolver" t m e
  | _ => .raw "resolver" false "" []

def resolverResult (spec : ResolverSpec) (parent : PyVal) (fieldName : String) (args : List (String × PyVal)) :
    Except Exn PyVal :=
  match spec with
  | .default => .ok (defaultResolve parent fieldName)
  | .const v => .ok v
  | .raise e => .error (excToExn e)
  | .parentKey k => .ok (match parent with | .dict kvs => (lookupKV k kvs).getD .none | _ => .none)
  | .argEcho a => .ok ((lookupKV a args).getD .none)

/-- `isinstance(result, Exception): raise result` -/
def raiseIfExc : Except Exn PyVal → Except Exn PyVal
  | .ok (.exc t m e) => .error (.raw "resolver" t m e)
  | r => r

def logCall (spec : ResolverSpec) (coord : String) (path : List PathSeg) (parent : PyVal)
    (args : List (String × PyVal)) (st : St) : St :=
  match spec with
  | .default => st
  | _ => { st with calls := st.calls ++ [⟨coord, path, parent, args⟩] }

def argErrors (errs : List (String × Loc)) : Exn :=
  .multi (errs.map fun e => ⟨[], [e.2], true, "", [], "argument:" ++ e.1⟩)

def resolverOf (env : Env) (coord : String) : ResolverSpec :=
  match env.resolvers.find? (fun p => p.1 == coord) with
  | some p => p.2
  | none => .default

/-- `resolve_field_value_or_error` (+ the `isinstance(result, Exception): raise` of the caller) -/
def resolveValue (fuel : Nat) (ctx : Ctx) (tn : String) (fd : FieldDef) (parent : PyVal)
    (nodes : List Selection) (path : List PathSeg) (st : St) : Except Exn PyVal × St :=
  match coerceArguments fuel ctx.S ctx.o fd.args nodes.head!.floc nodes.head!.fargs ctx.vars with
  | .error errs => (.error (argErrors errs), st)
  | .ok args =>
    if fd.name == "__typename" then (.ok (.str tn), st) else
    (raiseIfExc (resolverResult (resolverOf ctx.env (tn ++ "." ++ fd.name)) parent fd.name args),
     logCall (resolverOf ctx.env (tn ++ "." ++ fd.name)) (tn ++ "." ++ fd.name) path parent args st)

/-! ### errors -/

/-- `located_error`: give path / locations to errors that have none yet -/
def locate (e : Exn) (nodes : List Selection) (path : List PathSeg) : List GErr :=
  match e with
  | .raw k t m x => [⟨path, nodeLocs nodes, t, m, x, k⟩]
  | .multi errs => errs.map fun g =>
      { g with path := if g.path.isEmpty then path else g.path,
               locs := if g.locs.isEmpty then nodeLocs nodes else g.locs }

abbrev Res := Except (List GErr) PyVal

/-- `complete_value_catching_error` + `handle_field_error` -/
def catchField (nonNull : Bool) (nodes : List Selection) (path : List PathSeg)
    (r : Except Exn PyVal × St) : Res × St :=
  match r with
  | (.ok v, st) => (.ok v, st)
  | (.error e, st) =>
    let errs := locate e nodes path
    if nonNull then (.error errs, st) else (.ok .none, { st with errors := st.errors ++ errs })

/-! ### runtime type of abstract results -/

def defaultTypeName : PyVal → PyVal
  | .dict kvs => (lookupKV "_typename" kvs).getD (.str "dict")
  | .obj c attrs => (lookupKV "_typename" attrs).getD (.str c)
  | .str _ => .str "str" | .int _ => .str "int" | .bool _ => .str "bool" | .float _ => .str "float"
  | .list _ => .str "list" | .tuple _ => .str "tuple" | .none => .str "NoneType"
  | _ => .str "?"

def resolveTypeName (ctx : Ctx) (parentType : String) (fieldName : String) (abstractType : String) (v : PyVal) : PyVal :=
  let spec : Option TypeResolverSpec :=
    match ctx.env.fieldTypeResolvers.find? (fun (p : String × TypeResolverSpec) => p.1 == parentType ++ "." ++ fieldName) with
    | some p => some p.2
    | none => (ctx.env.typeResolvers.find? (fun (p : String × TypeResolverSpec) => p.1 == abstractType)).map (·.2)
  match spec with
  | some (.const n) => .str n
  | some (.key k) => (match v with | .dict kvs => (lookupKV k kvs).getD (.str "?") | _ => .str "?")
  | none => defaultTypeName v

/-- `ensure_valid_runtime_type` -/
def validRuntimeType (S : Schema) (abstractType : String) (tnv : PyVal) : Option String :=
  match tnv with
  | .str n => if S.isObject n && (S.possibleTypes abstractType).contains n then some n else none
  | _ => none

/-! ### the executor -/

inductive Job where
  | complete (ty : TypeRef) (parentType : String) (fieldName : String) (nodes : List Selection)
             (path : List PathSeg) (v : PyVal)
  | fields (tn : String) (parent : PyVal) (path : List PathSeg) (collected : Collected) (serial : Bool)

def abstractErr (nodes : List Selection) : Exn :=
  .multi [⟨[], nodeLocs nodes, true, "", [], "abstract"⟩]

/-- state-threading map (children evaluated left to right) -/
def mapSt {α β σ : Type} (f : α → σ → β × σ) : List α → σ → List β × σ
  | [], s => ([], s)
  | a :: as, s =>
    let r := f a s
    let rs := mapSt f as r.2
    (r.1 :: rs.1, rs.2)

/-- like `mapSt`, but the first raising element aborts the rest (`await` one by one, exception propagates) -/
def serialSt {α σ : Type} (f : α → σ → (String × Res) × σ) : List α → σ → Except (List GErr) (List (String × PyVal)) × σ
  | [], s => (.ok [], s)
  | a :: as, s =>
    match f a s with
    | ((_, .error es), s1) => (.error es, s1)
    | ((k, .ok v), s1) =>
      match serialSt f as s1 with
      | (.error es, s2) => (.error es, s2)
      | (.ok kvs, s2) => (.ok ((k, v) :: kvs), s2)

/-- `extract_exceptions_from_results`: every raised child is reported, otherwise all the values -/
def gatherRes : List Res → Except (List GErr) (List PyVal)
  | [] => .ok []
  | r :: rs =>
    match r, gatherRes rs with
    | .ok v, .ok vs => .ok (v :: vs)
    | .ok _, .error es => .error es
    | .error es, .ok _ => .error es
    | .error es, .error es' => .error (es ++ es')

def gatherKV : List (String × Res) → Except (List GErr) (List (String × PyVal))
  | [] => .ok []
  | (k, r) :: rs =>
    match r, gatherKV rs with
    | .ok v, .ok vs => .ok ((k, v) :: vs)
    | .ok _, .error es => .error es
    | .error es, .ok _ => .error es
    | .error es, .error es' => .error (es ++ es')

def enumFrom {α : Type} : Nat → List α → List (Nat × α)
  | _, [] => []
  | i, a :: as => (i, a) :: enumFrom (i + 1) as

abbrev FieldJob := String × List Selection × FieldDef

/-- dictionary in the order of the collected fields -/
def orderBy (defs : List FieldJob) (kvs : List (String × PyVal)) : List (String × PyVal) :=
  defs.filterMap fun d => (lookupKV d.1 kvs).map fun v => (d.1, v)

def fieldJobs (S : Schema) (tn : String) (collected : Collected) : List FieldJob :=
  collected.filterMap fun kn => (findFieldDef S tn kn.2.head!.fname).map fun fd => (kn.1, kn.2, fd)

abbrev Rec := Job → St → Except Exn PyVal × St

/-- one list item: `complete_value_catching_error(item, …, Path(path, index), item_type, inner)` -/
def itemStep (rec : Rec) (t : TypeRef) (pt fname : String) (nodes : List Selection) (path : List PathSeg)
    (ix : Nat × PyVal) (st : St) : Res × St :=
  -- an exception instance as item value is raised
  match ix.2 with
  | .exc t' m e => catchField t.isNonNull nodes (path ++ [PathSeg.idx ix.1]) (.error (.raw "resolver" t' m e), st)
  | _ =>
    catchField t.isNonNull nodes (path ++ [PathSeg.idx ix.1])
      (rec (.complete t pt fname nodes (path ++ [PathSeg.idx ix.1]) ix.2) st)

/-- one field of a selection set: resolve, complete, catch -/
def fieldStep (rec : Rec) (fuel : Nat) (ctx : Ctx) (tn : String) (parent : PyVal) (path : List PathSeg)
    (d : FieldJob) (st : St) : (String × Res) × St :=
  let p := path ++ [PathSeg.key d.1]
  match resolveValue fuel ctx tn d.2.2 parent d.2.1 p st with
  | (.error e, st1) =>
    let r := catchField d.2.2.type.isNonNull d.2.1 p (.error e, st1)
    ((d.1, r.1), r.2)
  | (.ok v, st1) =>
    let r := catchField d.2.2.type.isNonNull d.2.1 p (rec (.complete d.2.2.type tn d.2.2.name d.2.1 p v) st1)
    ((d.1, r.1), r.2)

/-- completion of a list value -/
def completeList (rec : Rec) (t : TypeRef) (pt fname : String) (nodes : List Selection) (path : List PathSeg)
    (items : List PyVal) (st : St) : Except Exn PyVal × St :=
  let rs := mapSt (itemStep rec t pt fname nodes path) (enumFrom 0 items) st
  match gatherRes rs.1 with
  | .ok vs => (.ok (.list vs), rs.2)
  | .error es => (.error (.multi es), rs.2)

/-- `execute_fields_serially` / `execute_fields` over the collected fields -/
def executeFields (rec : Rec) (fuel : Nat) (ctx : Ctx) (tn : String) (parent : PyVal) (path : List PathSeg)
    (defs : List FieldJob) (serial : Bool) (st : St) : Except Exn PyVal × St :=
  if serial then
    -- execute_fields_serially: a raising field aborts the rest
    match serialSt (fieldStep rec fuel ctx tn parent path) defs st with
    | (.ok kvs, st') => (.ok (.dict kvs), st')
    | (.error es, st') => (.error (.multi es), st')
  else
    -- execute_fields: non-concurrent fields are awaited inline while the coroutines are created (a raise
    -- propagates at once: the deferred ones are never started); concurrent ones are gathered afterwards
    match serialSt (fieldStep rec fuel ctx tn parent path) (defs.filter fun d => !d.2.2.parentConc) st with
    | (.error es, st1) => (.error (.multi es), st1)
    | (.ok kv1, st1) =>
      let rs := mapSt (fieldStep rec fuel ctx tn parent path) (defs.filter fun d => d.2.2.parentConc) st1
      match gatherKV rs.1 with
      | .error es => (.error (.multi es), rs.2)
      | .ok kv2 => (.ok (.dict (orderBy defs (kv1 ++ kv2))), rs.2)

/-- completion of a non-null leaf / composite value of named type `tn` -/
def completeNamed (rec : Rec) (fuel : Nat) (ctx : Ctx) (tn pt fname : String) (nodes : List Selection)
    (path : List PathSeg) (v : PyVal) (st : St) : Except Exn PyVal × St :=
  match ctx.S.findType tn with
  | some (.scalar _) =>
    match scalarOut ctx.o tn v with
    | .ok .undef => (.error (.raw "leaf" false "" []), st)
    | .ok r => (.ok r, st)
    | .error _ => (.error (.raw "leaf" false "" []), st)
  | some (.enum _ vals) =>
    match v with
    | .str s => if vals.contains s then (.ok (.str s), st) else (.error (.raw "enum" false "" []), st)
    | _ => (.error (.raw "enum" false "" []), st)
  | some (.object _ _ _) =>
    rec (.fields tn v path (collectSubfields fuel ctx tn nodes) false) st
  | some (.interface _ _) | some (.union _ _) =>
    match validRuntimeType ctx.S tn (resolveTypeName ctx pt fname tn v) with
    | none => (.error (abstractErr nodes), st)
    | some rt => rec (.fields rt v path (collectSubfields fuel ctx rt nodes) false) st
  | _ => (.ok .none, st)

def run : Nat → Ctx → Job → St → Except Exn PyVal × St
  | 0, _, _, st => (.error (.raw "fuel" false "" []), st)
  | n+1, ctx, job, st =>
    match job with
    | .complete ty pt fname nodes path v =>
      match ty with
      | .nonNull t =>
        match run n ctx (.complete t pt fname nodes path v) st with
        | (.ok .none, st') => (.error (.raw "non-null" false "" []), st')
        | r => r
      | .list t =>
        match v with
        | .none => (.ok .none, st)
        | .list items => completeList (run n ctx) t pt fname nodes path items st
        | _ => (.error (.raw "not-iterable" false "" []), st)
      | .named tn =>
        match v with
        | .none => (.ok .none, st)
        | _ => completeNamed (run n ctx) (n+1) ctx tn pt fname nodes path v st
    | .fields tn parent path collected serial =>
      executeFields (run n ctx) (n+1) ctx tn parent path (fieldJobs ctx.S tn collected) serial st

/-! ### request level -/

structure Response where
  data : PyVal
  errors : List GErr
  calls : List Call
deriving Repr, Inhabited

def selectOperation (doc : Document) (opName : Option String) : Option Operation :=
  -- dict keyed by name (None for anonymous): the last definition of a name wins
  let names := doc.operations.map (·.name)
  let distinct := names.foldl (fun acc n => if acc.contains n then acc else acc ++ [n]) ([] : List (Option String))
  match opName with
  | some n => if n == "" then
                (if distinct.length == 1 then doc.operations.getLast? else none)
              else doc.operations.reverse.find? (fun op => op.name == some n)
  | none => if distinct.length == 1 then doc.operations.getLast? else none

def rootTypeName (S : Schema) (k : OpKind) : Option String :=
  match k with
  | .query => some S.queryType
  | .mutation => S.mutationType
  | .subscription => S.subscriptionType

def simpleErr (kind : String) (locs : List Loc := []) : GErr := ⟨[], locs, true, "", [], kind⟩

/-- `execute` of execution/execute.py on an already parsed + validated document -/
def executeRequest (fuel : Nat) (S : Schema) (o : Oracle) (env : Env) (doc : Document)
    (opName : Option String) (rawVars : List (String × PyVal)) (root : PyVal) : Response :=
  match selectOperation doc opName with
  | none => ⟨.none, [simpleErr "operation-selection"], []⟩
  | some op =>
    let (vars, verrs) := coerceVariables fuel S o op.varDefs rawVars
    if !verrs.isEmpty then
      ⟨.none, verrs.map (fun e => simpleErr ("variable:" ++ e.1) [e.2.2]), []⟩
    else
      match rootTypeName S op.kind with
      | none => ⟨.none, [simpleErr "no-root-type"], []⟩
      | some rt =>
        let ctx : Ctx := ⟨S, doc, vars, env, o⟩
        let collected := (collectFields fuel ctx rt op.sels ([], [])).1
        match run fuel ctx (.fields rt root [] collected (op.kind == .mutation)) {} with
        | (.ok d, st) => ⟨d, st.errors, st.calls⟩
        | (.error e, st) =>
          let errs := match e with
            | .multi es => es
            | .raw k t m x => [⟨[], [], t, m, x, k⟩]
          ⟨.none, st.errors ++ errs, st.calls⟩

end Tart
