import TartModel.Syntax.Document
import TartModel.Generated.Scalars
/-
  H-tier model of tartiflette's input side: `coercers/inputs/*` (JSON variable values),
  `coercers/literals/*` (AST literals), `coercers/variables.py`, `coercers/argument(s).py`.
  Mirrors the Python, idiosyncrasies included (DESIGN Appendix B).  Leaves call the
  GENERATED scalar functions.  `fuel` bounds the only non-structural recursion (named
  input types / defaults).
-/
namespace Tart
open Tart.Gen

/-- JSON-kind values a pass-through custom scalar lets through -/
def isJsonKind : Nat → PyVal → Bool
  | 0, _ => false
  | _, .none => true | _, .bool _ => true | _, .int _ => true | _, .str _ => true
  | _, .float f => f.isFinite
  | n+1, .list xs => xs.all (isJsonKind n)
  | n+1, .dict kvs => kvs.all (fun kv => isJsonKind n kv.2)
  | _, _ => false

def builtinScalars : List String := ["Int", "Float", "String", "Boolean", "ID"]

/-- custom scalars of the harness: pass JSON-kind values through, refuse the string "BAD" -/
def customOk (v : PyVal) : Bool :=
  isJsonKind 64 v && !(match v with | .str s => s == "BAD" | _ => false)

def scalarIn (o : Oracle) (name : String) (v : PyVal) : PyR :=
  match name with
  | "Int" => ScalarInt.coerce_input o v
  | "Float" => ScalarFloat.coerce_input o v
  | "String" => ScalarString.coerce_input o v
  | "Boolean" => ScalarBoolean.coerce_input o v
  | "ID" => ScalarID.coerce_input o v
  | _ => if customOk v then .ok v else .error .valueError

def isNullMe : PyVal → Bool | .str s => s == "NULLME" | _ => false

def scalarOut (o : Oracle) (name : String) (v : PyVal) : PyR :=
  match name with
  | "Int" => ScalarInt.coerce_output o v
  | "Float" => ScalarFloat.coerce_output o v
  | "String" => ScalarString.coerce_output o v
  | "Boolean" => ScalarBoolean.coerce_output o v
  | "ID" => ScalarID.coerce_output o v
  | _ =>
    -- harness custom scalar: the string "NULLME" is serialised to None (a leaf that becomes null
    -- only during output coercion)
    if isNullMe v then .ok .none
    else if customOk v then .ok v else .error .valueError

def Value.toNode : Value → PyVal
  | .var n => .node "VariableNode" (.str n)
  | .int l => .node "IntValueNode" (.str l)
  | .float l => .node "FloatValueNode" (.str l)
  | .str s => .node "StringValueNode" (.str s)
  | .bool b => .node "BooleanValueNode" (.bool b)
  | .null => .node "NullValueNode" .none
  | .enum n => .node "EnumValueNode" (.str n)
  | .list _ => .node "ListValueNode" .none
  | .obj _ => .node "ObjectValueNode" .none

def scalarLit (o : Oracle) (name : String) (node : Value) : PyR :=
  match name with
  | "Int" => ScalarInt.parse_literal o node.toNode
  | "Float" => ScalarFloat.parse_literal o node.toNode
  | "String" => ScalarString.parse_literal o node.toNode
  | "Boolean" => ScalarBoolean.parse_literal o node.toNode
  | "ID" => ScalarID.parse_literal o node.toNode
  | _ =>
    match node with
    | .str s => if s == "BAD" then .ok .undef else .ok (.str s)
    | .int l => py_int (.str l)
    | .bool b => .ok (.bool b)
    | _ => .ok .undef

/-- `CoercionResult(value, errors)`: the value is zeroed when errors exist -/
structure CoRes where
  value : PyVal
  errors : List String
deriving Repr, Inhabited

def CoRes.mk' (v : PyVal) (errs : List String) : CoRes := ⟨if errs.isEmpty then v else .none, errs⟩
def CoRes.ok (v : PyVal) : CoRes := ⟨v, []⟩
def CoRes.err (tag : String) : CoRes := ⟨.none, [tag]⟩

abbrev Vars := List (String × PyVal)

def isMissingVariable (node : Value) (vars : Option Vars) : Bool :=
  match node with
  | .var n =>
    match vars with
    | none => true
    | some vs => vs.isEmpty || (match lookupKV n vs with | none => true | some .undef => true | some _ => false)
  | _ => false

/-- last binding wins, as in `{f.name.value: f for f in node.fields}` -/
def lookupLast (k : String) (fs : List (String × Value)) : Option Value :=
  match fs.reverse.find? (fun p => p.1 == k) with | some p => some p.2 | none => none

abbrev LitRec := Bool → TypeRef → Value → Option PyVal

/-- `null_and_variable_coercer_wrapper` (applies to list / leaf / input-object coercers) -/
def litWrapped (vars : Option Vars) (nnFlag : Bool) (node : Value) (body : Option PyVal) : Option PyVal :=
  match node with
  | .null => some .none
  | .var x =>
    match vars with
    | none => none
    | some vs =>
      if vs.isEmpty then none else
      match lookupKV x vs with
      | none => none
      | some .undef => none
      | some v => if (match v with | .none => true | _ => false) && nnFlag then none else some v
  | _ => body

/-- `list_item_coercer` -/
def litListItem (rec : LitRec) (vars : Option Vars) (t : TypeRef) (it : Value) : Option PyVal :=
  if isMissingVariable it vars then (if t.isNonNull then none else some PyVal.none)
  else rec false t it

/-- all-or-nothing: any UNDEFINED makes the whole result UNDEFINED -/
def allSome {α : Type} : List (Option α) → Option (List α)
  | [] => some []
  | none :: _ => none
  | some a :: rest => (allSome rest).map (a :: ·)

/-- body of the literal `list_coercer` -/
def litList (rec : LitRec) (vars : Option Vars) (t : TypeRef) (node : Value) : Option PyVal :=
  match node with
  | .list items => (allSome (items.map (litListItem rec vars t))).map PyVal.list
  | _ => (rec false t node).map fun v => PyVal.list [v]

/-- `input_field_value_coercer` of the literal input-object coercer: `some none` = SKIP_FIELD, `none` = UNDEFINED -/
def litField (rec : LitRec) (vars : Option Vars) (fs : List (String × Value)) (fd : ArgDef) : Option (Option (String × PyVal)) :=
  let useDefault : Option (Option (String × PyVal)) :=
    match fd.default with
    | some d => (rec false fd.type d).map (fun v => some (fd.name, v))
    | none => if fd.type.isNonNull then none else some none
  match lookupLast fd.name fs with
  | none => useDefault
  | some vn =>
    if isMissingVariable vn vars then useDefault
    else (rec false fd.type vn).map (fun v => some (fd.name, v))

/-- literal coercion at a named type (leaf / input object), inside the wrapper -/
def litNamed (rec : LitRec) (S : Schema) (o : Oracle) (vars : Option Vars) (tn : String) (node : Value) : Option PyVal :=
  match S.findType tn with
  | some (.scalar _) =>
    match scalarLit o tn node with
    | .ok .undef => none
    | .ok v => some v
    | .error _ => none
  | some (.enum _ vals) =>
    match node with
    | .enum x => if vals.contains x then some (.str x) else none
    | _ => none
  | some (.input _ fields) =>
    match node with
    | .obj fs => (allSome (fields.map (litField rec vars fs))).map fun rs => PyVal.dict (rs.filterMap id)
    | _ => none
  | _ => none

/-- literal coercion; `none` = `UNDEFINED_VALUE` (invalid) -/
def coerceLiteral : Nat → Schema → Oracle → Option Vars → Bool → TypeRef → Value → Option PyVal
  | 0, _, _, _, _, _, _ => none
  | n+1, S, o, vars, nnFlag, ty, node =>
    match ty with
    | .nonNull t =>
      match node with
      | .null => none
      | _ => coerceLiteral n S o vars true t node
    | .list t => litWrapped vars nnFlag node (litList (coerceLiteral n S o vars) vars t node)
    | .named tn => litWrapped vars nnFlag node (litNamed (coerceLiteral n S o vars) S o vars tn node)

abbrev InRec := TypeRef → PyVal → CoRes

/-- one field of the JSON input-object coercer: `none` = field skipped -/
def inField (rec : InRec) (lit : TypeRef → Value → Option PyVal) (kvs : List (String × PyVal)) (fd : ArgDef) : Option (String × CoRes) :=
  match lookupKV fd.name kvs with
  | none =>
    match fd.default with
    | some d => some (fd.name, match lit fd.type d with | some dv => CoRes.ok dv | none => CoRes.ok .undef)
    | none => if fd.type.isNonNull then some (fd.name, .err "missing-required-field") else none
  | some fv => some (fd.name, rec fd.type fv)

def inNamed (rec : InRec) (lit : TypeRef → Value → Option PyVal) (S : Schema) (o : Oracle) (tn : String) (v : PyVal) : CoRes :=
  match S.findType tn with
  | some (.scalar _) =>
    match scalarIn o tn v with
    | .ok .undef => .err "scalar"
    | .ok r => .ok r
    | .error _ => .err "scalar"
  | some (.enum _ vals) =>
    match v with
    | .str s => if vals.contains s then .ok (.str s) else .err "enum"
    | _ => .err "enum"
  | some (.input _ fields) =>
    match v with
    | .dict kvs =>
      let present := (fields.map (inField rec lit kvs)).filterMap id
      let unknown := kvs.filterMap fun kv =>
        if fields.any (fun fd => fd.name == kv.1) then none else some "unknown-field"
      CoRes.mk' (.dict (present.map fun p => (p.1, p.2.value))) (present.flatMap (·.2.errors) ++ unknown)
    | _ => .err "not-an-object"
  | _ => .err "not-an-input-type"

/-- JSON (variable) value coercion -/
def coerceInput : Nat → Schema → Oracle → TypeRef → PyVal → CoRes
  | 0, _, _, _, _ => .err "fuel"
  | n+1, S, o, ty, v =>
    match ty with
    | .nonNull t =>
      match v with
      | .none => .err "null-for-non-null"
      | _ => coerceInput n S o t v
    | .list t =>
      match v with
      | .none => .ok .none
      | .list xs =>
        -- values are only kept while no error has been seen; since the value is zeroed as soon as
        -- there is an error, that bookkeeping is unobservable: value = all item values
        CoRes.mk' (.list ((xs.map (coerceInput n S o t)).map (·.value))) ((xs.map (coerceInput n S o t)).flatMap (·.errors))
      | _ => CoRes.mk' (.list [(coerceInput n S o t v).value]) (coerceInput n S o t v).errors
    | .named tn =>
      match v with
      | .none => .ok .none
      | _ => inNamed (coerceInput n S o) (coerceLiteral n S o none false) S o tn v

/-- outcome of coercing one variable definition -/
inductive VarOut where
  | absent
  | value (v : PyVal)
  | errors (es : List String)
deriving Repr, Inhabited

def isNone : PyVal → Bool | .none => true | _ => false

def coerceVariable (fuel : Nat) (S : Schema) (o : Oracle) (vd : VarDef) (raw : List (String × PyVal)) : VarOut :=
  match lookupKV vd.name raw with
  | none =>
    -- `not has_value`: the default (if any) is literal-coerced, else required / absent
    match vd.default with
    | some d =>
      match coerceLiteral fuel S o none false vd.type d with
      | none => .errors ["invalid-default"]
      | some v => .value v
    | none => if vd.type.isNonNull then .errors ["missing-required"] else .absent
  | some x =>
    if isNone x && vd.type.isNonNull then .errors ["null-for-non-null"]
    else if (coerceInput fuel S o vd.type x).errors.isEmpty then .value (coerceInput fuel S o vd.type x).value
    else .errors (coerceInput fuel S o vd.type x).errors

/-- `coerce_variables`: (coerced values, [(variable name, error tag, location)]) -/
def coerceVariables (fuel : Nat) (S : Schema) (o : Oracle) (vds : List VarDef) (raw : List (String × PyVal)) :
    Vars × List (String × String × Loc) :=
  vds.foldl (fun acc vd =>
    match coerceVariable fuel S o vd raw with
    | .absent => acc
    | .value v => (acc.1.filter (fun p => p.1 != vd.name) ++ [(vd.name, v)], acc.2)
    | .errors es => (acc.1, acc.2 ++ es.map (fun e => (vd.name, e, if e == "invalid-default" then vd.dloc else vd.loc)))) ([], [])

/-- outcome of `argument_coercer` for one argument definition -/
inductive ArgOut where
  | absent
  | value (v : PyVal)
  | error (tag : String) (loc : Loc)
deriving Repr, Inhabited

def coerceArgument (fuel : Nat) (S : Schema) (o : Oracle) (ad : ArgDef) (nodeLoc : Loc)
    (argNode : Option Arg) (vars : Vars) : ArgOut :=
  let isVar := match argNode with | some ⟨_, .var _, _⟩ => true | _ => false
  let varName := match argNode with | some ⟨_, .var x, _⟩ => x | _ => ""
  let hasValue := if isVar then (!vars.isEmpty && (lookupKV varName vars).isSome) else argNode.isSome
  let isNull := if isVar then (hasValue && (match lookupKV varName vars with | some .none => true | _ => false))
                else (match argNode with | some ⟨_, .null, _⟩ => true | _ => false)
  let vloc := match argNode with | some a => a.vloc | none => nodeLoc
  let finish (valueNode : Option Value) (direct : Option PyVal) : ArgOut :=
    match valueNode with
    | some vn =>
      match coerceLiteral fuel S o (some vars) false ad.type vn with
      | none => .error "invalid-value" vloc
      | some v => .value v
    | none =>
      match direct with
      | none => .absent
      | some .undef => .error "invalid-value" vloc
      | some v => .value v
  if !hasValue && ad.default.isSome then finish ad.default none
  else if (!hasValue || isNull) && ad.type.isNonNull then
    (if isNull then .error "null-for-non-null" vloc
     else if isVar then .error "variable-without-value" vloc
     else .error "missing-required" nodeLoc)
  else if hasValue then
    match argNode with
    | some ⟨_, .null, _⟩ => finish none (some .none)
    | some ⟨_, .var x, _⟩ => finish none (lookupKV x vars)
    | some a => finish (some a.value) none
    | none => .absent
  else .absent

/-- `coerce_arguments`: the argument dictionary, or the located errors it raises -/
def coerceArguments (fuel : Nat) (S : Schema) (o : Oracle) (defs : List ArgDef) (nodeLoc : Loc)
    (args : List Arg) (vars : Vars) : Except (List (String × Loc)) (List (String × PyVal)) :=
  if defs.isEmpty then .ok [] else
  let findArg (n : String) : Option Arg := (args.reverse.find? (fun a => a.name == n))
  let outs := defs.map fun ad => (ad.name, coerceArgument fuel S o ad nodeLoc (findArg ad.name) vars)
  let errs := outs.filterMap fun p => match p.2 with | .error t l => some (t, l) | _ => none
  if !errs.isEmpty then .error errs
  else .ok (outs.filterMap fun p => match p.2 with | .value v => some (p.1, v) | _ => none)

end Tart
