import Driver.FromJson
import TartModel.Impl.Directives
/- driver side of C13: decode the decorated schema model and the request, encode data + hook events -/
namespace Tart.DirectivesIO
open Lean Tart Tart.FromJson Tart.Dir

partial def decodeDV (j : Json) : Except String DV := do
  match j with
  | Json.null => pure .null
  | Json.str s => pure (.str s)
  | Json.arr a => pure (.list (← a.toList.mapM decodeDV))
  | _ =>
    match optField j "d" with
    | some (Json.arr kvs) =>
      pure (.obj (← kvs.toList.mapM fun kv => do
        match kv with
        | Json.arr #[Json.str k, v] => pure (k, ← decodeDV v)
        | _ => throw "bad kv"))
    | _ => throw "bad DV"

partial def encodeDV : DV → Json
  | .null => Json.null
  | .str s => Json.str s
  | .list l => Json.arr (l.map encodeDV).toArray
  | .obj kvs => Json.mkObj [("d", Json.arr (kvs.map fun kv => Json.arr #[Json.str kv.1, encodeDV kv.2]).toArray)]

def decodeUses (j : Json) (k : String := "dirs") : Except String (List Use) :=
  (arrField j k).mapM fun u => do pure (⟨← strField u "name", ← strField u "tag"⟩ : Use)

def decodeInField (j : Json) : Except String InField := do
  let d ← match optField j "default" with | some v => (do pure (some (← decodeValue v))) | none => pure none
  pure ⟨← strField j "name", ← decodeTypeRef (← j.getObjVal? "type"), d, ← decodeUses j⟩

def decodeInDef (t : Json) : Except String InDef := do
  let name ← strField t "name"
  match (← strField t "kind") with
  | "scalar" => pure (.scalar name (← decodeUses t))
  | "enum" => pure (.enum name (← decodeUses t) (← (arrField t "values").mapM fun v => do pure (← strField v "name", ← decodeUses v)))
  | "input" => pure (.input name (← decodeUses t) (← (arrField t "fields").mapM decodeInField))
  | k => throw s!"bad in-def kind {k}"

def decodeRes (j : Json) : Except String ResSpec := do
  match (← strField j "k") with
  | "renderArgs" => pure .renderArgs
  | "const" => pure (.const (← decodeDV (← j.getObjVal? "v")))
  | "parentKey" => pure .parentKey
  | "objWithArgs" =>
    match (← decodeDV (← j.getObjVal? "v")) with
    | .obj kvs => pure (.objWithArgs kvs)
    | _ => throw "objWithArgs needs an object"
  | k => throw s!"bad resolver kind {k}"

def decodeOutField (j : Json) : Except String OutField := do
  pure ⟨← strField j "name", ← (arrField j "args").mapM decodeInField, ← decodeTypeRef (← j.getObjVal? "type"), ← decodeUses j,
        ← decodeRes (← j.getObjVal? "res")⟩

def decodeDSchema (j : Json) : Except String DSchema := do
  let impls ← (arrField j "impls").mapM fun d => do
    pure (⟨← strField d "name", ← strList d "hooks", boolField d "marks" true⟩ : DImpl)
  let objs ← (arrField j "objs").mapM fun o => do
    pure (⟨← strField o "name", ← decodeUses o, ← (arrField o "fields").mapM decodeOutField⟩ : ObjDef)
  let abs ← (arrField j "abstracts").mapM fun a => do pure (⟨← strField a "name", ← decodeUses a⟩ : AbsDef)
  pure ⟨← (arrField j "ins").mapM decodeInDef, objs, impls, ← strField j "query", abs⟩

partial def decodeSel (j : Json) : Except String Sel := do
  let args ← (arrField j "args").mapM fun a => do
    match a with
    | Json.arr #[Json.str k, v] => pure (k, ← decodeValue v)
    | _ => throw "bad arg"
  let dirs ← (arrField j "dirs").mapM fun u => do
    let t ← match optField u "tag" with | some v => (do pure (some (← decodeValue v))) | none => pure none
    pure (⟨← strField u "name", t⟩ : QUse)
  pure (.field (← strField j "key") (← strField j "name") args dirs (← (arrField j "sub").mapM decodeSel))

def decodeVarDef (j : Json) : Except String Dir.VarDef := do
  let d ← match optField j "default" with | some v => (do pure (some (← decodeValue v))) | none => pure none
  pure (⟨← strField j "name", ← decodeTypeRef (← j.getObjVal? "type"), d⟩ : Dir.VarDef)

def encodeEv (e : Ev) : Json := Json.arr #[Json.str e.kind, Json.str e.dir, Json.str e.tag, Json.str e.phase, Json.str e.snap]

def run (j : Json) : Except String Json := do
  let S ← decodeDSchema (← j.getObjVal? "schema")
  let vds ← (arrField j "vardefs").mapM decodeVarDef
  let raw ← match (← decodeDV (← j.getObjVal? "variables")) with | .obj kvs => pure kvs | .null => pure [] | _ => throw "variables must be an object"
  let sels ← (arrField j "selections").mapM decodeSel
  match Dir.executeRequest S vds raw sels with
  | none => pure (Json.mkObj [("unsupported", Json.bool true)])
  | some (d, evs) => pure (Json.mkObj [("data", encodeDV d), ("events", Json.arr (evs.map encodeEv).toArray)])

end Tart.DirectivesIO
