import Driver.Codec
import Driver.FromJson
import Driver.Introspect
import Driver.DirectivesIO
import TartModel.Impl.ExecT
import TartModel.Impl.Subscription
import TartModel.Spec.Validation
import TartModel.Spec.TypeSystem
import TartModel.Generated.Scalars
/- Line-protocol driver: one JSON request per line on stdin, one JSON answer per line on stdout. -/
open Lean Tart Tart.Codec Tart.FromJson

def scalarFn (o : Oracle) (scalar dir : String) : Option (PyVal → PyR) :=
  match scalar, dir with
  | "Int", "out" => some (Gen.ScalarInt.coerce_output o)
  | "Int", "in" => some (Gen.ScalarInt.coerce_input o)
  | "Int", "lit" => some (Gen.ScalarInt.parse_literal o)
  | "Float", "out" => some (Gen.ScalarFloat.coerce_output o)
  | "Float", "in" => some (Gen.ScalarFloat.coerce_input o)
  | "Float", "lit" => some (Gen.ScalarFloat.parse_literal o)
  | "String", "out" => some (Gen.ScalarString.coerce_output o)
  | "String", "in" => some (Gen.ScalarString.coerce_input o)
  | "String", "lit" => some (Gen.ScalarString.parse_literal o)
  | "Boolean", "out" => some (Gen.ScalarBoolean.coerce_output o)
  | "Boolean", "in" => some (Gen.ScalarBoolean.coerce_input o)
  | "Boolean", "lit" => some (Gen.ScalarBoolean.parse_literal o)
  | "ID", "out" => some (Gen.ScalarID.coerce_output o)
  | "ID", "in" => some (Gen.ScalarID.coerce_input o)
  | "ID", "lit" => some (Gen.ScalarID.parse_literal o)
  | "is_integer", _ => some (Gen.is_integer o)
  | _, _ => none

def handle (j : Json) : Except String Json := do
  let op ← (← j.getObjVal? "op").getStr?
  match op with
  | "scalar" =>
    let scalar ← (← j.getObjVal? "scalar").getStr?
    let dir ← (← j.getObjVal? "dir").getStr?
    let v ← decode (← j.getObjVal? "value")
    let o ← decodeOracle ((j.getObjVal? "stf").toOption.getD Json.null)
    match scalarFn o scalar dir with
    | none => throw s!"unknown scalar fn {scalar}.{dir}"
    | some f =>
      match f v with
      | .ok r => pure (Json.mkObj [("ok", encode r)])
      | .error e => pure (Json.mkObj [("err", Json.str (excName e))])
  | "execute" =>
    let S ← decodeSchema (← j.getObjVal? "schema")
    let doc ← decodeDocument (← j.getObjVal? "doc")
    let env ← decodeEnv ((j.getObjVal? "env").toOption.getD Json.null)
    let o ← decodeOracle ((j.getObjVal? "stf").toOption.getD Json.null)
    let opName := match optField j "op_name" with | some (Json.str s) => some s | _ => none
    let vars ← match optField j "vars" with
      | some v => decodeKVs v
      | none => pure []
    let root ← match optField j "root" with | some v => decode v | none => pure PyVal.none
    let fuel := match optField j "fuel" with | some (Json.num n) => n.mantissa.toNat | _ => 100000
    pure (encodeResponse (executeRequest fuel S o env doc opName vars root))
  | "schedule" =>
    let S ← decodeSchema (← j.getObjVal? "schema")
    let doc ← decodeDocument (← j.getObjVal? "doc")
    let env ← decodeEnv ((j.getObjVal? "env").toOption.getD Json.null)
    let o ← decodeOracle ((j.getObjVal? "stf").toOption.getD Json.null)
    let opName := match optField j "op_name" with | some (Json.str s) => some s | _ => none
    let vars ← match optField j "vars" with
      | some v => decodeKVs v
      | none => pure []
    let root ← match optField j "root" with | some v => decode v | none => pure PyVal.none
    let fuel := 100000
    let choices ← (arrField j "choices").mapM fun c => do
      let a ← c.getArr?
      a.toList.mapM fun seg => match seg with
        | Json.str s => pure (PathSeg.key s)
        | Json.num n => pure (PathSeg.idx n.mantissa.toNat)
        | _ => throw "bad path segment"
    let direct := executeRequest fuel S o env doc opName vars root
    match requestTree fuel S o env doc opName vars root with
    | .error resp => pure (Json.mkObj [("refused", encodeResponse resp), ("pending", Json.arr #[]), ("ok", Json.bool true)])
    | .ok (_, tree) =>
      let ans := answersOf env
      let den := finalResponse (denote ans tree)
      let agrees := (encode den.1).compress == (encode direct.data).compress &&
        (den.2.map (fun e => (encodeErr e).compress)) == (direct.errors.map (fun e => (encodeErr e).compress))
      let sr := schedRun fuel ans choices (tree, []) []
      let encGate (g : Gate) : Json := Json.mkObj [("coord", Json.str g.coord), ("path", encodePath g.path)]
      let fin := match sr.final with
        | some r => let f := finalResponse r
                    Json.mkObj [("data", encode f.1), ("errors", Json.arr (f.2.map encodeErr).toArray)]
        | none => Json.null
      pure (Json.mkObj [("pending", Json.arr (sr.pendingSets.map fun ps => Json.arr (ps.map encGate).toArray).toArray),
                        ("final", fin), ("ok", Json.bool sr.ok), ("tree_agrees_with_direct", Json.bool agrees),
                        ("weight", Json.num (weight ans tree : Nat)),
                        ("direct", encodeResponse direct)])
  | "subscribe" =>
    let S ← decodeSchema (← j.getObjVal? "schema")
    let doc ← decodeDocument (← j.getObjVal? "doc")
    let env ← decodeEnv ((j.getObjVal? "env").toOption.getD Json.null)
    let o ← decodeOracle ((j.getObjVal? "stf").toOption.getD Json.null)
    let opName := match optField j "op_name" with | some (Json.str s) => some s | _ => none
    let vars ← match optField j "vars" with
      | some v => decodeKVs v
      | none => pure []
    let events ← (arrField j "events").mapM decode
    let rs := subscribeResponses 100000 S o env doc opName vars events
    let sa := match sourceArguments 100000 S o env doc opName vars with
      | some (c, args) => Json.mkObj [("coord", Json.str c), ("args", encode (.dict args))]
      | none => Json.null
    pure (Json.mkObj [("responses", Json.arr (rs.map encodeResponse).toArray), ("source", sa),
                      ("refused", Json.bool (preflight 100000 S o doc opName vars).isSome)])
  | "validate" =>
    let S ← decodeSchema (← j.getObjVal? "schema")
    let doc ← decodeDocument (← j.getObjVal? "doc")
    let sv := Spec.V.violations .spec 2000 S doc
    let ev := Spec.V.violations .engine 2000 S doc
    pure (Json.mkObj [("spec", Json.arr (sv.map Json.str).toArray), ("engine", Json.arr (ev.map Json.str).toArray)])
  | "describe" =>
    let M ← IntrospectIO.decodeSModel (← j.getObjVal? "model")
    let named := (arrField j "names").filterMap fun n => match n with | Json.str s => some s | _ => none
    pure (Json.mkObj [("schema", IntrospectIO.encodeSchemaDesc (Spec.I.describe M)),
                      ("named", Json.mkObj (named.map fun n => (n, match Spec.I.describeNamed M n with
                                                                   | some t => IntrospectIO.encodeTypeDesc t | none => Json.null)))])
  | "schema_check" =>
    let M ← IntrospectIO.decodeSModel (← j.getObjVal? "model")
    let impl := (arrField j "implemented").filterMap fun n => match n with | Json.str s => some s | _ => none
    pure (Json.mkObj [("violations", Json.arr ((Spec.TS.violations M impl).map Json.str).toArray),
                      ("beyond", Json.arr ((Spec.TS.beyond M).map Json.str).toArray)])
  | "directives" => DirectivesIO.run j
  | "echo" => pure (Json.mkObj [("ok", encode (← decode (← j.getObjVal? "value")))])
  | _ => throw s!"unknown op {op}"

partial def loop (h : IO.FS.Stream) (out : IO.FS.Stream) : IO Unit := do
  let line ← h.getLine
  if line.isEmpty then return ()
  let ans := match Json.parse line with
    | .error e => Json.mkObj [("fail", Json.str s!"parse: {e}")]
    | .ok j => match handle j with
      | .ok r => r
      | .error e => Json.mkObj [("fail", Json.str e)]
  out.putStrLn ans.compress
  out.flush
  loop h out

def main : IO Unit := do
  loop (← IO.getStdin) (← IO.getStdout)
