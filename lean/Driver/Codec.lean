import Lean.Data.Json
import TartModel.Base.PyPrims
/- JSON wire encoding of `PyVal` shared with harness/pyval.py (driver only; no theorem depends on it). -/
namespace Tart.Codec
open Lean Tart

def normFin (m : Int) (e : Nat) : Int × Nat :=
  let rec go (fuel : Nat) (m : Int) (e : Nat) : Int × Nat :=
    match fuel with
    | 0 => (m, e)
    | fuel + 1 => if e > 0 && m % 10 == 0 then go fuel (m / 10) (e - 1) else (m, e)
  if m == 0 then (0, 0) else go e m e

partial def encode : PyVal → Json
  | .none => Json.null
  | .undef => Json.mkObj [("u", 1)]
  | .bool b => Json.bool b
  | .int i => Json.mkObj [("i", Json.str (toString i))]
  | .float .nan => Json.mkObj [("f", "nan")]
  | .float .inf => Json.mkObj [("f", "inf")]
  | .float .ninf => Json.mkObj [("f", "-inf")]
  | .float (.fin m e) => let (m', e') := normFin m e; Json.mkObj [("f", Json.arr #[Json.str (toString m'), Json.num (e' : Nat)])]
  | .str s => Json.str s
  | .list xs => Json.arr (xs.map encode).toArray
  | .tuple xs => Json.mkObj [("t", Json.arr (xs.map encode).toArray)]
  | .dict kvs => Json.mkObj [("d", Json.arr (kvs.map fun (k, v) => Json.arr #[Json.str k, encode v]).toArray)]
  | .obj c a => Json.mkObj [("o", Json.str c), ("a", Json.arr (a.map fun (k, v) => Json.arr #[Json.str k, encode v]).toArray)]
  | .exc t m e => Json.mkObj [("x", Json.bool t), ("m", Json.str m), ("e", Json.arr (e.map fun (k, v) => Json.arr #[Json.str k, encode v]).toArray)]
  | .node k v => Json.mkObj [("n", Json.str k), ("v", encode v)]

def parseInt? (s : String) : Option Int := s.toInt?

mutual
partial def decodeKVs (j : Json) : Except String (List (String × PyVal)) := do
  let arr ← j.getArr?
  arr.toList.mapM fun p => do
    let pr ← p.getArr?
    if pr.size != 2 then throw "bad pair"
    let k ← pr[0]!.getStr?
    let v ← decode pr[1]!
    pure (k, v)

partial def decode (j : Json) : Except String PyVal :=
  match j with
  | Json.null => pure .none
  | Json.bool b => pure (.bool b)
  | Json.str s => pure (.str s)
  | Json.arr a => do pure (.list (← a.toList.mapM decode))
  | Json.num _ => throw "bare number"
  | Json.obj _ => do
    if let .ok _ := j.getObjVal? "u" then return .undef
    if let .ok v := j.getObjVal? "i" then
      let s ← v.getStr?
      match parseInt? s with | some i => return .int i | none => throw s!"bad int {s}"
    if let .ok v := j.getObjVal? "f" then
      match v with
      | Json.str "nan" => return .float .nan
      | Json.str "inf" => return .float .inf
      | Json.str "-inf" => return .float .ninf
      | Json.arr a =>
        let ms ← a[0]!.getStr?
        let e ← a[1]!.getNat?
        match parseInt? ms with | some m => return .float (.fin m e) | none => throw "bad float"
      | _ => throw "bad float"
    if let .ok v := j.getObjVal? "t" then
      let a ← v.getArr?
      return .tuple (← a.toList.mapM decode)
    if let .ok v := j.getObjVal? "d" then return .dict (← decodeKVs v)
    if let .ok c := j.getObjVal? "o" then
      let a ← j.getObjVal? "a"
      return .obj (← c.getStr?) (← decodeKVs a)
    if let .ok t := j.getObjVal? "x" then
      let m ← j.getObjVal? "m"
      let e ← j.getObjVal? "e"
      return .exc (← t.getBool?) (← m.getStr?) (← decodeKVs e)
    if let .ok k := j.getObjVal? "n" then
      let v ← j.getObjVal? "v"
      return .node (← k.getStr?) (← decode v)
    throw "bad object"
end

def decodeF (v : Json) : Except String F :=
  match v with
  | Json.str "nan" => pure .nan
  | Json.str "inf" => pure .inf
  | Json.str "-inf" => pure .ninf
  | Json.arr a => do
    let ms ← a[0]!.getStr?
    let e ← a[1]!.getNat?
    match parseInt? ms with | some m => pure (.fin m e) | none => throw "bad float"
  | _ => throw "bad float"

/-- oracle table: {"<str>": F | null} -/
def decodeOracle (j : Json) : Except String Oracle := do
  let tbl : List (String × Option F) ← match j with
    | Json.obj kvs => kvs.toList.mapM (fun (k, v) => do
        match v with
        | Json.null => pure (k, (none : Option F))
        | v => do pure (k, some (← decodeF v)))
    | Json.null => pure []
    | _ => throw "bad oracle"
  pure ⟨fun s => match tbl.find? (fun p => p.1 == s) with | some (_, r) => r | none => none⟩

def excName : PyExc → String
  | .typeError => "TypeError" | .valueError => "ValueError" | .overflowError => "OverflowError"
  | .keyError => "KeyError" | .attributeError => "AttributeError" | .other => "Exception"

end Tart.Codec
