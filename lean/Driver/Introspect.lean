import Driver.FromJson
import TartModel.Spec.Introspection
/- driver side of C11: decode the SDL-level model, encode the specification's description -/
namespace Tart.IntrospectIO
open Lean Tart Tart.Codec Tart.FromJson Tart.Spec.I

def optStrField (j : Json) (k : String) : Option String :=
  match optField j k with | some (Json.str s) => some s | _ => none

def decodeSField (j : Json) : Except String SField := do
  pure { name := ← strField j "name", args := ← (arrField j "args").mapM decodeArgDef, type := ← decodeTypeRef (← j.getObjVal? "type"),
         deprecated := optStrField j "deprecated", hidden := boolField j "hidden" false }

def decodeSDef (t : Json) : Except String SDef := do
  let kind ← strField t "kind"
  let name ← strField t "name"
  match kind with
  | "scalar" => pure (.scalar name)
  | "enum" => pure (.enum name (← (arrField t "values").mapM fun v => do
      pure ({ name := ← strField v "name", deprecated := optStrField v "deprecated" } : SEnumValue)))
  | "object" => pure (.object name (← (arrField t "fields").mapM decodeSField) (← strList t "interfaces"))
  | "interface" => pure (.interface name (← (arrField t "fields").mapM decodeSField))
  | "union" => pure (.union name (← strList t "members"))
  | "input" => pure (.input name (← (arrField t "fields").mapM decodeArgDef))
  | k => throw s!"bad def kind {k}"

def decodeSModel (j : Json) : Except String SModel := do
  let dirs ← (arrField j "directives").mapM fun dj => do
    pure ({ name := ← strField dj "name", args := ← (arrField dj "args").mapM decodeArgDef, locations := ← strList dj "locations" } : DirectiveDef)
  pure ⟨← (arrField j "defs").mapM decodeSDef, ← (arrField j "exts").mapM decodeSDef, dirs,
        ← strField j "query", optStrField j "mutation", optStrField j "subscription"⟩

partial def encodeTypeRef : TypeRef → Json
  | .named n => Json.mkObj [("n", Json.str n)]
  | .list t => Json.mkObj [("l", encodeTypeRef t)]
  | .nonNull t => Json.mkObj [("nn", encodeTypeRef t)]

partial def encodeValue : Value → Json
  | .var n => Json.mkObj [("kind", "Variable"), ("name", Json.mkObj [("value", Json.str n)])]
  | .int l => Json.mkObj [("kind", "IntValue"), ("value", Json.str l)]
  | .float l => Json.mkObj [("kind", "FloatValue"), ("value", Json.str l)]
  | .str s => Json.mkObj [("kind", "StringValue"), ("value", Json.str s)]
  | .bool b => Json.mkObj [("kind", "BooleanValue"), ("value", Json.bool b)]
  | .null => Json.mkObj [("kind", "NullValue")]
  | .enum n => Json.mkObj [("kind", "EnumValue"), ("value", Json.str n)]
  | .list vs => Json.mkObj [("kind", "ListValue"), ("values", Json.arr (vs.map encodeValue).toArray)]
  | .obj fs => Json.mkObj [("kind", "ObjectValue"), ("fields", Json.arr (fs.map fun kv =>
      Json.mkObj [("name", Json.mkObj [("value", Json.str kv.1)]), ("value", encodeValue kv.2)]).toArray)]

def encodeArgDef (a : ArgDef) : Json :=
  Json.mkObj [("name", Json.str a.name), ("type", encodeTypeRef a.type),
              ("default", match a.default with | some v => encodeValue v | none => Json.null)]

def optArr {α} (o : Option (List α)) (f : α → Json) : Json :=
  match o with | some l => Json.arr (l.map f).toArray | none => Json.null

def optStrJ (o : Option String) : Json := match o with | some s => Json.str s | none => Json.null

def encodeTypeDesc (t : TypeDesc) : Json :=
  Json.mkObj [("kind", Json.str t.kind), ("name", Json.str t.name),
    ("fields", optArr t.fields fun f => Json.mkObj [("name", Json.str f.name), ("args", Json.arr (f.args.map encodeArgDef).toArray),
        ("type", encodeTypeRef f.type), ("isDeprecated", Json.bool f.isDeprecated), ("reason", optStrJ f.reason)]),
    ("interfaces", optArr t.interfaces Json.str), ("possibleTypes", optArr t.possibleTypes Json.str),
    ("enumValues", optArr t.enumValues fun v => Json.mkObj [("name", Json.str v.name), ("deprecated", optStrJ v.deprecated)]),
    ("inputFields", optArr t.inputFields encodeArgDef)]

def encodeSchemaDesc (d : SchemaDesc) : Json :=
  Json.mkObj [("types", Json.arr (d.types.map encodeTypeDesc).toArray),
    ("directives", Json.arr (d.directives.map fun dd => Json.mkObj [("name", Json.str dd.name), ("args", Json.arr (dd.args.map encodeArgDef).toArray),
        ("locations", Json.arr (dd.locations.map Json.str).toArray)]).toArray),
    ("query", Json.str d.query), ("mutation", optStrJ d.mutation), ("subscription", optStrJ d.subscription)]

end Tart.IntrospectIO
