import Driver.Codec
import TartModel.Impl.Exec
/- Decoders for the driver: schema model JSON (harness format), libgraphqlparser JSON AST,
   resolver environment; encoder for responses. -/
namespace Tart.FromJson
open Lean Tart Tart.Codec

def optField (j : Json) (k : String) : Option Json :=
  match j.getObjVal? k with
  | .ok Json.null => none
  | .ok v => some v
  | .error _ => none

def arrField (j : Json) (k : String) : List Json :=
  match optField j k with
  | some (Json.arr a) => a.toList
  | _ => []

def strField (j : Json) (k : String) : Except String String := do
  (← j.getObjVal? k).getStr?

partial def decodeTypeRef (j : Json) : Except String TypeRef := do
  if let some n := optField j "n" then return .named (← n.getStr?)
  if let some t := optField j "l" then return .list (← decodeTypeRef t)
  if let some t := optField j "nn" then return .nonNull (← decodeTypeRef t)
  throw "bad typeref"

def nameOf (j : Json) : Except String String := do
  let n ← j.getObjVal? "name"
  strField n "value"

def decodeLoc (j : Json) : Loc :=
  match (do
    let l ← j.getObjVal? "loc"
    let s ← l.getObjVal? "start"
    let line ← (← s.getObjVal? "line").getNat?
    let col ← (← s.getObjVal? "column").getNat?
    pure (⟨line, col⟩ : Loc) : Except String Loc) with
  | .ok l => l
  | .error _ => ⟨0, 0⟩

/-- libgraphqlparser value node -/
partial def decodeValue (j : Json) : Except String Value := do
  let kind ← strField j "kind"
  match kind with
  | "Variable" => return .var (← nameOf j)
  | "IntValue" => return .int (← strField j "value")
  | "FloatValue" => return .float (← strField j "value")
  | "StringValue" => return .str (← strField j "value")
  | "BooleanValue" => return .bool (← (← j.getObjVal? "value").getBool?)
  | "NullValue" => return .null
  | "EnumValue" => return .enum (← strField j "value")
  | "ListValue" => return .list (← (arrField j "values").mapM decodeValue)
  | "ObjectValue" =>
    return .obj (← (arrField j "fields").mapM fun f => do
      pure (← nameOf f, ← decodeValue (← f.getObjVal? "value")))
  | k => throw s!"bad value kind {k}"

def decodeArgs (j : Json) (k : String := "arguments") : Except String (List Arg) :=
  (arrField j k).mapM fun a => do
    let v ← a.getObjVal? "value"
    pure ⟨← nameOf a, ← decodeValue v, decodeLoc v⟩

def decodeDirectives (j : Json) : Except String (List Directive) :=
  (arrField j "directives").mapM fun d => do
    pure ⟨← nameOf d, ← decodeArgs d, decodeLoc d⟩

partial def decodeSelections (j : Json) : Except String (List Selection) := do
  match optField j "selectionSet" with
  | none => return []
  | some ss =>
    (arrField ss "selections").mapM fun s => do
      let kind ← strField s "kind"
      match kind with
      | "Field" =>
        let alias ← match optField s "alias" with
          | some a => do pure (some (← strField a "value"))
          | none => pure none
        pure (.field alias (← nameOf s) (← decodeArgs s) (← decodeDirectives s) (decodeLoc s) (← decodeSelections s))
      | "FragmentSpread" => pure (.spread (← nameOf s) (← decodeDirectives s))
      | "InlineFragment" =>
        let tc ← match optField s "typeCondition" with
          | some t => do pure (some (← nameOf t))
          | none => pure none
        pure (.inline tc (← decodeDirectives s) (← decodeSelections s))
      | k => throw s!"bad selection kind {k}"

partial def decodeAstType (j : Json) : Except String TypeRef := do
  let kind ← strField j "kind"
  match kind with
  | "NamedType" => return .named (← nameOf j)
  | "ListType" => return .list (← decodeAstType (← j.getObjVal? "type"))
  | "NonNullType" => return .nonNull (← decodeAstType (← j.getObjVal? "type"))
  | k => throw s!"bad type kind {k}"

def decodeDocument (j : Json) : Except String Document := do
  let defs := arrField j "definitions"
  let mut ops : List Operation := []
  let mut frs : List Fragment := []
  for d in defs do
    let kind ← strField d "kind"
    if kind == "OperationDefinition" then
      let k ← strField d "operation"
      let ok : OpKind := if k == "mutation" then .mutation else if k == "subscription" then .subscription else .query
      let name ← match optField d "name" with
        | some n => do pure (some (← strField n "value"))
        | none => pure none
      let vds ← (arrField d "variableDefinitions").mapM fun v => do
        let var ← v.getObjVal? "variable"
        let dv ← match optField v "defaultValue" with
          | some x => do pure (some (← decodeValue x))
          | none => pure none
        let dloc := match optField v "defaultValue" with | some x => decodeLoc x | none => ⟨0, 0⟩
        pure (⟨← nameOf var, ← decodeAstType (← v.getObjVal? "type"), dv, decodeLoc v, dloc⟩ : VarDef)
      ops := ops ++ [⟨ok, name, vds, ← decodeDirectives d, ← decodeSelections d⟩]
    else if kind == "FragmentDefinition" then
      let tc ← nameOf (← d.getObjVal? "typeCondition")
      frs := frs ++ [⟨← nameOf d, tc, ← decodeDirectives d, ← decodeSelections d⟩]
    else throw s!"bad definition kind {kind}"
  return ⟨ops, frs⟩

def decodeArgDef (j : Json) : Except String ArgDef := do
  let dv ← match optField j "default" with
    | some x => do pure (some (← decodeValue x))
    | none => pure none
  pure ⟨← strField j "name", ← decodeTypeRef (← j.getObjVal? "type"), dv⟩

def boolField (j : Json) (k : String) (dflt : Bool) : Bool :=
  match optField j k with | some (Json.bool b) => b | _ => dflt

def decodeFieldDef (j : Json) : Except String FieldDef := do
  pure { name := ← strField j "name", type := ← decodeTypeRef (← j.getObjVal? "type"),
         args := ← (arrField j "args").mapM decodeArgDef,
         parentConc := boolField j "parentConc" true, listConc := boolField j "listConc" true }

def strList (j : Json) (k : String) : Except String (List String) :=
  (arrField j k).mapM (·.getStr?)

def decodeSchema (j : Json) : Except String Schema := do
  let types ← (arrField j "types").mapM fun t => do
    let kind ← strField t "kind"
    let name ← strField t "name"
    match kind with
    | "scalar" => pure (TypeDef.scalar name)
    | "enum" => pure (.enum name (← strList t "values"))
    | "object" => pure (.object name (← (arrField t "fields").mapM decodeFieldDef) (← strList t "interfaces"))
    | "interface" => pure (.interface name (← (arrField t "fields").mapM decodeFieldDef))
    | "union" => pure (.union name (← strList t "members"))
    | "input" => pure (.input name (← (arrField t "fields").mapM decodeArgDef))
    | k => throw s!"bad type kind {k}"
  let optStr (k : String) : Except String (Option String) :=
    match optField j k with | some v => do pure (some (← v.getStr?)) | none => pure none
  let extra ← (arrField j "directives").mapM fun dj => do
    pure ({ name := ← strField dj "name", args := ← (arrField dj "args").mapM decodeArgDef, locations := ← strList dj "locations" } : DirectiveDef)
  pure { types := types, queryType := ← strField j "query", mutationType := ← optStr "mutation", subscriptionType := ← optStr "subscription",
         directives := builtinDirectives ++ extra }

def decodeResolver (j : Json) : Except String ResolverSpec := do
  let k ← strField j "k"
  match k with
  | "default" => pure .default
  | "const" => pure (.const (← decode (← j.getObjVal? "v")))
  | "raise" => pure (.raise (← decode (← j.getObjVal? "v")))
  | "parentKey" => pure (.parentKey (← strField j "key"))
  | "argEcho" => pure (.argEcho (← strField j "arg"))
  | k => throw s!"bad resolver kind {k}"

def decodeTypeResolver (j : Json) : Except String TypeResolverSpec := do
  let k ← strField j "k"
  match k with
  | "const" => pure (.const (← strField j "name"))
  | "key" => pure (.key (← strField j "key"))
  | k => throw s!"bad type resolver kind {k}"

def decodeTable {α} (j : Json) (k : String) (f : Json → Except String α) : Except String (List (String × α)) :=
  match optField j k with
  | some (Json.obj kvs) => kvs.toList.mapM fun (kv : String × Json) => do pure (kv.1, ← f kv.2)
  | _ => pure []

def decodeEnv (j : Json) : Except String Env := do
  pure ⟨← decodeTable j "resolvers" decodeResolver,
        ← decodeTable j "fieldTypeResolvers" decodeTypeResolver,
        ← decodeTable j "typeResolvers" decodeTypeResolver⟩

def encodePath (p : List PathSeg) : Json :=
  if p.isEmpty then Json.null else
  Json.arr (p.map fun s => match s with | .key k => Json.str k | .idx i => Json.num (i : Nat)).toArray

def encodeLoc (l : Loc) : Json := Json.mkObj [("line", Json.num (l.line : Nat)), ("column", Json.num (l.col : Nat))]

def encodeErr (e : GErr) : Json :=
  Json.mkObj [("path", encodePath e.path), ("locations", Json.arr (e.locs.map encodeLoc).toArray),
              ("tart", Json.bool e.tart), ("message", Json.str e.msg),
              ("extensions", encode (.dict e.ext)), ("kind", Json.str e.kind)]

def encodeCall (c : Call) : Json :=
  Json.mkObj [("coord", Json.str c.coord), ("path", encodePath c.path), ("parent", encode c.parent),
              ("args", encode (.dict c.args))]

def encodeResponse (r : Response) : Json :=
  Json.mkObj [("data", encode r.data), ("errors", Json.arr (r.errors.map encodeErr).toArray),
              ("calls", Json.arr (r.calls.map encodeCall).toArray)]

end Tart.FromJson
